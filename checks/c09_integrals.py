"""C09 - closed-form Levy-measure integrals equal integrals of the model's own density.

Mode: lattice sweep (complete enumeration, nothing sampled).

Space
  models      the 1-d menu M1 of mc.alphabets (HEM, Merton, VG, CGMY with y in {-0.5, 0, 0.5, 1, 1.2, 1.5} = one value per
              branch of the activity index), as Levy model and as exponential model (one (r,d): the measure does not depend
              on the rates). quick: one (c,g,m) triple (+ the symmetric one for y=1.2) and y=-1.5 (the only value whose
              finite-activity flag is True); thorough: all three triples and y in {-1.5, 0.2, 0.8, 1.8} as well
  end points  E = {-inf, -5, -2, -1, -0.3, -0.05, -1e-3, 0, 1e-3, 0.05, 0.3, 1, 2, 5, +inf}; all 105 pairs a < b
              (the design's eleven points plus +-0.05 and +-5: a finite end far from the origin is what exposes a
              quadrature fall-back that misses the mass at the origin)
  edges       more Levy models at the edges of the parameter space, each fresh, as "reinit" twin and after a dill round trip:
              EDGE_SPECS      HEM with p = 1 (one-sided jumps), VG with theta = 0 (lambda_m == lambda_p) and a strongly skewed
                              VG, Merton with the jumps centred far from the origin / spread widely around it, CGMY g = 1, m = 50
              WIDE_SPECS      jump laws so wide that the mass at the integer end points 1, 2, 5 is a sizeable part of the total
                              (Merton sigma_j = 0.6 and 3, HEM eta = 1.5 / 0.8, VG sigma = nu = 1 and nu = 50, CGMY g, m ~ 1):
                              a term of an antiderivative dropped / truncated far from the origin is visible only there
              BOUNDARY_SPECS  boundary values the setters accept or the smallest values next to a rejected one: CGMY without
                              damping on a side, enumerated deliberately: (g == 0 | m == 0 | both) x y in {0, 0.5, 1, 1.5},
                              every one directly constructed in both tiers (histories reinit / dill: four of them in quick, all
                              in thorough), plus m == 0 with y = 1.2 (thorough: g == 0 with y = -0.5 too); CGMY g = 1e-3,
                              c = 1e-8; HEM p = 1e-9, intensity = 0; Merton sigma_j = 1e-3 (mu_j = 0 and mu_j = 0.3),
                              intensity = 0; VG nu = 1e-3 and sigma = 1e-3
  near        parameters NEXT TO every special value the anchored code compares a parameter with (only CGMY does: y < -1, y == 0,
              y < 0, y >= 0, y > 0, y == 1, y >= 1, y < 1, y > 1, the pole of gamma(2 - y) at 2): y = s +- d for s in {-1, 0, 1} and
              2 - d, d in {two ulps (next to 0: 2^-52), 1e-6, 1e-5, 1e-4}; (c, g, m) = (0.5, 6, 3.5) [thorough: also (1, 15, 20)];
              n = 0..5, every route, short truncation menu; the values 1e-6 away from 1 also as "reinit" twins. Such a value is a
              legal value of the neighbouring branch and must be computed by that branch's formula (not by the special value's:
              `np.isclose(y, 1.0)`). Relative tolerance 1e-7 instead of 1e-9 (spec key "rtol"): the general incomplete-gamma
              expressions divide two cancelling terms by y, y - 1, 1 - y and lose about 1e-16 / distance; measured on the unchanged
              tree (table next to NEAR_NOT_JUDGED). The (special value, distance, n) at which the unchanged tree itself keeps fewer
              than 7 digits (two ulps from 0: mass; two ulps from 1: mass and first moment - O(1) to O(1e6) relative, negative
              masses -; two ulps from 2: mass; y = 1.000001 with g, m = 15, 20: mass) are enumerated and counted
              `near_special_ill_conditioned_not_judged`, not judged: a recorded weakness of the closed forms.
  high n      moments of order 21, 22, 25, 30 (beyond 12! = int32, 20! = int64, 22! = exact double: VG hands n - 1 to the helper) of
              directly constructed Levy models on all pairs of E, every route, ties, argument forms, short truncation menu:
              quick every VG spec (menu, edge, wide, boundary) and the first spec of every other family / branch of y, thorough
              every directly constructed Levy spec taken to the larger orders at all
  histories   every model of the menu is judged as freshly constructed AND as reached through each construction history
              ("via", see `_build`); the property quantifies over models, not over how they were built:
                reinit       mc.alphabets.with_reinit: donor parameter object deep-copied, every attribute re-assigned,
                             initialisation(), model constructor (the route of the calibration helpers of model/utils.py)
                calib        the iterations of calibrate_model_parameter, for every parameter in turn, on ONE parameter
                             object taken (deepcopy) from a USED model with other values: set attribute, initialisation(),
                             construct a model, USE it, set the next value, ... (state computed at first use and kept)
                after-other  a second object of the same class with other values constructed and used between the
                             construction and the use of the judged one (class attributes, module-level caches)
                deepcopy     the model is used, deep-copied, the copy is judged
                dill         the model is used, sent through dill.dumps / loads (the copies the pool workers get), then the
                             ORIGINAL is re-parametrised (every attribute re-assigned, initialisation()) and used; the copy is
                             judged (quick: Levy models; thorough: all)
                int-params   ARGUMENT FORM of the parameters: every integer-valued parameter handed to the constructor as a
                             Python int (quick: the first such spec per family / branch of y; thorough: every such spec)
              (the edge models: fresh, reinit and dill only). "Used" = every route of n and n+1 on six intervals of E away from the
              origin (four more touching / containing it for n >= 2), on the measure and on a truncated deep copy.
  n           0..5, each through every public route that serves it:
                n=0  integrate, integrate_against_xn(n=0), LevyModel.mass with scalars and with one-element arrays
                n=1  integrate_against_x, integrate_against_xn(n=1)
                n=2  integrate_against_xx, integrate_against_xn(n=2)
                n>=3 integrate_against_xn(n)
              directly constructed models also n = 8 (quick: Levy models) and n = 12 (thorough); not the models marked
              "boundary" or with a restricted "ns" (CGMY with g = 1e-3)
  arg forms   the usual form of an end point is a Python float. On every route, after the sweep, the same interval is handed
              over as: Python ints, numpy int64, int / float mixed (the library's own `integrate_against_x(0, b1)`), numpy
              float64, 0-d float and 0-d int arrays, by keyword, and with the end point 0.0 written -0.0; `mass` gets the Real
              ones; the array form of `mass` gets lists, tuples and integer arrays. Integer forms: every pair of E they apply
              to; float-like forms: FORM_PAIRS in quick, every pair in thorough. Oracle: the value of the usual form (same
              tolerance as `value`); a form that raises where the usual form returned is a violation; containers handed over
              (lists, arrays) must be unchanged after the call. Also on the truncated measure (first menu item and every item
              with a truncation form). Keys `C09:argform:...:form=<form>`.
  ties        every route on the degenerate interval [e, e] for every finite e of E must return 0 - also [0, 0] of a measure
              of infinite activity / variation, for every n: an empty interval carries no mass whatever the activity (it is
              what a one-sided truncation turns every query of the other side into). The two end points are handed over as two
              objects (`a is b` is not `a == b`), and [0, 0] also in every other way of writing it the route accepts:
              (-0.0, -0.0), (-0.0, 0.0), (0.0, -0.0), Python / numpy ints, int and float mixed, numpy floats, 0-d arrays, by
              keyword; lists, tuples, integer arrays and -0.0 arrays for the array form of `mass`. Keys
              `C09:value:<family>:<route>:degenerate-interval:<failure>:n=<n>:at0|away-from-0`.
  truncations through LevyModel.truncate_levy_measure, two construction modes:
                inplace   a model built anew (through the same history) is truncated
                deepcopy  the judged, USED model is deep-copied, the copy truncated and its representation set to TILDE
                          (the sequence of MarkovChainProcess.__init__)
              and, per item, the ARGUMENT FORM of the interval handed to truncate_levy_measure (usual: tuple of Python floats):
              tuple of Python ints / numpy ints (the clamped end points are then integers), tuple of numpy floats (what the
              library passes: grid.truncations[0]), list, float array, integer array; the container handed over must be
              unchanged afterwards. Keys carry `:tform=<form>`.
              single truncations (-0.5,0.7), (-2,1), (0.1,0.4) [thorough: also (-0.3,2) and (-inf,0.3)], ONE-SIDED ones ending
              AT the origin (0,0.7) and (-0.5,0) [thorough: also (0,inf), (-inf,0), (-0.0,2); nested: (-2,1) then (0,0.7);
              thorough also (-0.5,0) then (-2,1) and (0,0.7) then (-0.5,0) = {0}] - positive / negative jumps only: every query
              of the other side (the chain intensity mass(-inf,-h/2) + mass(h/2,inf)), of the same side and across is judged;
              fresh models get both sides in place, one nested and one by copy, models reached through a history one side
              (alternating along the list; thorough: both) - and NESTED ones
              (truncate_levy_measure applied to an already truncated model; the truncation interval is the intersection):
              inner inside outer, partial overlap, disjoint (empty) [thorough: two more orders].
              quick: fresh models get all singles and nested in place + three by copy; models reached through a history get
              one single, one nested, one by copy. thorough: fresh models everything in both modes, histories 3+3 in place
              and 2 by copy.
  tools       rpylib.tools.integral.integral_xn_exp_minus_x(n, a, b, alpha) for alpha in {0.1, 0.7, 2.4, 7}, n <= 5, same E;
              each (alpha, n) twice: every interval evaluated alone ("fresh"), and with the same interval evaluated for
              another alpha, another n, the same arguments and alpha/2 just before ("interleaved": a remembered result);
              fresh pass also n in {8, 13, 20, 21, 22, 25, 30} (beyond every integer width a factorial can wrap in; reference
              mpmath at 30 digits, relative tolerance 1e-9) and the argument forms of the helper (usual: keywords, Python floats): end points as
              ints / numpy ints / mixed / numpy floats / 0-d arrays / -0.0, positional call, integer alpha as int, n as numpy int;
              every pass also the degenerate intervals [e, e] (two objects; e finite, 0 also written -0.0): exactly 0

Oracle
  value       quadrature of x^n nu(x) with nu = the model's own __call__ (mc.oracle.integrate_density) on the elementary
              intervals between neighbouring end points, summed for composite intervals (the true integral is additive; the
              quadrature error estimates are summed as well). A comparison is made only when the summed error estimate is
              below the tolerance, otherwise `oracle_inconclusive` is counted.
  sign        even n: value >= -slack; odd n: value <= slack on [a,b] with b <= 0 and >= -slack with a >= 0 (no rule for odd n
              on straddling intervals)
  additivity  I(a,b) + I(b,c) = I(a,c) for all triples a < b < c of E whose outer interval is in scope (library values only)
  truncated   density of the truncated measure is exactly 0 at probe points outside [l,r] and equals the base density inside;
              integral of the truncated measure over [a,b] = the library's own integral of the base measure (the judged
              model of the same history, evaluated once per route and intersection) over [a,b] n [l,r] (0 when the
              intersection is empty or a point, ALSO when the query is clamped to the point interval at the origin of a
              measure that is not integrable there; [l,r] = intersection of all truncations applied). Where the truncated
              route fails on an empty intersection exactly as the base route fails on the point interval the clipping maps
              to (same exception; same NaN / inf on [0, 0]) the failure is the base formula's: it is reported once per
              family and route by `ties`, and counted here (`truncated_base_route_raises_too`,
              `truncated_base_route_not_finite_at_origin_too`). Together with `value` on
              the base measure this is the statement; comparing with the base route isolates the clipping logic from the
              formulas.
  tools       mpmath incomplete gamma function at 30 digits

Scope ("on which they are finite")
  An interval is in scope for n iff the n-th absolute moment of the density over it is finite, i.e. it does not touch or
  contain 0, or |x|^n nu(x) is integrable at 0. Integrability at 0 is decided from the model's flags (finite activity: all n;
  finite variation: n >= 1; otherwise n >= 2; cross-checked against the Blumenthal-Getoor index) AND from the density itself:
  the local exponent beta = log2(nu(eps/2)/nu(eps)) - 1 at eps = 1e-8 gives integrability iff n > beta (margin 0.1; the
  lattice has no y within 0.1 of an integer other than the integers themselves). Where both agree that the integral
  diverges the interval is outside the alphabet. The same at +-infinity: the density's exponent there (log2(nu(X)/nu(2X)) - 1 at
  X = 1e8; infinite for every damped side) gives integrability of |x|^n nu on a half-line iff n < exponent - 0.1 (only CGMY with
  g == 0 / m == 0 has a power-law tail; counted `scope_tail_moment_diverges`). Where the flags say "divergent" but the density is integrable (CGMY with
  -1 <= y < 0: `jump_of_finite_activity` is `y < -1` although the mass at 0 is finite for every y < 0) the interval is in
  scope - the statement is about the integral, which is finite - and the violation keys carry the suffix
  `:flags-say-divergent` so that they are triaged on their own. Where the flags say "finite" but the density is not
  integrable the interval is excluded and a note is recorded.

Tolerances
  closed forms: |lib - ref| <= 1e-9 |ref| + 1e-13 S, S = the n-th absolute moment over the whole in-scope part of the line
  (differences of antiderivatives such as erf(b) - erf(a) lose absolute, not relative, accuracy: Merton mass of [0.3,1] is
  1e-8 out of a total 3 and differs from quadrature by 7e-17).
  quadrature routes: the generic fall-backs of LevyMeasure and CGMY integrate_against_xx call scipy.integrate.quad with its
  default epsabs = epsrel = 1.49e-8; such evaluations (detected by a pass-through probe on the `quad` name of the rpylib
  modules) are compared with 1e-7 |ref| + 5e-8 - the accuracy the library itself requests, with a margin for the two or
  three pieces an evaluation is made of.

Violation keys of a model reached through a history end in `:via=<history>`; truncated keys carry `:nested` and / or
`:copy-then-truncate`; tools keys of the second pass end in `:interleaved`.

Undamped CGMY (g == 0 or m == 0, spec flag "boundary"; accepted by the `positive` setters; a Levy measure for 0 < y < 2):
  several closed forms of the library degenerate on the undamped side. On an interval that meets it
    * a route that RAISES ZeroDivisionError / OverflowError (integrate_against_x for y < 1: 0.0 ** negative) is a refusal:
      counted `boundary_route_degenerate` and noted, not judged;
    * a route that silently returns NaN where the integral is finite (mass for y = 0 and y = 1, first moment for y = 1:
      exp1(0) - exp1(0), 0 * exp1(0)) violates the statement: key
      `C09:value:cgmy:<route>:nan-on-an-undamped-side:<g=0|m=0|g=m=0>:<y class>:<bounded|unbounded>[:via=...]` - an OPEN known
      finding (pattern `C09:value:cgmy:*:nan-on-an-undamped-side:*`); the degenerate intervals [e, e] of that side too
      (but [0, 0] where |x|^n nu is not integrable at 0 has the ordinary `degenerate-interval` key: that NaN is not a matter
      of damping);
    * every finite value is judged like any other, with the ordinary keys `C09:value:cgmy-<y class>:...` (the second moment on
      bounded intervals, the mass for y not in {0, 1}, the first moment for y > 1, all n >= 3);
  half-lines of the undamped side are in scope where the moment is finite (power-law tail rule). In the truncated sub-check
  (which isolates the clipping and leaves the base formula to `value`) a NaN / refusal on either side is counted.

Not covered / outside the alphabet: a > b; [e, e] with e infinite; intervals on which the n-th
  moment diverges (at 0 or in a power-law tail); odd n sign on straddling intervals; parameter values and end points off the
  lattice; n > 5 except 8 / 12 / 21 / 22 / 25 / 30 on directly constructed models; parameters within two ulps of y = 0, 1, 2 for
  the routes listed in NEAR_NOT_JUDGED (ill-conditioned on the unchanged tree); g, m next to 0 other than g = 1e-3 (power-law-like
  tails of length 1/g: the quadrature oracle and the library's quadrature fall-back both lose accuracy); one-element arrays / lists as end points of the measure routes
  and 0-d arrays for `mass` (rejected by the unchanged tree: TypeError in scipy quad, IndexError); float32 end points (not the
  same numbers); a list / array handed to truncate_levy_measure and modified by the caller afterwards (the measure keeps the
  object it was given; the statement is silent); copy.copy of a model (shares the triplet by construction); CGMY with
  g = 1e-3 for n >= 8 ("ns" of the spec: the generic quadrature fall-back loses accuracy, 8e-6 relative, on a tail of length
  1/g; a recorded weakness); HEM with p > 1 (accepted by the setter, not a measure); p = 0 in HEM, mu_j < 0
  in Merton, sigma = 0 in VG, eta1 = 1 in HEM (rejected by the setters / constructors); a model whose parameter object is mutated AFTER the model was constructed and
  that is used without being rebuilt (the library always constructs a new model from the updated object: see the comment
  in run_default_calibration); intermediate models of the "calib" history are used but not judged (a constructor that
  raises there is counted as history_intermediate_model_raises and noted).
"""
from __future__ import annotations

import copy
import inspect
import itertools
import math
import sys
import warnings

from mc import core
from mc.alphabets import DONOR_PARAMS, make_model, model_label, model_specs, with_reinit
from mc.oracle import integrate_density

PID = "C09"
LEVEL = "exploration"
RULE = (
    "complete product (models x construction histories) x n x routes x all pairs a<b of 15 end points x truncation menu "
    "(single and nested truncations, in place and copy-then-truncate, the truncation interval in every argument form; plus all "
    "triples for additivity, plus every argument form of the end points on every route against the usual form, plus the "
    "degenerate intervals - [0, 0] in every written form for every model and n -, plus the helper integral for all alpha x n x pairs, fresh and interleaved with other arguments and "
    "in every argument form); models = menu M1 + edge, wide-jump and boundary-parameter models + CGMY with y next to every special "
    "value of the code (2 ulps, 1e-6, 1e-5, 1e-4 either side); orders 0..5, 8, 12 and 21, 22, 25, 30; a case (model, history, n) is "
    "non-trivial when at least one library value was compared with the quadrature of the model's own density; distinct = "
    "distinct case dict"
)
ASSUMPTIONS = [
    "the oracle is scipy/mpmath quadrature of the model's own __call__ density on elementary intervals, summed; comparisons "
    "whose summed error estimate exceeds the tolerance are counted as oracle_inconclusive, never alarms",
    "integrability at 0 is read from the density's local exponent at eps=1e-8 (margin 0.1) and from the model's flags",
    "evaluations during which the library called scipy quad are compared at the accuracy quad was asked for (1e-7 rel + 5e-8 abs)",
    "the construction histories use only public operations in the order the library's calibration helpers and "
    "MarkovChainProcess use them (deepcopy of a parameter object, attribute assignment, initialisation(), model constructor, "
    "deepcopy of a model, truncate_levy_measure, set_representation); intermediate models of a history are used, not judged",
    "argument forms: only forms the unchanged tree accepts are enumerated (scalars of the numeric tower, numpy scalars, 0-d arrays, "
    "keywords; sequences only for the array form of mass); the oracle is the value of the usual form (Python floats)",
    "CGMY without damping on a side (g == 0 / m == 0): a route that raises ZeroDivisionError / OverflowError on an interval of "
    "that side is a counted refusal (boundary_route_degenerate); a silent NaN is a violation (keys "
    "C09:value:cgmy:<route>:nan-on-an-undamped-side:...); finite values are judged with the ordinary keys",
]
CHUNK = 1

INF = math.inf
ENDS = {  # "std" = the eleven points of DESIGN.md; "wide" (used by both tiers) adds +-0.05 and +-5
    "std": [-INF, -2.0, -1.0, -0.3, -1e-3, 0.0, 1e-3, 0.3, 1.0, 2.0, INF],
    "wide": [-INF, -5.0, -2.0, -1.0, -0.3, -0.05, -1e-3, 0.0, 1e-3, 0.05, 0.3, 1.0, 2.0, 5.0, INF],
}
TRUNCS = [(-0.5, 0.7), (-2.0, 1.0), (0.1, 0.4)]
TRUNCS_THOROUGH = TRUNCS + [(-0.3, 2.0), (-INF, 0.3)]
# one-sided truncations ending AT the origin (positive jumps only / negative jumps only): every query of the other side is
# clamped to the empty interval [0, 0], whose mass / moments are 0 whatever the activity of the measure
ONE_SIDED = [(0.0, 0.7), (-0.5, 0.0)]
ONE_SIDED_THOROUGH = ONE_SIDED + [(0.0, INF), (-INF, 0.0), (-0.0, 2.0)]
# truncations applied one after the other (truncate_levy_measure on an already truncated model): inner inside outer,
# partial overlap, disjoint (empty intersection)
NESTED = [[(-2.0, 1.0), (-0.5, 0.7)], [(-0.5, 0.7), (0.1, 2.0)], [(0.1, 0.4), (-2.0, -0.5)]]
NESTED_THOROUGH = NESTED + [[(-0.5, 0.7), (-2.0, 1.0)], [(-INF, 0.3), (-0.3, 2.0)]]
NESTED_ONE_SIDED = [[(-2.0, 1.0), (0.0, 0.7)]]  # two-sided, then cut at the origin
NESTED_ONE_SIDED_THOROUGH = NESTED_ONE_SIDED + [[(-0.5, 0.0), (-2.0, 1.0)], [(0.0, 0.7), (-0.5, 0.0)]]  # the last: {0}
# construction histories of the model under test ("via"); "direct" = freshly constructed
VIAS = ["reinit", "calib", "after-other", "deepcopy"]
# further histories, applied to the Levy (non-exponential) specs in quick and to every spec in thorough:
#   dill        the model is used, sent through dill (what the pool workers receive), the ORIGINAL is re-parametrised
#               (every attribute re-assigned to other values, initialisation()) and used; the copy is judged
#   int-params  ARGUMENT FORM of the parameters: every integer-valued parameter value handed over as a Python int
VIAS_EXTRA = ["dill", "int-params"]
# second donor table: used for an attribute whose first donor value (mc.alphabets.DONOR_PARAMS) equals the target value
DONOR2 = {
    "hem": {"sigma": 0.07, "p": 0.55, "eta1": 17.0, "eta2": 23.0, "intensity": 4.0},
    "merton": {"sigma": 0.07, "sigma_j": 0.06, "mu_j": 0.04, "intensity": 4.0},
    "vg": {"sigma": 0.13, "nu": 0.09, "theta": 0.05},
    "cgmy": {"c": 0.3, "g": 8.0, "m": 12.0, "y": 0.3},
}
# intervals on which an object is "used" inside a history before the judged sweep (all away from the origin: finite for every n)
WARM_PAIRS = [(-INF, -0.05), (-1.0, -0.3), (-0.3, -1e-3), (1e-3, 0.3), (0.05, 1.0), (0.3, INF)]
WARM_PAIRS_AT0 = [(-0.3, 0.3), (0.0, 1.0), (-1.0, 0.0), (-INF, INF)]  # only for n >= 2 (finite for every Levy measure)
CGMY_Y_EXTRA = [-1.5, 0.2, 0.8, 1.8]  # thorough tier: further values inside each branch of the activity index
# edges of the parameter space (Levy models; directly constructed and "reinit" twin): one-sided jumps, symmetric VG
# (lambda_m == lambda_p), strongly skewed VG, Merton jumps centred far from / spread far around the origin, CGMY with a heavy
# right and a light left tail
EDGE_SPECS = [
    {"family": "hem", "exp": False, "params": {"sigma": 0.1, "p": 1.0, "eta1": 10.0, "eta2": 40.0, "intensity": 5.0}},
    {"family": "vg", "exp": False, "params": {"sigma": 0.2, "nu": 0.2, "theta": 0.0}},
    {"family": "vg", "exp": False, "params": {"sigma": 0.02, "nu": 1.5, "theta": 0.3}},
    {"family": "merton", "exp": False, "params": {"sigma": 0.1, "sigma_j": 0.05, "mu_j": 0.5, "intensity": 3.0}},
    {"family": "merton", "exp": False, "params": {"sigma": 0.1, "sigma_j": 0.5, "mu_j": 0.2, "intensity": 0.5}},
    {"family": "cgmy", "exp": False, "params": {"c": 2.0, "g": 1.0, "m": 50.0, "y": 0.5}},
]
NS_SMALL = [0, 1, 2, 3, 4, 5]  # "ns" of a spec that is not taken to the larger moment orders
# wide jump laws: the mass far from the origin (at the integer end points 1, 2, 5 of E) is a sizeable part of the total, so
# that a term of an antiderivative that is dropped / truncated there is visible (the menu M1 has its jumps within +-0.3)
WIDE_SPECS = [
    {"family": "merton", "exp": False, "params": {"sigma": 0.1, "sigma_j": 0.6, "mu_j": 0.1, "intensity": 2.0}},
    {"family": "merton", "exp": False, "params": {"sigma": 0.1, "sigma_j": 3.0, "mu_j": 1.0, "intensity": 2.0}},
    {"family": "hem", "exp": False, "params": {"sigma": 0.1, "p": 0.4, "eta1": 1.5, "eta2": 0.8, "intensity": 5.0}},
    {"family": "vg", "exp": False, "params": {"sigma": 1.0, "nu": 1.0, "theta": -0.3}},
    {"family": "vg", "exp": False, "params": {"sigma": 0.2, "nu": 50.0, "theta": 0.0}},
    {"family": "cgmy", "exp": False, "params": {"c": 0.5, "g": 0.7, "m": 1.1, "y": 0.5}},
    {"family": "cgmy", "exp": False, "params": {"c": 0.5, "g": 1.1, "m": 0.7, "y": 1.2}},
]
# boundary values of the parameters that the setters accept ("positive" = >= 0) or that are next to a rejected one.
# "boundary": True marks CGMY without damping on a side (g == 0 / m == 0): a legal parameter value for which several closed
# forms of the library degenerate (0 ** negative, exp1(0) - exp1(0)); there a route that RAISES is a counted refusal
# (`boundary_route_degenerate`), a silent NaN is a violation with its own key family (an open known finding), a finite value is
# judged like any other. "ns" restricts the moment orders of a spec (see the module docstring).
UNDAMPED_CGM = [(1.0, 0.0, 20.0), (1.0, 15.0, 0.0), (0.3, 0.0, 0.0)]  # g == 0, m == 0, both
UNDAMPED_Y = [0.0, 0.5, 1.0, 1.5]
# the deliberate enumeration of the undamped CGMY measures: (g == 0, m == 0, both) x y in {0, 0.5, 1, 1.5}, every one directly
# constructed in both tiers; the construction histories (reinit, dill) for UNDAMPED_TWINS in quick and for all in thorough
UNDAMPED_SPECS = [{"family": "cgmy", "exp": False, "boundary": True, "params": {"c": c, "g": g, "m": m, "y": y}}
                  for (c, g, m) in UNDAMPED_CGM for y in UNDAMPED_Y]
UNDAMPED_TWINS = [(0.0, 20.0, 0.5), (15.0, 0.0, 1.0), (0.0, 0.0, 1.5), (15.0, 0.0, 0.0)]  # (g, m, y)
BOUNDARY_SPECS = UNDAMPED_SPECS + [
    {"family": "cgmy", "exp": False, "boundary": True, "params": {"c": 1.0, "g": 15.0, "m": 0.0, "y": 1.2}},
    {"family": "cgmy", "exp": False, "ns": NS_SMALL, "params": {"c": 1.0, "g": 1e-3, "m": 20.0, "y": 1.5}},
    {"family": "cgmy", "exp": False, "params": {"c": 1e-8, "g": 15.0, "m": 20.0, "y": 0.5}},
    {"family": "hem", "exp": False, "params": {"sigma": 0.1, "p": 1e-9, "eta1": 10.0, "eta2": 40.0, "intensity": 5.0}},
    {"family": "hem", "exp": False, "params": {"sigma": 0.1, "p": 1.0, "eta1": 10.0, "eta2": 40.0, "intensity": 0.0}},
    {"family": "merton", "exp": False, "params": {"sigma": 0.1, "sigma_j": 1e-3, "mu_j": 0.0, "intensity": 3.0}},
    {"family": "merton", "exp": False, "params": {"sigma": 0.1, "sigma_j": 1e-3, "mu_j": 0.3, "intensity": 3.0}},
    {"family": "merton", "exp": False, "params": {"sigma": 0.1, "sigma_j": 0.05, "mu_j": 0.3, "intensity": 0.0}},
    {"family": "vg", "exp": False, "params": {"sigma": 0.2, "nu": 1e-3, "theta": 0.0}},
    {"family": "vg", "exp": False, "params": {"sigma": 1e-3, "nu": 0.2, "theta": 0.1}},
]
BOUNDARY_SPECS_THOROUGH = [
    {"family": "cgmy", "exp": False, "boundary": True, "params": {"c": 1.0, "g": 0.0, "m": 20.0, "y": -0.5}},
    {"family": "cgmy", "exp": False, "boundary": True, "params": {"c": 0.3, "g": 6.0, "m": 0.0, "y": 0.0}},
    {"family": "cgmy", "exp": False, "ns": NS_SMALL, "params": {"c": 1.0, "g": 1e-3, "m": 1e-3, "y": 0.5}},
]
NS = [0, 1, 2, 3, 4, 5]
# tools: beyond every small-integer case of the helper AND beyond every integer-width threshold of its factorials
# (12! is the last factorial in int32, 20! the last in int64, 22! the first whose float is not exact: orders 20, 21, 22, 25, 30)
NS_TOOLS_LARGE = [8, 13, 20, 21, 22, 25, 30]
NS_MODEL_LARGE = [8, 12]  # models: directly constructed ones only (quick: 8, Levy models; thorough: both, every fresh model)
# HIGH ORDERS ("n = 0,1,2,3,..." is every order): moments of order 21, 22, 25, 30 (VG hands order n - 1 to the helper: tool orders
# 20, 21, 24, 29) of directly constructed Levy models - quick: every VG spec of every menu and the first spec of every other
# family / branch of y; thorough: every directly constructed Levy spec that is taken to the larger orders at all
NS_MODEL_HIGH = [21, 22, 25, 30]
ALPHAS = [0.1, 0.7, 2.4, 7.0]

# ---- argument forms ---------------------------------------------------------------------------------------------------
# the usual form of an end point is a Python float. Every other legal form of the same number must give the same answer.
# scalar forms accepted by the measure routes; `mass` (isinstance(a, Real) dispatch) accepts the Real ones; the array form
# of `mass` has its own sequence forms
FORMS_NU = ["int", "npint", "int-float", "float-int", "npfloat", "0d", "0d-int", "kw", "negzero"]
FORMS_MASS = ["int", "npint", "int-float", "float-int", "npfloat", "kw", "negzero"]
FORMS_MASS_ARRAY = ["list", "tuple", "int-array"]
# pairs on which the float-like forms (npfloat, 0d, kw) are evaluated in the quick tier (thorough: every pair); the integer
# forms are evaluated on EVERY pair of E they apply to
FORM_PAIRS = [(-INF, -1.0), (-2.0, -0.3), (-0.3, -1e-3), (-1.0, 0.0), (0.0, 0.05), (1e-3, 0.3), (0.3, INF), (-0.3, 0.3),
              (-INF, INF), (-5.0, 2.0), (1.0, 2.0), (-2.0, -1.0)]
# forms of the truncation interval handed to truncate_levy_measure (the usual form is a tuple of Python floats; the library
# itself passes a tuple of numpy floats: grid.truncations[0])
TRUNC_FORMS = ["int", "npint", "npfloat", "list", "array", "int-array"]

RTOL_CLOSED, ATOL_CLOSED_REL = 1e-9, 1e-13
RTOL_QUAD, ATOL_QUAD = 1e-7, 5e-8
_CASE_RTOL = [RTOL_CLOSED]  # relative tolerance of the closed forms in the current case ("rtol" of the spec; see NEAR_SPECS)

# ---- parameters NEXT TO a special value ------------------------------------------------------------------------------------
# every comparison of a parameter with a constant that is visible in the anchored code selects a formula: CGMY y < -1 (flag),
# y == 0 / y < 0 / y >= 0 / y > 0 (mass: exponential integral, gamma function, divergence), y == 1 / y >= 1 / y < 1 / y > 1
# (first moment: exponential integral; mass: recursion; flag; quadrature points), the pole of gamma(2 - y) at y = 2, g == 0 / m == 0
# (second moment across the origin). The other families compare no parameter with a constant. A value NEXT TO the special one is a
# legal value of the neighbouring branch (a calibration that wanders around 1 produces y = 0.999992) and must be computed
# by that branch's formula. Distances: two ulps ("2ulp"; next to 0: 2^-52), 1e-6, 1e-5, 1e-4, either side (y = 2 from below).
# Relative tolerance of these specs: 1e-7 ("rtol"), because the general incomplete-gamma expressions divide two cancelling terms by
# y, y - 1: MEASURED on the unchanged tree (relative error against 30-digit quadrature, intervals away from the origin),
#   first moment near y = 1:  |y-1| = 1e-4: 2e-9, 1e-5: 2e-8 (far tail) / 1e-9, 1e-6: 7e-8 (far tail), 1e-7: 2e-6, 2 ulps: O(1) to O(100)
#   mass near y = 0:          |y| = 1e-4: 1e-7 (far tail, u h = 40) / 1e-9, 1e-5: 5e-7 / 1e-8, 1e-6: 7e-6 / 1e-7, 2^-52: O(1e4)
#   mass near y = 1:          1e-4: 9e-7 / 1e-9, 1e-5: 2e-5 / 8e-8, 1e-6: 3e-4 / 1e-6, 2 ulps: O(1e6)
#   mass near y = 2:          1e-4: 2e-6 / 3e-10, 1e-5: 3e-6 / 4e-8, 1e-6: 3e-5 / 5e-7, 2 ulps: O(1e4)
#   everything else (first moment near 0 and 2, second moment, all orders near y = -1): 1e-13 or quadrature accuracy
# (the loss is absolute, of the order 1e-16 / distance of the antiderivative at the nearer end point; the comparison
# has the absolute term 1e-13 S, so far tails do not count). NEAR_NOT_JUDGED lists the (special value, distance, n) at which the
# unchanged tree is not accurate to 1e-7 in that sense: they are enumerated, counted
# `near_special_ill_conditioned_not_judged` and noted, not evaluated (a recorded weakness of the closed forms, reported).
NEAR_RTOL = 1e-7
NEAR_DISTANCES = ["2ulp", "1e-6", "1e-5", "1e-4"]
CGMY_Y_SPECIAL = [(1.0, (-1, +1)), (0.0, (-1, +1)), (2.0, (-1,)), (-1.0, (-1, +1))]
NEAR_CGM = [(0.5, 6.0, 3.5), (1.0, 15.0, 20.0)]  # quick: the first
# (special value, distance) -> moment orders at which the unchanged tree loses more than 1e-7 (filled from the measurement)
# n -> None (every (c, g, m)) or the list of (c, g, m) concerned. Measured with the comparison of this module (1e-7 |ref| + 1e-13 S):
# everything else is silent on the unchanged tree, in particular the first moment 1e-6 away from 1 and the mass 1e-6 away from 0.
NEAR_NOT_JUDGED = {
    (0.0, "2ulp"): {0: None},  # mass: (...)/(y h^y), numerator = rounding noise: O(1) wrong, negative masses
    (1.0, "2ulp"): {0: None, 1: None},  # first moment: (...)/(y - 1) likewise; mass: recursion to y - 1 = 4e-16 / division by 1 - y
    (2.0, "2ulp"): {0: None},  # mass: recursion to y - 1 = 1 - 4e-16 < 1, then division by 1 - (y - 1)
    (1.0, "1e-6"): {0: [(1.0, 15.0, 20.0)]},  # mass of y = 1.000001 with g, m = 15, 20: 3e-4 relative in the tails, 2e-7 near the origin
}


def _near_value(special, side, dist):
    if dist == "2ulp":
        if special == 0.0:
            return side * 2.0 ** -52
        x = special
        for _ in range(2):
            x = math.nextafter(x, side * INF)
        return x
    return special + side * float(dist)


def near_specs(thorough):
    out = []
    for (c, g, m) in (NEAR_CGM if thorough else NEAR_CGM[:1]):
        for special, sides in CGMY_Y_SPECIAL:
            for dist in NEAR_DISTANCES:
                for side in sides:
                    out.append({"family": "cgmy", "exp": False, "rtol": NEAR_RTOL, "near": [special, dist],
                                "params": {"c": c, "g": g, "m": m, "y": _near_value(special, side, dist)}})
    return out


# ----------------------------------------------------------------------------------------------------------------------
# cases
# ----------------------------------------------------------------------------------------------------------------------

def _int_valued_params(spec):
    return [k for k, v in spec["params"].items() if isinstance(v, float) and float(v).is_integer()]


def cases(tier):
    thorough = tier == "thorough"
    out = []
    for hist in ("fresh", "interleaved"):
        for alpha in ALPHAS:
            for n in NS + (NS_TOOLS_LARGE if hist == "fresh" else []):
                out.append({"sub": "tools", "alpha": alpha, "n": n, "ends": "wide", "hist": hist, "forms": hist == "fresh"})
    specs = model_specs(tier, exp=(False, True))
    # the Levy measure does not depend on the rates: one (r,d) per exponential model
    specs = [s for s in specs if not s.get("exp") or (s["r"], s["d"]) == (0.02, 0.0)]
    # y = -1.5 is the only lattice value for which the library's own flag says "finite activity" for CGMY
    specs += [{"family": "cgmy", "exp": False, "params": {"c": 1.0, "g": 15.0, "m": 20.0, "y": y}}
              for y in (CGMY_Y_EXTRA if thorough else CGMY_Y_EXTRA[:1])]
    truncs = TRUNCS_THOROUGH if thorough else TRUNCS
    nested = NESTED_THOROUGH if thorough else NESTED
    edges = EDGE_SPECS + WIDE_SPECS + BOUNDARY_SPECS + (BOUNDARY_SPECS_THOROUGH if thorough else [])
    # every spec directly constructed (simplest first), then through every construction history: the "reinit" twin of
    # mc.alphabets.with_reinit and the histories of this module (`_build`)
    twins = [s for s in with_reinit(specs) if s.get("via") == "reinit"]
    assert len(twins) == len(specs), "with_reinit must give one twin per 1-d spec"
    variants = list(specs) + twins + [dict(s, via=v) for v in VIAS if v != "reinit" for s in specs]
    def twinned(s):  # quick: the construction histories of the undamped CGMY enumeration only for UNDAMPED_TWINS
        p = s["params"]
        enumerated = bool(s.get("boundary")) and (p["c"], p["g"], p["m"]) in UNDAMPED_CGM and p["y"] in UNDAMPED_Y
        return thorough or not enumerated or (p["g"], p["m"], p["y"]) in UNDAMPED_TWINS

    variants += [v for v in with_reinit(edges) if not v.get("via") or twinned(v)]
    # dill round trip (original re-parametrised afterwards): Levy specs in quick, every spec in thorough
    variants += [dict(s, via="dill") for s in specs + edges if (thorough or not s.get("exp")) and twinned(s)]
    # integer-valued parameters handed over as Python ints: quick = the first such spec of every family / branch of the
    # activity index, thorough = every spec that has an integer-valued parameter
    seen = set()
    for s in specs + edges:
        if s.get("exp") or not _int_valued_params(s):
            continue
        if thorough or fam_label(s) not in seen:
            seen.add(fam_label(s))
            variants.append(dict(s, via="int-params"))

    def menu(singles, nests, copies, forms=()):
        js = lambda ts: [core.jsonable(list(t)) for t in ts]  # noqa: E731
        return ([{"Ts": js([t]), "mode": "inplace"} for t in singles] + [{"Ts": js(ts), "mode": "inplace"} for ts in nests]
                + [{"Ts": js(ts), "mode": "deepcopy"} for ts in copies]
                + [{"Ts": js(ts), "mode": mode, "tform": tf} for ts, mode, tf in forms])

    # ARGUMENT FORM of the truncation interval (integer forms need integer end points)
    tforms_full = [([(-2.0, 1.0)], "inplace", "int"), ([(-1.0, 2.0)], "deepcopy", "int-array"), ([(-0.5, 0.7)], "deepcopy", "npfloat"),
                   ([(-2.0, 1.0), (-0.5, 0.7)], "inplace", "array"), ([(-1.0, 2.0)], "inplace", "npint"), ([(-0.5, 0.7)], "inplace", "list")]
    tforms_full.append(([(0.0, 1.0)], "inplace", "int"))  # a truncation that ends AT the origin (ties of the clamping)
    tforms_short = [([(-1.0, 2.0)], "inplace", "int"), ([(-0.5, 0.7)], "deepcopy", "npfloat")]
    if thorough:
        tforms_full += [([(-5.0, 5.0)], "inplace", "int"), ([(-INF, 0.3)], "inplace", "npfloat"),
                        ([(-2.0, 1.0), (-1.0, 2.0)], "deepcopy", "int")]
        tforms_short = tforms_full[:4]
    # directly constructed models: every truncation and every nested pair in place, plus (copy-then-truncate) the first
    # truncation and the first two nested pairs; models reached through a history: one of each kind
    # one-sided truncations ending at the origin: directly constructed models get both sides in place, one nested and one by
    # copy; models reached through a history one side in place (thorough: both sides, one nested, one by copy)
    one = ONE_SIDED_THOROUGH if thorough else ONE_SIDED
    none = NESTED_ONE_SIDED_THOROUGH if thorough else NESTED_ONE_SIDED
    full = menu(truncs + one, nested + none,
                ([[truncs[0]], nested[0], nested[1]] if not thorough else [[t] for t in truncs] + nested) + [[one[1]]] + ([[one[0]]] + none if thorough else []),
                tforms_full)
    # (quick: the side alternates along the list of variants)
    shorts = ([menu(truncs[:1] + [one[k]], nested[1:2], [[truncs[0]]], tforms_short) for k in (0, 1)] if not thorough
              else [menu(truncs[:3] + one[:2], nested[:3] + none[:1], [[truncs[0]], nested[1], [one[1]]], tforms_short)] * 2)
    # parameters next to every special value of the anchored code (module constants NEAR_*): directly constructed, short
    # truncation menu; the values 1e-6 away from y = 1 also as "reinit" twins (the calibration route that produces them)
    near = [dict(s, menu="short") for s in near_specs(thorough)]
    variants += near + [dict(s, via="reinit") for s in near if s["near"] == [1.0, "1e-6"]]
    for pos, spec in enumerate(variants):
        short = shorts[pos % 2]
        ns = list(spec.get("ns", NS))
        if not spec.get("via") and "ns" not in spec and not spec.get("boundary") and not spec.get("near") and (thorough or not spec.get("exp")):
            ns += NS_MODEL_LARGE if thorough else NS_MODEL_LARGE[:1]
        for n in ns:
            out.append({"sub": "model", "model": spec, "n": n, "ends": "wide", "forms": "all" if thorough else "quick",
                        "trunc_menu": short if (spec.get("via") or spec.get("menu") == "short") else full})
    # HIGH ORDERS: directly constructed Levy models at the orders beyond every integer-width threshold (NS_MODEL_HIGH)
    seen = set()
    for spec in specs + edges:
        if spec.get("exp") or spec.get("via") or "ns" in spec or spec.get("boundary"):
            continue
        first = fam_label(spec) not in seen
        seen.add(fam_label(spec))
        if thorough or first or spec["family"] == "vg":
            for n in NS_MODEL_HIGH:
                out.append({"sub": "model", "model": spec, "n": n, "ends": "wide", "forms": "all" if thorough else "quick",
                            "trunc_menu": shorts[0]})
    return out


def check_case(sh, case):
    with warnings.catch_warnings():
        warnings.simplefilter("ignore")
        import numpy as np

        with np.errstate(all="ignore"):
            if case["sub"] == "tools":
                _sub_tools(sh, case)
            else:
                _sub_model(sh, case)


# ----------------------------------------------------------------------------------------------------------------------
# helpers
# ----------------------------------------------------------------------------------------------------------------------

def ivclass(a, b):
    side = "neg" if b <= 0 else ("pos" if a >= 0 else "straddle")
    z = "0" if (a == 0 or b == 0) else ""
    i = "-inf" if (math.isinf(a) or math.isinf(b)) else ""
    return side + z + i


def fam_label(spec):
    fam = spec["family"]
    if fam != "cgmy":
        return fam
    y = spec["params"]["y"]
    if y < 0:
        return "cgmy-y<0"
    if y == 0:
        return "cgmy-y=0"
    if y < 1:
        return "cgmy-0<y<1"
    if y == 1:
        return "cgmy-y=1"
    return "cgmy-1<y<2"


_PROBE = {"calls": 0, "installed": False}


def _install_quad_probe():
    """Pass-through wrapper on every `quad` name of the rpylib modules (and on scipy.integrate.quad for attribute-style
    calls): only counts calls, so that an evaluation that went through scipy quad is compared at quad's own accuracy."""
    if _PROBE["installed"]:
        return
    import scipy.integrate as si

    import rpylib.model.utils  # noqa: F401  (imports every model module)

    orig = si.quad

    def probe(*a, **k):
        _PROBE["calls"] += 1
        return orig(*a, **k)

    for name, mod in list(sys.modules.items()):
        if name.startswith("rpylib") and mod is not None and getattr(mod, "quad", None) is orig:
            setattr(mod, "quad", probe)
    si.quad = probe
    _PROBE["installed"] = True


def _routes(n):
    r = []
    if n == 0:
        r += ["integrate", "mass", "mass-array"]
    if n == 1:
        r += ["integrate_against_x"]
    if n == 2:
        r += ["integrate_against_xx"]
    r += ["integrate_against_xn"]
    return r


def _is_intval(x):
    return math.isfinite(x) and float(x).is_integer()


def _convert(form, a, b):
    """(a, b) in the argument form `form`, or None where the form does not apply to this pair"""
    import numpy as np

    if form in ("int", "npint", "0d-int", "int-array"):
        if not (_is_intval(a) and _is_intval(b)):
            return None
        if form == "int":
            return int(a), int(b)
        if form == "npint":
            return np.int64(a), np.int64(b)
        if form == "0d-int":
            return np.array(int(a)), np.array(int(b))
        return np.array([int(a)]), np.array([int(b)])
    if form == "int-float":
        return (int(a), b) if _is_intval(a) else None
    if form == "float-int":
        return (a, int(b)) if _is_intval(b) else None
    if form == "npfloat":
        return np.float64(a), np.float64(b)
    if form == "0d":
        return np.array(a), np.array(b)
    if form == "kw":
        return a, b
    if form == "negzero":  # the end point 0.0 written -0.0
        if a != 0.0 and b != 0.0:
            return None
        return (-0.0 if a == 0.0 else a), (-0.0 if b == 0.0 else b)
    if form == "list":
        return [a], [b]
    if form == "tuple":
        return (a,), (b,)
    raise ValueError(form)


def _same_items(x, y):
    import numpy as np

    return bool(np.array_equal(np.asarray(x), np.asarray(y))) and getattr(x, "dtype", None) == getattr(y, "dtype", None)


def _forms_of(route):
    return FORMS_MASS if route == "mass" else (FORMS_MASS_ARRAY if route == "mass-array" else FORMS_NU)


def _zero_ties(route):
    """the empty interval [0, 0] written in every other legal way of the route: (value, a, b, form). The two end points are
    always two objects; 0.0 and -0.0 are equal numbers."""
    import numpy as np

    nz = lambda: float("-0.0")  # noqa: E731  (a new object each time)
    if route == "mass-array":
        out = [(np.array([nz()]), np.array([nz()]), "negzero"), (np.array([nz()]), np.array([0.0]), "negzero-zero"),
               ([0.0], [0.0], "list"), ((0.0,), (nz(),), "tuple"), (np.array([0]), np.array([0]), "int-array")]
    else:
        out = [(nz(), nz(), "negzero"), (nz(), float("0.0"), "negzero-zero"), (float("0.0"), nz(), "zero-negzero"),
               (int("0"), int("0"), "int"), (0, float("0.0"), "int-float"), (np.int64(0), np.int64(0), "npint"),
               (np.float64(0.0), np.float64(-0.0), "npfloat"), (float("0.0"), nz(), "kw")]
        if route != "mass":
            out += [(np.array(0.0), np.array(-0.0), "0d")]
    return [(0.0, a, b, form) for a, b, form in out]


def _call(model, nu, route, a, b, n, form=None):
    """-> (kind, value, used_quad) with kind in 'ok' | 'raises-<Type>'. form None = the usual form (Python floats; one-element
    float arrays for the route mass-array); otherwise a, b are already converted (`_convert`) and form == "kw" calls by keyword"""
    before = _PROBE["calls"]
    kw = form == "kw"
    try:
        if route == "mass":
            v = model.mass(a=a, b=b) if kw else model.mass(a, b)
        elif route == "mass-array":  # the non-scalar form of LevyModel.mass: one-element sequences
            if form is None:
                import numpy as np

                a, b = np.array([a]), np.array([b])
            v = model.mass(a, b)
        elif route == "integrate_against_xn":
            v = nu.integrate_against_xn(a=a, b=b, n=n) if kw else nu.integrate_against_xn(a, b, n)
        else:
            v = getattr(nu, route)(a=a, b=b) if kw else getattr(nu, route)(a, b)
        v = float(v)
        kind = "ok"
    except RecursionError:
        v, kind = None, "raises-RecursionError"
    except Exception as e:  # the statement covers the interval: raising is a failure to return the integral
        v, kind = None, f"raises-{type(e).__name__}"
    return kind, v, _PROBE["calls"] > before


def _form_pairs(E, PAIRS, form, mode):
    """index pairs of E on which an argument form is evaluated: the integer forms wherever they apply, the float-like ones
    on FORM_PAIRS in quick and everywhere in thorough"""
    if mode == "all" or form in ("int", "npint", "0d-int", "int-array", "int-float", "float-int", "negzero"):
        return PAIRS
    keep = set(FORM_PAIRS)
    return [(i, j) for (i, j) in PAIRS if (E[i], E[j]) in keep]


# ----------------------------------------------------------------------------------------------------------------------
# construction histories
# ----------------------------------------------------------------------------------------------------------------------

def _direct(spec):
    return {k: v for k, v in spec.items() if k != "via"}


def _label(spec):
    via = spec.get("via")
    return model_label(_direct(spec)) + (f"[{via}]" if via else "")


def _via_sfx(spec):
    return f":via={spec['via']}" if spec.get("via") else ""


def _holder(model, spec):
    return model.levy_model if spec.get("exp") else model


def _construct(cls, spec, params):
    """the constructor call of the library's calibration helpers (model/utils.py)"""
    if spec.get("exp"):
        return cls(spot=spec.get("spot", 100.0), r=spec["r"], d=spec["d"], parameters=params)
    return cls(parameters=params)


def _warm(sh, model, n, pairs=None):
    """USE an object inside a history: every route of n and of the next n on intervals away from the origin (and on
    intervals touching / containing it for n >= 2), on the measure and on a truncated deep copy (what MarkovChainProcess
    does with a model). Nothing is judged here; exceptions are swallowed by `_call`."""
    pairs = list(WARM_PAIRS if pairs is None else pairs)
    for m in (n, (n + 1) % (NS[-1] + 1)):
        pp = pairs + (WARM_PAIRS_AT0 if m >= 2 else [])
        tw = copy.deepcopy(model)
        tw.truncate_levy_measure((-0.4, 0.6))
        for mod in (model, tw):
            nu = mod.levy_triplet.nu
            for route in _routes(m):
                for a, b in pp:
                    _call(mod, nu, route, a, b, m)
                    sh.count("history_warm_calls")


def _donor_values(spec, target_params, names):
    fam = spec["family"]
    out = {}
    for name in names:
        tv = getattr(target_params, name)
        for table in (DONOR_PARAMS, DONOR2):
            dv = table.get(fam, {}).get(name)
            if dv is not None and dv != tv:
                out[name] = dv
                break
    return out


def _build(sh, spec, n):
    """The model of `spec`, reached through the construction history spec['via']:
      (none)       library factory, fresh parameter object
      reinit       mc.alphabets: donor parameter object deep-copied, every attribute re-assigned, initialisation(), constructor
      calib        what calibrate_model_parameter does over the iterations of its root finder, for every parameter in turn:
                   a model with other values in every attribute is constructed and USED, its parameter object is deep-copied
                   once; then, attribute after attribute, the attribute is set to an intermediate value, initialisation(),
                   a model is constructed from the object and USED, the attribute is set to the target's value,
                   initialisation(), constructor, use. The last model has the target's values (checked exactly).
      after-other  the target is constructed, then a SECOND object of the same class with other parameter values is
                   constructed and used on intervals of the sweep (class attributes, module-level caches, shared default
                   arguments), then the target is judged
      deepcopy     the target is constructed, used, deep-copied (MarkovChainProcess, the coupling constructors and the pool
                   workers all work on copies); the copy is judged
      dill         the target is constructed, used, sent through dill.dumps / loads (the pool workers' copies); then the
                   ORIGINAL's parameter object is re-assigned to other values, initialisation(), used; the copy is judged
      int-params   the target's constructor is given every integer-valued parameter as a Python int
    """
    via = spec.get("via")
    if via in (None, "reinit"):
        return make_model(spec)
    direct = _direct(spec)
    if via == "int-params":  # the same numbers, the integer-valued ones as Python ints
        ints = _int_valued_params(spec)
        try:
            return make_model(dict(direct, params={k: (int(v) if k in ints else v) for k, v in spec["params"].items()}))
        except Exception as e:  # a form the constructor rejects is outside the alphabet
            sh.count("int_params_rejected_by_constructor")
            sh.note(f"{_label(spec)}: constructor rejects integer parameters ({type(e).__name__}); float parameters judged instead")
            return make_model(direct)
    target = make_model(direct)
    if via == "deepcopy":
        _warm(sh, target, n)
        return copy.deepcopy(target)
    tparams = _holder(target, spec).parameters
    names = [p for p in inspect.signature(type(tparams).__init__).parameters if p != "self"]
    donor = _donor_values(spec, tparams, names)
    if via == "dill":
        import dill

        _warm(sh, target, n)
        twin = dill.loads(dill.dumps(target))
        for k, v in donor.items():  # the original lives on with other values; the copy must not follow it
            setattr(tparams, k, v)
        tparams.initialisation()
        _warm(sh, target, n)
        sh.count("history_parameter_updates", len(donor))
        return twin
    if via == "after-other":
        other = make_model(dict(direct, params=dict(donor)))
        _warm(sh, other, n)
        return target
    if via == "calib":
        start = make_model(dict(direct, params=dict(donor)))  # differs from the target in every attribute it can
        _warm(sh, start, n)
        params = copy.deepcopy(_holder(start, spec).parameters)
        steps = []
        for k in names:
            if k in donor:
                tv = getattr(tparams, k)
                steps += [(k, 0.5 * (donor[k] + tv)), (k, tv)]  # an iterate of the root finder, then the root
        sh.count("history_parameter_updates", len(steps))
        model = None
        for pos, (k, v) in enumerate(steps):
            setattr(params, k, v)
            params.initialisation()
            if pos == len(steps) - 1:
                model = _construct(type(target), spec, params)  # every attribute is at the target's value now
                break
            try:  # an intermediate mixture of donor and target values: not judged
                _warm(sh, _construct(type(target), spec, params), n)
            except Exception as e:
                sh.count("history_intermediate_model_raises")
                sh.note(f"{_label(spec)}: intermediate model of the calibration history raises {type(e).__name__} at {k}={v}")
        for k in names:  # the history must have reached the target's values (harness self-check, exact)
            if getattr(params, k) != getattr(tparams, k):
                raise AssertionError(f"harness: calibration history did not reach {k} of the target")
        if model is None:
            raise AssertionError("harness: no parameter of the family could be changed")
        return model
    raise ValueError(f"unknown construction history {via!r}")


def _tol(ref_abs, scale, used_quad):
    if used_quad:
        return RTOL_QUAD * ref_abs + ATOL_QUAD
    return _CASE_RTOL[0] * ref_abs + ATOL_CLOSED_REL * scale


def _local_exponent(nu, side, eps=1e-8):
    try:
        f1 = float(nu(side * eps))
        f2 = float(nu(side * eps / 2))
    except Exception:
        return None
    if not (f1 > 0 and f2 > 0 and math.isfinite(f1) and math.isfinite(f2)):
        return -1.0  # bounded (or vanishing) density next to 0
    return math.log2(f2 / f1) - 1.0


def _tail_exponent(nu, side, big=1e8):
    """gamma such that the density behaves like |x|^-(1+gamma) at side * infinity; math.inf for a tail lighter than every
    power (the density underflows to 0 at 1e8: every damped side)"""
    try:
        f1 = float(nu(side * big))
        f2 = float(nu(side * 2 * big))
    except Exception:
        return math.inf
    if not (f1 > 0 and f2 > 0 and math.isfinite(f1) and math.isfinite(f2)):
        return math.inf
    return math.log2(f1 / f2) - 1.0


def _flags_finite_at_zero(nu, n):
    try:
        if nu.jump_of_finite_activity():
            return True
        if nu.jump_of_finite_variation():
            return n >= 1
        return n >= 2
    except Exception:
        return None


_DEGENERATE_RAISES = ("raises-ZeroDivisionError", "raises-OverflowError")


def _undamped(spec):
    """(label, meets) for a CGMY spec without damping on a side: label in 'g=0' | 'm=0' | 'g=m=0'; meets(a, b) says whether
    [a, b] meets an undamped half-line (the origin belongs to both)"""
    g0, m0 = spec["params"].get("g") == 0, spec["params"].get("m") == 0
    label = "g=m=0" if (g0 and m0) else ("g=0" if g0 else "m=0")
    return label, (lambda a, b: (g0 and a <= 0) or (m0 and b >= 0))


def _failure_class(v, ref, tol):
    if math.isnan(v):
        return "nan"
    if math.isinf(v):
        return "infinite"
    if v == 0.0 and ref != 0.0:
        return "returns-zero"
    if abs(v + ref) <= tol and abs(ref) > tol:
        return "sign-flipped"
    return "differs"


# ----------------------------------------------------------------------------------------------------------------------
# model sub-check
# ----------------------------------------------------------------------------------------------------------------------

def _sub_model(sh, case):
    spec, n = case["model"], case["n"]
    E = ENDS[case.get("ends", "std")]
    PAIRS = [(i, j) for i in range(len(E)) for j in range(i + 1, len(E))]
    fam = fam_label(spec)
    vsfx = _via_sfx(spec)
    _install_quad_probe()
    _CASE_RTOL[0] = float(spec.get("rtol", RTOL_CLOSED))
    if spec.get("near"):
        sh.cls(f"near-special:{spec['family']}:{spec['near'][0]}:{spec['near'][1]}")
        skip = NEAR_NOT_JUDGED.get((spec["near"][0], spec["near"][1]), {})
        if n in skip and (skip[n] is None or tuple(spec["params"][k] for k in "cgm") in skip[n]):
            sh.count("near_special_ill_conditioned_not_judged")
            sh.note(f"{_label(spec)}: n={n}: the closed form is ill-conditioned this close to y = {spec['near'][0]} on the unchanged "
                    f"tree (measured: less than 7 digits); not judged")
            return
    model = _build(sh, spec, n)
    sh.cls(f"via:{spec.get('via') or 'direct'}")
    nu = model.levy_triplet.nu
    label = _label(spec)

    # ---- scope: integrability of |x|^n nu at 0, per side --------------------------------------------------------------
    fin = {}
    suffix_side = {}
    for side in (-1, +1):
        beta = _local_exponent(nu, side)
        by_density = None if beta is None else (n - beta > 0.1)
        by_flags = _flags_finite_at_zero(nu, n)
        try:
            bg = float(nu.blumenthal_getoor_index())
        except Exception:
            bg = None
        if beta is not None and bg is not None and abs(bg - max(0.0, beta)) > 0.05:
            sh.note(f"{label}: blumenthal_getoor_index() = {bg} but the density's local exponent at 0 is {beta:.3f}")
        suffix_side[side] = ""
        if by_density is None:
            fin[side] = bool(by_flags)
        elif by_density and by_flags is False:
            fin[side] = True
            suffix_side[side] = ":flags-say-divergent"
            sh.count("scope_flags_say_divergent_density_integrable")
            sh.note(f"{label}: flags (finite activity={nu.jump_of_finite_activity()}, finite variation="
                    f"{nu.jump_of_finite_variation()}) exclude n={n} at 0 but the density's local exponent is {beta:.3f}: "
                    f"|x|^{n} nu is integrable at 0; intervals touching 0 are kept in scope with suffix :flags-say-divergent")
        elif (not by_density) and by_flags:
            fin[side] = False
            sh.count("scope_flags_say_finite_density_not_integrable")
            sh.note(f"{label}: flags say the n={n} integral is finite at 0 but the density's local exponent is {beta:.3f}; excluded")
        else:
            fin[side] = bool(by_density)

    # ---- scope: integrability of |x|^n nu at +-infinity (a side without exponential damping: CGMY with g == 0 / m == 0) ----
    fin_tail = {}
    for side in (-1, +1):
        gamma = _tail_exponent(nu, side)
        fin_tail[side] = (gamma - n) > 0.1
        if not fin_tail[side]:
            sh.count("scope_tail_moment_diverges")
            sh.cls(f"out-of-scope:{fam}:n={n}:tail-power-law")
    boundary = bool(spec.get("boundary"))
    und, meets = _undamped(spec) if boundary else ("", lambda a, b: False)

    def elem_in_scope(k):
        lo, hi = E[k], E[k + 1]
        if hi == 0.0:
            return fin[-1]
        if lo == 0.0:
            return fin[+1]
        if lo == -INF:
            return fin_tail[-1]
        if hi == INF:
            return fin_tail[+1]
        return True

    def in_scope(i, j):
        return all(elem_in_scope(k) for k in range(i, j))

    def suffix(a, b):
        if not (a <= 0 <= b):
            return vsfx
        return ((suffix_side[-1] if a < 0 else "") or (suffix_side[+1] if b > 0 else "")) + vsfx

    # ---- oracle on elementary intervals ---------------------------------------------------------------------------------
    elem = {}
    for k in range(len(E) - 1):
        if not elem_in_scope(k):
            sh.count("elementary_intervals_out_of_scope")
            sh.cls(f"out-of-scope:{fam}:n={n}:{ivclass(E[k], E[k + 1])}")
            continue
        v, e = integrate_density(nu, E[k], E[k + 1], n)
        sh.count("oracle_quadratures")
        elem[k] = (v, e)
    scale = sum(abs(v) for v, _ in elem.values() if math.isfinite(v))

    def ref(i, j):
        v = sum(elem[k][0] for k in range(i, j))
        e = sum(elem[k][1] for k in range(i, j))
        return v, e

    # ---- value / sign on every pair, every route -----------------------------------------------------------------------
    libvals = {}
    compared = 0
    degenerate = set()
    fmode = case.get("forms")
    for route in _routes(n):
        vals = {}
        for (i, j) in PAIRS:
            a, b = E[i], E[j]
            if not in_scope(i, j):
                sh.count("pairs_out_of_scope")
                continue
            cls = ivclass(a, b)
            sfx = suffix(a, b)
            sh.cls(f"{fam}:n={n}:{cls}")
            r, err = ref(i, j)
            kind, v, used_quad = _call(model, nu, route, a, b, n)
            sh.count("evaluations")
            sh.cls("route-uses-quad" if used_quad else "route-closed-form")
            if boundary and meets(a, b) and kind in _DEGENERATE_RAISES:
                # a side without damping: the closed form refuses (0.0 ** negative); a counted refusal, not judged
                sh.count("boundary_route_degenerate")
                sh.cls(f"boundary-degenerate:{fam}:{route}:n={n}:{kind}")
                degenerate.add(route)
                continue
            if boundary and meets(a, b) and kind == "ok" and math.isnan(v):
                # ... but a silent NaN where the integral is finite violates the statement (exp1(0) - exp1(0), 0 * inf)
                sh.cls(f"boundary-nan:{fam}:{route}:n={n}")
                sh.violation(f"C09:value:cgmy:{route}:nan-on-an-undamped-side:{und}:{fam[5:]}:"
                             f"{'unbounded' if (math.isinf(a) or math.isinf(b)) else 'bounded'}{vsfx}",
                             f"{label}: {route}({a}, {b}{', n=%d' % n if route.endswith('xn') else ''}) = nan but the integral of "
                             f"x^{n} nu(x) over [{a}, {b}] is {r!r} (+-{err:.1e}); no exponential damping on a side ({und})",
                             {"a": a, "b": b, "n": n, "route": route, "reference": r, "reference_error": err})
                continue
            if kind != "ok":
                sh.violation(f"C09:value:{fam}:{route}:{kind}:n={n}:{cls}{sfx}",
                             f"{label}: {route}({a}, {b}{', n=%d' % n if route.endswith('xn') else ''}) {kind}; "
                             f"integral of x^{n} nu(x) by quadrature = {r!r}",
                             {"a": a, "b": b, "n": n, "route": route, "reference": r, "reference_error": err})
                continue
            vals[(i, j)] = (v, used_quad)
            tol = _tol(abs(r), scale, used_quad)
            if not math.isfinite(r) or err > tol:
                sh.count("oracle_inconclusive")
                sh.cls(f"oracle-inconclusive:{fam}:n={n}:{cls}")
                continue
            compared += 1
            if not (abs(v - r) <= tol + err):  # nan fails
                fc = _failure_class(v, r, tol + err)
                sh.violation(f"C09:value:{fam}:{route}:{fc}:n={n}:{cls}{sfx}",
                             f"{label}: {route}({a}, {b}{', n=%d' % n if route.endswith('xn') else ''}) = {v!r} but the "
                             f"integral of x^{n} nu(x) over [{a}, {b}] is {r!r} (+-{err:.1e}); tolerance {tol:.1e}",
                             {"a": a, "b": b, "n": n, "route": route, "library": v, "reference": r, "reference_error": err,
                              "tolerance": tol, "used_quad": used_quad})
            # sign rules (statement: non-negative for even n, sign of the half-line for odd n)
            slack = (ATOL_QUAD if used_quad else ATOL_CLOSED_REL * scale)
            if math.isfinite(v):
                if n % 2 == 0 and v < -slack:
                    sh.violation(f"C09:sign:{fam}:{route}:negative-for-even-n:n={n}:{cls}{sfx}",
                                 f"{label}: {route}({a}, {b}) = {v!r} < 0 for even n={n}", {"a": a, "b": b, "library": v})
                elif n % 2 == 1 and b <= 0 and v > slack:
                    sh.violation(f"C09:sign:{fam}:{route}:positive-on-negative-half-line:n={n}:{cls}{sfx}",
                                 f"{label}: {route}({a}, {b}) = {v!r} > 0 for odd n={n} on the negative half-line",
                                 {"a": a, "b": b, "library": v})
                elif n % 2 == 1 and a >= 0 and v < -slack:
                    sh.violation(f"C09:sign:{fam}:{route}:negative-on-positive-half-line:n={n}:{cls}{sfx}",
                                 f"{label}: {route}({a}, {b}) = {v!r} < 0 for odd n={n} on the positive half-line",
                                 {"a": a, "b": b, "library": v})
                sh.count("sign_checks")
        libvals[route] = vals
        if fmode:
            _argforms(sh, model, nu, route, n, vals, E, PAIRS, fmode, scale, f"{fam}:{route}", label, lambda a, b: suffix(a, b))
            # ---- exact ties: the degenerate interval [e, e] carries no mass -------------------------------------------------
            # [0, 0] in EVERY model and for every n, whatever the activity: an empty interval carries no mass (it is what a
            # one-sided truncation (0, r) / (l, 0) turns every query of the other side into), in every way of writing it
            # (the second end point is an equal number that is another object: `a is b` is not `a == b`)
            for e, ea, eb, zform in [(e, e, float(repr(e)), "") for e in E if math.isfinite(e)] + _zero_ties(route):
                at0 = e == 0.0
                kind, v, used_quad = _call(model, nu, route, ea, eb, n, form=zform or None)
                e2 = e
                sh.count("evaluations")
                if at0:
                    sh.cls(f"tie-at-origin:{fam}:{route}:{'integrable' if (fin[-1] and fin[+1]) else 'not-integrable-at-0'}")
                    sh.cls(f"tie-at-origin:form={zform or 'float'}")
                if boundary and meets(e, e) and kind in _DEGENERATE_RAISES:
                    sh.count("boundary_route_degenerate")
                    continue
                if boundary and meets(e, e) and kind == "ok" and math.isnan(v) and not (at0 and not (fin[-1] and fin[+1])):
                    # (at the origin of a measure that is not integrable there the NaN has nothing to do with the missing
                    # damping: the ordinary key below, the same as for the damped measures)
                    sh.violation(f"C09:value:cgmy:{route}:nan-on-an-undamped-side:{und}:{fam[5:]}:bounded{vsfx}",
                                 f"{label}: {route}({e}, {e}) = nan; the integral over a point is 0; no exponential damping on a "
                                 f"side ({und})", {"a": e, "b": e, "n": n, "route": route})
                    continue
                if kind != "ok" or not (abs(v) <= _tol(0.0, scale, used_quad)):
                    fc = kind if kind != "ok" else _failure_class(v, 0.0, 0.0)
                    sh.violation(f"C09:value:{fam}:{route}:degenerate-interval:{fc}:n={n}:{'at0' if at0 else 'away-from-0'}{vsfx}",
                                 f"{label}: {route}({ea!r}, {eb!r}) {'= %r' % v if kind == 'ok' else kind}"
                                 f"{' (end points as %s)' % zform if zform else ''}; the integral over a point is 0",
                                 {"a": float(e), "b": float(e2), "n": n, "route": route, "library": v, "form": zform or "float"})

        # ---- additivity on all triples (library values only) -----------------------------------------------------------
        for i, j, k in itertools.combinations(range(len(E)), 3):
            if (i, k) not in vals or (i, j) not in vals or (j, k) not in vals:
                continue
            (v1, q1), (v2, q2), (v3, q3) = vals[(i, j)], vals[(j, k)], vals[(i, k)]
            if not (math.isfinite(v1) and math.isfinite(v2) and math.isfinite(v3)):
                continue  # reported by the value check
            tol = _tol(abs(v1), scale, q1) + _tol(abs(v2), scale, q2) + _tol(abs(v3), scale, q3)
            sh.count("additivity_checks")
            if abs(v1 + v2 - v3) > tol:
                a, b, c = E[i], E[j], E[k]
                split = "at0" if b == 0 else ("neg" if b < 0 else "pos")
                sh.violation(f"C09:additivity:{fam}:{route}:n={n}:{ivclass(a, c)}:split-{split}{suffix(a, c)}",
                             f"{label}: {route} over [{a},{b}] + [{b},{c}] = {v1!r} + {v2!r} = {v1 + v2!r} but over "
                             f"[{a},{c}] it is {v3!r} (n={n})",
                             {"a": a, "b": b, "c": c, "n": n, "route": route, "values": [v1, v2, v3], "tolerance": tol})
        sh.outcome((label, n, route, [round(v, 12) if math.isfinite(v) else repr(v) for v, _ in list(vals.values())[:6]]))

    if degenerate:
        sh.note(f"{label}: n={n}: route(s) {sorted(degenerate)} raise ZeroDivisionError / OverflowError on intervals of the undamped "
                f"side ({und}): counted as boundary_route_degenerate (a refusal), not judged")
    if compared:
        sh.nontriv()
    if n in (1, 3) and spec["family"] in ("vg", "hem") and not spec["params"]:
        ex = []
        for route, vals in libvals.items():
            for (a_, b_) in ((-1.0, -0.3), (1e-3, 1.0), (-1.0, 1.0)):
                i, j = E.index(a_), E.index(b_)
                if (i, j) in vals and in_scope(i, j):
                    ex.append({"route": route, "a": E[i], "b": E[j], "library": vals[(i, j)][0], "quadrature": ref(i, j)[0]})
        sh.sample({"sub": "model", "model": label, "n": n, "examples": ex})

    # ---- truncated measures ----------------------------------------------------------------------------------------------
    def tup(T):
        return tuple(float(core.unjson_float(x)) for x in T)

    tmenu = case.get("trunc_menu")
    if tmenu is None:  # case files written before the menu existed
        tmenu = [{"Ts": [T], "mode": "inplace"} for T in case.get("truncs", [])]
    base_cache = {}
    for pos, item in enumerate(tmenu):
        _truncated(sh, spec, model, base_cache, fam, label, n, [tup(T) for T in item["Ts"]], item["mode"], fin, scale, E, PAIRS,
                   fin_tail=fin_tail, tform=item.get("tform"), fmode=fmode if (pos == 0 or item.get("tform")) else None)


def _argforms(sh, model, nu, route, n, vals, E, PAIRS, fmode, scale, who, label, suffix, ksfx=""):
    """ARGUMENT FORM: the same interval handed over in every other legal form of its end points (Python / numpy ints, int and
    float mixed, numpy floats, 0-d arrays, by keyword, 0.0 written -0.0; lists / tuples / integer arrays for the array form
    of `mass`) must give the value of the usual form (Python floats), `vals[(i, j)] = (value, used_quad)` of the sweep.
    A form that raises where the usual form returned is a failure to return the integral."""
    for form in _forms_of(route):
        for (i, j) in _form_pairs(E, PAIRS, form, fmode):
            if (i, j) not in vals:
                continue  # out of scope, or the usual form itself failed (reported by the sweep)
            a, b = E[i], E[j]
            conv = _convert(form, a, b)
            if conv is None:
                continue
            v0, q0 = vals[(i, j)]
            kind, v, q1 = _call(model, nu, route, conv[0], conv[1], n, form=form)
            sh.count("evaluations")
            sh.count("argument_form_comparisons")
            sh.cls(f"argform:{form}")
            key = f"C09:argform:{who}:%s:form={form}:n={n}:{ivclass(a, b)}{ksfx}{suffix(a, b)}"
            if form in ("list", "int-array", "0d", "0d-int"):  # the callee must leave the caller's containers as they were
                again = _convert(form, a, b)
                sh.count("argument_unmodified_checks")
                if not all(type(x) is type(y) and _same_items(x, y) for x, y in zip(conv, again)):
                    sh.violation(key % "argument-modified", f"{label}: {route} over [{a}, {b}]: the arguments handed over as {form} "
                                 f"are {conv!r} after the call", {"a": a, "b": b, "n": n, "route": route, "form": form})
            if kind != "ok":
                sh.violation(key % kind, f"{label}: {route} over [{a}, {b}] with the end points as {form} {kind}; as Python floats "
                             f"it returns {v0!r}", {"a": a, "b": b, "n": n, "route": route, "form": form, "usual": v0})
                continue
            if v == v0 or (math.isnan(v0) and math.isnan(v)):
                continue  # also equal infinities (out-of-scope values of the library compared with themselves)
            tol = _tol(abs(v0), scale, q0 or q1)
            if not (abs(v - v0) <= tol):
                sh.violation(key % _failure_class(v, v0, tol),
                             f"{label}: {route} over [{a}, {b}] with the end points as {form} = {v!r} but as Python floats = {v0!r} "
                             f"(n={n}; tolerance {tol:.1e})",
                             {"a": a, "b": b, "n": n, "route": route, "form": form, "library": v, "usual": v0, "tolerance": tol})


def _relation(a, b, l, r):
    if b <= l:
        return "disjoint-left"
    if a >= r:
        return "disjoint-right"
    cl, cr = a < l, b > r
    return "clipped-both" if (cl and cr) else ("clipped-left" if cl else ("clipped-right" if cr else "inside"))


def _trunc_arg(T, tform):
    """the truncation interval T = (l, r) in the argument form `tform` (None = tuple of Python floats)"""
    import numpy as np

    l, r = T
    if tform is None:
        return (l, r)
    if tform == "int":
        return (int(l), int(r))
    if tform == "npint":
        return (np.int64(l), np.int64(r))
    if tform == "npfloat":
        return (np.float64(l), np.float64(r))
    if tform == "list":
        return [l, r]
    if tform == "array":
        return np.array([l, r])
    if tform == "int-array":
        return np.array([int(l), int(r)])
    raise ValueError(tform)


def _truncated(sh, spec, base_model, base_cache, fam, label, n, Ts, mode, fin, scale, E, PAIRS, fin_tail=None, tform=None, fmode=None):
    """Ts: the truncations applied in this order through LevyModel.truncate_levy_measure (one = the plain truncated
    measure; several = a truncated measure of a truncated measure, whose truncation interval is the intersection).
    base_model: the model judged by the value sweep (already used on every interval; never truncated itself).
    mode: "inplace" = a model built anew through the same construction history is truncated; "deepcopy" = the used
    base_model is deep-copied and the copy truncated (what MarkovChainProcess does)."""
    l, r = max(t[0] for t in Ts), min(t[1] for t in Ts)
    empty = not (l < r)
    base = base_model.levy_triplet.nu
    fin_tail = fin_tail or {-1: True, +1: True}
    boundary = bool(spec.get("boundary"))
    tm = copy.deepcopy(base_model) if mode == "deepcopy" else _build(sh, spec, n)
    handed = [_trunc_arg(t, tform) for t in Ts]  # what the caller hands over ...
    kept = [copy.deepcopy(h) for h in handed]  # ... and a copy taken before
    for h in handed:
        if tform == "npfloat":  # the library's own call: keyword, tuple of numpy floats
            tm.truncate_levy_measure(truncations=h)
        else:
            tm.truncate_levy_measure(h)
    if mode == "deepcopy":  # the whole sequence of MarkovChainProcess.__init__: copy, truncate, change the representation
        try:
            from rpylib.model.levymodel.levymodel import LevyRepresentation

            tm.levy_triplet.set_representation(LevyRepresentation.TILDE)
            sh.count("history_set_representation")
        except Exception as e:  # the drift is another property's business
            sh.count("history_set_representation_raises")
            sh.note(f"{label}: set_representation(TILDE) after truncation {Ts} raises {type(e).__name__}")
    tnu = tm.levy_triplet.nu
    tname = "T=" + "&".join(f"({t[0]},{t[1]})" for t in Ts) + ("" if mode == "inplace" else "[copy-then-truncate]")
    tcls = ("nested" if len(Ts) > 1 else "single") + ("" if mode == "inplace" else ":copy-then-truncate")
    ksfx = ((":nested" if len(Ts) > 1 else "") + ("" if mode == "inplace" else ":copy-then-truncate")
            + (f":tform={tform}" if tform else "") + _via_sfx(spec))
    if tform:
        tname += f"[as {tform}]"
        sh.cls(f"truncation-form:{tform}")
    sh.cls(f"truncation:{tcls}:{'empty' if empty else 'nonempty'}")
    ends = sorted({x for t in Ts for x in t if math.isfinite(x)})

    # density: zero outside, the base density inside (probe points: the finite end points and points next to l and r)
    if n == 0:
        cand = {x for x in E if math.isfinite(x)}
        for x in ends:
            cand |= {x - 1e-9, x - 0.25, x + 1e-9, x + 0.25, math.nextafter(x, -INF), math.nextafter(x, INF)}
        if not empty and math.isfinite(l) and math.isfinite(r):
            cand.add(0.5 * (l + r))
        probes = sorted(x for x in cand if math.isfinite(x))
        for x in probes:
            if x in ends:
                continue  # the boundary itself is not "outside"; the statement is silent on a single point
            try:
                tv = float(tnu(x))
            except Exception as e:
                sh.violation(f"C09:truncated-density:{fam}:raises-{type(e).__name__}{ksfx}", f"{label} {tname}: density({x}) raises {e!r}", {"x": x})
                continue
            sh.count("evaluations")
            if x < l or x > r:
                if tv != 0.0:
                    sh.violation(f"C09:truncated-density:{fam}:nonzero-outside-truncation{ksfx}",
                                 f"{label} {tname}: truncated density at x={x!r} is {tv!r}, expected 0", {"x": x, "value": tv})
            else:
                bv = float(base(x))
                if not core.close(tv, bv, rtol=1e-15):
                    sh.violation(f"C09:truncated-density:{fam}:differs-from-base-inside-truncation{ksfx}",
                                 f"{label} {tname}: truncated density at x={x!r} is {tv!r}, base density {bv!r}", {"x": x})
        sh.outcome((label, tname, "density", [round(float(tnu(x)), 9) for x in (-0.3, 0.3)]))

    def finite_on(aa, bb):
        if (aa == -INF and not fin_tail[-1]) or (bb == INF and not fin_tail[+1]):
            return False
        if aa < 0 < bb:
            return fin[-1] and fin[+1]
        if bb == 0:
            return fin[-1]
        if aa == 0:
            return fin[+1]
        return True

    for route in _routes(n):
        obs = []
        tvals = {}
        for (i, j) in PAIRS:
            a, b = E[i], E[j]
            aa, bb = max(a, l), min(b, r)
            rel = "empty-truncation" if empty else _relation(a, b, l, r)
            if aa < bb and not finite_on(aa, bb):
                sh.count("truncated_pairs_out_of_scope")
                continue
            sh.cls(f"truncated:{rel}")
            kind, v, q1 = _call(tm, tnu, route, a, b, n)
            sh.count("evaluations")
            if aa >= bb:
                # empty intersection: 0 whatever the activity of the measure, also when the query is clamped to the point
                # interval AT the origin of an infinite-activity measure (a one-sided truncation (0, r) / (l, 0) queried on
                # the other side: the jump intensity mass(-inf, -h/2) + mass(h/2, inf) of a chain with positive jumps only)
                exp_kind, expected, q2 = "ok", 0.0, False
                pts = [l if b <= l else r] if len(Ts) == 1 else ends
                if any(p == 0.0 for p in pts):
                    sh.cls(f"truncated:empty-intersection-clamped-to-the-origin:{'integrable' if (fin[-1] and fin[+1]) else 'not-integrable-at-0'}")
                if kind != "ok":
                    # does the base route raise on the degenerate interval the clipping maps to? then it is the base
                    # formula's failure (reported by `value`, ties), not the clipping's
                    if any(_call(base_model, base, route, p, float(repr(p)), n)[0] == kind for p in pts):
                        sh.count("truncated_base_route_raises_too")
                        continue
                elif not math.isfinite(v) and any(p == 0.0 for p in pts):
                    # NaN / inf: the same if the base route answers [0, 0] like this (judged by `ties` on the base measure,
                    # one key per family and route instead of one per truncation and relation)
                    bk, bv, _ = _call(base_model, base, route, 0.0, float("0.0"), n)
                    if bk == "ok" and repr(bv) == repr(v):
                        sh.count("truncated_base_route_not_finite_at_origin_too")
                        continue
            else:
                if (route, aa, bb) not in base_cache:  # one base evaluation per route and intersection in a case
                    base_cache[(route, aa, bb)] = _call(base_model, base, route, aa, bb, n)
                exp_kind, expected, q2 = base_cache[(route, aa, bb)]
            key = f"C09:truncated:{fam}:{route}:%s:n={n}:{rel}{ksfx}"
            what = f"{label} {tname}: {route}({a}, {b}) on the truncated measure"
            if boundary and any(k in _DEGENERATE_RAISES or (k == "ok" and x is not None and math.isnan(x))
                                for k, x in ((kind, v), (exp_kind, expected))):
                sh.count("boundary_route_degenerate")  # Python floats raise where numpy floats give NaN: same degenerate formula
                continue
            if kind != "ok":
                if exp_kind == kind:
                    sh.count("truncated_base_route_raises_too")  # the base formula's failure is reported by `value`
                    continue
                sh.violation(key % kind, f"{what} {kind}; the base measure over the intersection [{aa}, {bb}] gives {expected!r}",
                             {"a": a, "b": b, "T": Ts, "n": n, "route": route})
                continue
            if exp_kind != "ok":
                sh.violation(key % "returns-where-base-raises",
                             f"{what} = {v!r} but the base measure over the intersection [{aa}, {bb}] {exp_kind}",
                             {"a": a, "b": b, "T": Ts, "n": n, "route": route})
                continue
            obs.append(round(v, 12) if math.isfinite(v) else repr(v))
            if math.isnan(expected) and math.isnan(v):
                continue
            if boundary and (math.isnan(expected) or math.isnan(v)):
                sh.count("boundary_route_degenerate")
                continue
            tvals[(i, j)] = (v, q1)
            tol = _tol(abs(expected), scale, q1 or q2) * 2
            sh.count("truncated_comparisons")
            if not (abs(v - expected) <= tol):
                fc = "nonzero-on-empty-intersection" if aa >= bb else "differs-from-integral-over-intersection"
                sh.violation(key % fc,
                             f"{what} = {v!r}; intersection with the truncation is "
                             f"{'empty' if aa >= bb else '[%r, %r]' % (aa, bb)} where the base measure gives {expected!r}",
                             {"a": a, "b": b, "T": Ts, "n": n, "route": route, "truncated": v, "base_on_intersection": expected})
        if fmode:
            _argforms(sh, tm, tnu, route, n, tvals, E, PAIRS, fmode, scale, f"truncated:{fam}:{route}", f"{label} {tname}",
                      lambda a, b: "", ksfx=ksfx)
        sh.outcome((label, tname, n, route, obs[:8]))

    # the caller's truncation arguments are as they were handed over (the callee must not modify them)
    for h, k in zip(handed, kept):
        same = (type(h) is type(k)) and (list(h) == list(k))
        sh.count("argument_unmodified_checks")
        if not same:
            sh.violation(f"C09:truncated:{fam}:argument-modified{ksfx}",
                         f"{label} {tname}: the truncation argument handed to truncate_levy_measure was {k!r} and is {h!r} afterwards",
                         {"before": core.jsonable(list(k)), "after": core.jsonable(list(h))})


# ----------------------------------------------------------------------------------------------------------------------
# tools.integral.integral_xn_exp_minus_x
# ----------------------------------------------------------------------------------------------------------------------

def _ref_xn_exp(n, a, b, alpha):
    import mpmath as mp

    mp.mp.dps = 30
    al = mp.mpf(alpha)

    def half(lo, hi):  # int_lo^hi t^n exp(-alpha t) dt, 0 <= lo < hi <= inf
        lo_ = al * mp.mpf(lo)
        hi_ = mp.inf if hi == INF else al * mp.mpf(hi)
        return mp.gammainc(n + 1, lo_, hi_) / al ** (n + 1)

    tot = mp.mpf(0)
    if b > 0:
        tot += half(max(a, 0.0), b)
    if a < 0:
        tot += (-1) ** n * half(-min(b, 0.0), -a)
    return float(tot)


TOOLS_FORMS = ["int", "npint", "int-float", "float-int", "npfloat", "0d", "negzero", "positional", "int-alpha", "npint-n"]


def _tools_forms(sh, fun, n, alpha, E, PAIRS, vals, scale, ncls):
    """ARGUMENT FORM of the helper integral: the usual form is keywords with Python floats (what the VG measure does); end
    points as ints / numpy scalars / 0-d arrays, positional arguments, an integer-valued alpha as int, n as numpy int"""
    import numpy as np

    for form in TOOLS_FORMS:
        if form == "int-alpha" and not _is_intval(alpha):
            continue
        for (i, j) in PAIRS:
            if (i, j) not in vals:
                continue
            a, b = E[i], E[j]
            nn, al = n, alpha
            if form == "positional":
                args, kwargs = (n, a, b, alpha), {}
            else:
                if form == "int-alpha":
                    al = int(alpha)
                elif form == "npint-n":
                    nn = np.int64(n)
                else:
                    conv = _convert(form, a, b)
                    if conv is None:
                        continue
                    a, b = conv
                args, kwargs = (), {"n": nn, "a": a, "b": b, "alpha": al}
            v0 = vals[(i, j)]
            cls = ivclass(E[i], E[j])
            sh.count("evaluations")
            sh.count("argument_form_comparisons")
            sh.cls(f"tools:argform:{form}")
            key = f"C09:argform:tools:integral_xn_exp_minus_x:%s:form={form}:{ncls}:{cls}"
            try:
                v = float(fun(*args, **kwargs))
            except Exception as e:
                sh.violation(key % f"raises-{type(e).__name__}",
                             f"integral_xn_exp_minus_x(n={n}, a={E[i]}, b={E[j]}, alpha={alpha}) with the arguments as {form} raises "
                             f"{e!r}; usual form {v0!r}", {"form": form, "usual": v0})
                continue
            tol = RTOL_CLOSED * abs(v0) + ATOL_CLOSED_REL * scale
            if not (abs(v - v0) <= tol):
                sh.violation(key % _failure_class(v, v0, tol),
                             f"integral_xn_exp_minus_x(n={n}, a={E[i]}, b={E[j]}, alpha={alpha}) with the arguments as {form} = {v!r} "
                             f"but in the usual form = {v0!r}", {"form": form, "library": v, "usual": v0})


def _sub_tools(sh, case):
    from rpylib.tools.integral import integral_xn_exp_minus_x

    n, alpha = case["n"], case["alpha"]
    E = ENDS[case.get("ends", "std")]
    PAIRS = [(i, j) for i in range(len(E)) for j in range(i + 1, len(E))]
    scale = math.factorial(n) / alpha ** (n + 1)
    ncls = f"n={n}" if n < 2 else ("n>=2-even" if n % 2 == 0 else "n>=2-odd")
    interleaved = case.get("hist", "fresh") == "interleaved"
    hsfx = ":interleaved" if interleaved else ""
    sh.cls(f"tools:history:{case.get('hist', 'fresh')}")
    vals = {}
    for (i, j) in PAIRS:
        a, b = E[i], E[j]
        cls = ivclass(a, b)
        r = _ref_xn_exp(n, a, b, alpha)
        sh.count("evaluations")
        sh.cls(f"tools:{ncls}:{cls}")
        if interleaved:
            # the same interval with another alpha and another n in between (a result remembered under too coarse a key)
            for n2, al2 in ((n, 1.7 * alpha + 0.3), ((n + 1) % (NS[-1] + 1), alpha), (n, alpha), (n, 0.5 * alpha)):
                try:
                    integral_xn_exp_minus_x(n=n2, a=a, b=b, alpha=al2)
                except Exception:
                    pass  # not judged here
                sh.count("history_warm_calls")
        try:
            v = float(integral_xn_exp_minus_x(n=n, a=a, b=b, alpha=alpha))
        except Exception as e:
            sh.violation(f"C09:tools:integral_xn_exp_minus_x:raises-{type(e).__name__}:{ncls}:{cls}{hsfx}",
                         f"integral_xn_exp_minus_x(n={n}, a={a}, b={b}, alpha={alpha}) raises {e!r}; value {r!r}", {"reference": r})
            continue
        vals[(i, j)] = v
        tol = RTOL_CLOSED * abs(r) + ATOL_CLOSED_REL * scale
        if not (abs(v - r) <= tol):
            fc = _failure_class(v, r, tol)
            sh.violation(f"C09:tools:integral_xn_exp_minus_x:{fc}:{ncls}:{cls}{hsfx}",
                         f"integral_xn_exp_minus_x(n={n}, a={a}, b={b}, alpha={alpha}) = {v!r} but the integral of "
                         f"x^{n} exp(-{alpha}|x|) over [{a}, {b}] is {r!r}",
                         {"n": n, "a": a, "b": b, "alpha": alpha, "library": v, "reference": r})
    # exact ties: the degenerate interval [e, e] (two objects), e finite; 0.0 also written -0.0
    for ea, eb in [(e, float(repr(e))) for e in E if math.isfinite(e)] + [(float("-0.0"), float("-0.0")), (float("-0.0"), 0.0)]:
        sh.count("evaluations")
        try:
            v = float(integral_xn_exp_minus_x(n=n, a=ea, b=eb, alpha=alpha))
            fc = None if v == 0.0 else _failure_class(v, 0.0, 0.0)
        except Exception as e:
            v, fc = None, f"raises-{type(e).__name__}"
        if fc:
            sh.violation(f"C09:tools:integral_xn_exp_minus_x:degenerate-interval:{fc}:{ncls}:{'at0' if ea == 0 else 'away-from-0'}{hsfx}",
                         f"integral_xn_exp_minus_x(n={n}, a={ea!r}, b={eb!r}, alpha={alpha}) {'= %r' % v if v is not None else fc}; "
                         f"the integral over a point is 0", {"n": n, "a": ea, "b": eb, "alpha": alpha, "library": v})
    if case.get("forms"):
        _tools_forms(sh, integral_xn_exp_minus_x, n, alpha, E, PAIRS, vals, scale, ncls)
    sh.outcome(("tools", n, alpha, case.get("hist", "fresh"), [round(v, 12) for v in list(vals.values())[:6]]))
    sh.nontriv()
    if n == 2 and alpha == 0.7:
        sh.sample({"sub": "tools", "n": n, "alpha": alpha, "a": 0.0, "b": 1.0, "library": vals.get((E.index(0.0), E.index(1.0))),
                   "reference": _ref_xn_exp(n, 0.0, 1.0, alpha)})
