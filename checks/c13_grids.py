"""C13 - state grids are well formed and refinement nests them.

Mode: explicit-state search. A state is a grid (axes, h, origin_coordinate, truncations); the transitions are the real
`grid.refine()` (sub "grid") and, for the histories on a re-used model (sub "mhist"), the public operations that change a
model's Levy measure in place followed by another constructor call. Every case is a JSON-able spec; `core.bfs` explores the
history graph `[] -> [refine] -> [refine, refine] -> ...` up to the stated depth on FRESH objects (the constructor is called
again and the history replayed for every state), evaluating the state invariants in every reached state and the transition
invariants on every edge.

Alphabet (complete enumeration, nothing sampled)
  constructors   CTMCUniformGrid(h, model, p), CTMCUniformGrid.create_from_fixed_nb_of_points(h, n, dimension),
                 CTMCGridGeometric(h, model, n_side, p), CTMCGridGeometric.create_with_bounds(h, bounds, dimension, n_side),
                 CTMCGridProbabilityStep(h, model, p_min, dimension), CTMCCredit(h, a, model, symmetric) and the base
                 constructor CTMCGrid(h, origin, axes) with per-axis arrays of different lengths (per-axis storage)
  models         every 1-d model of mc.alphabets.model_specs(tier) (Levy and exponential), with its "reinit" twin
                 (mc.alphabets.with_reinit: same parameter values reached through a donor parameter object, attribute
                 re-assignment and initialisation(); quick: the first parameter set of every family x representation,
                 thorough: all); every copula model of mc.alphabets.copula_model_specs(tier) (dimension 2 and 3); SDE models
                 (HIST_WRAPPED: LevyDrivenSDEModel and the forward market model of model/utils.py, driven by a 1-d Levy model
                 and by a 2-d copula model) for the constructors that accept them (uniform, geometric): the constructor reads
                 the measure(s) of the driver;
                 HEAVY-TAILED models (HEAVY_MODELS: HEM eta2 = 0.1 / eta1 = 0.03, CGMY m = 0.05 / g = 0.05 with y = 0.5,
                 Merton sigma_j = 40, exponential HEM; quick: the first five), as a margin of a copula model (HEAVY_CMODELS,
                 dimension 2; thorough also 3) and as the driver of an SDE model (HEAVY_WRAPPED): more than 1e-5 of the
                 one-sided jump mass lies beyond +-100, so that the tail-mass equation at p = 0.99999 has no root inside the
                 library's search interval (input class `bound-beyond-100`, decided on the density), while at p = 0.9 the
                 root is ordinary; their probability-step axes run through the constructor's fall-back stepping
                 BALANCED models (`_balanced_cases`; input class `one-sided-masses:balanced:tails-differ`, decided on the
                 density): the two one-sided jump masses beyond +-h/2 agree - to the last bit, or to 1e-5 / 1e-8 relative -
                 while the tails differ, so that l != -r and each bound has to be the root of its own equation:
                 HEM p = 0.5 with eta 25 / 20, 10 / 40 at h = 1e-6, 2e-7, 1e-7, 1e-9 (geometric, credit, probability-step;
                 also exponential / reinit twins) and eta 20.05 / 20 at h = 2e-4 (uniform, 6e3 states); HEM with
                 p / (1-p) = exp((eta1 - eta2) h/2) at the ordinary h = 0.1 (eta 25 / 20 and 20 / 25) and 0.2 (eta 10 / 40)
                 for every model-based grid of the ordinary alphabet, as a margin of a copula model (BAL_CMODELS, also two
                 IDENTICAL margins: ties in the min / max over the margins' roots), as the driver of an SDE model
                 (BAL_WRAPPED) and reached / left through set-params in the histories; CGMY y = 1.5 at h = 1e-6 and y = 1.2
                 at h = 5e-7 (g = 15, m = 20: masses within 7e-6; p = 0.99999 only); nearly symmetric Merton mu_j = 2e-7 and
                 VG theta = 1e-7 (masses within 6e-6, bounds differ by 3e-7 / 1e-8: visible at p = 0.9 / 0.99).
                 Controls (`...:balanced:symmetric-measure`): Merton mu_j = 0, CGMY g = m of the ordinary alphabet
  arguments      mc.alphabets.grid_specs(tier, dimension) plus the extras listed in `_extra_model_grids` (credit thresholds as
                 pairs / triples, asymmetric 1-d credit, a geometric grid at a low truncation probability);
                 sizes: n = 2 (one state per side), 4 (even), 601 (beyond 256 and, refined, 2048 states; thorough: 8193 ->
                 beyond 32768), integral h and bounds; degenerate options: truncation probability 0 (root at h/2, bound
                 forced out to h) and 1 (no root / a root at the end of the search interval), minimum probability step 1
  small h / deep probability-step grids h = 1e-3 (4 refinements), 1e-5 (5 refinements: smallest gap 3e-7) for every family
                 (`_prob_deep`), h = 2e-6 in dimension 2, and 8 refinements at h = 0.05 (thorough: 10; h down to 2e-6 in
                 dimension 3, 6 refinements at h = 1e-5): the root searches have absolute tolerances while the gaps next to
                 the origin halve at every refinement
  depth          3 refinements (quick) / 5 (thorough; 4 for the probability-step grid whose middle() is a root search) unless
                 the grid spec carries its own depth: 10 (thorough 12) refinements of small grids with the arithmetic middle
                 (fixed, geometric-bounds, credit; raw: 8 / 10), the deep probability-step grids above

State invariants (every state, every axis)
  finite; strictly increasing; value 0.0 at origin_coordinate; left neighbour -h, right neighbour +h;
  truncations[k] == (axis[0], axis[-1]); the grid's own accessors read at its origin coordinate in every state of the history
  (grid[origin_coordinate], left_point, right_point, number_of_points(), dimension) agree with the axes;
  at depth 0: h is the requested step, one axis per dimension, end points == what the constructor promised:
    uniform / geometric / credit : the roots of the tail-mass equation at the requested probability, verified by QUADRATURE OF
         THE MODEL'S OWN DENSITY (mc.oracle.integrate_density), not by the library's closed forms:
         tail(b)/I == 1-p with I = nu((h/2, inf)) resp. nu((-inf, -h/2)); for a copula model the bound is the outermost of
         the margins' roots (every margin attains the probability, at least one exactly)
    fixed            : +-(n // 2) * h
    geometric-bounds : the requested bounds
    raw              : the end points of the arrays passed in
    credit           : additionally every threshold a (and -a on the symmetric grid) is the grid's own middle() of two
                       neighbouring states of the constructed grid (depth 0: after a refinement the threshold is a state)
    probability      : per-step promise: no gap [x_j, x_j+1] away from the origin carries more than p_min of the total jump
                       mass nu(|x| > h/2) (quadrature, slack 1e-6 + 4e-10 * density / total for the constructor's root
                       finder xtol = 1e-10); the gaps carrying exactly p_min are counted and written out in the evidence
Transition invariants (every edge old -> new, every axis)
  len(new) == 2 len(old) - 1; new[2i] == old[i] (exactly); old[i] < new[2i+1] < old[i+1]; new[2i+1] == the OLD grid's own
  middle(old[i], old[i+1]) evaluated on the old grid before the call; h halved; origin index doubled; truncations unchanged;
  axes that were equal (shared storage `[axis] * dimension`) stay equal, i.e. no axis is refined twice.
  probability-step grid, every edge, every gap away from the origin (`_split_invariants`): the inserted state is the point with
  EQUAL JUMP PROBABILITY on both sides inside the gap (what CTMCGridProbabilityStep.middle documents as the cell boundary),
  decided by quadrature of the model's own density without any root search of the library: G(x) = nu((a,x)) - nu((x,b))
  changes sign within tol = 1e-6 * (b - a) + 1e-9 of the inserted state (relative to the gap; the library's xtol is 1e-10,
  measured <= 2.5e-11 on the pinned tree for every family and h from 0.1 to 1e-5).
Several grids alive at once (sub-check "twin", every "grid" case): two grids built from the same arguments and the SAME model
  object, and a deep copy of the first: equal at construction; refine() of one leaves the other two untouched; the three
  refinements agree (no state shared through class attributes, interned coordinates or remembered arrays). Serialised copies
  (`_copies_invariants`: pickle and dill round trips, what a process pool does to a grid): equal at construction, refine to
  the same grid, refining them leaves the original untouched and vice versa.
Argument forms (sub-check "forms", every "grid" case, `_forms_invariants` / FORMS): the same constructor call with the arguments
  positionally, as numpy scalars (np.float64 / np.int64 / np.bool_, also inside sequences), bounds / thresholds as ndarray,
  list <-> tuple, flags as int returns EXACTLY the same grid and refines to the same grid; the caller's lists / arrays are not
  modified by the constructor or refine(); overwriting the caller's bounds / thresholds afterwards does not move the grid
  (also through a further refine()).
  Integral h (`_integral_h_cases`: h = 1.0 and 2.0 for EVERY constructor, on models with jumps of size one - Merton sigma_j = 1,
  HEM eta = 1.5 / 1, their 2-d copula model - and the model-free constructors / raw axes with integral states): the same call
  with every integral float (h, bounds) as a Python int and as a numpy int (forms `integral-floats-as-ints`,
  `integral-floats-as-numpy-ints`; np.float64 is the form `numpy-scalars`). A constructor may reject an integer (TypeError /
  ValueError from the constructor call: counted `integer_form_rejected_by_the_constructor`, class
  `argument-form:<form>:rejected-by:<constructor>`; uniform, geometric and credit do so on the pinned tree); a grid that IS
  returned must satisfy the state invariants (keys `C13:forms-state:...:<form>`: strictly increasing, 0 at the origin index,
  -h / +h next to it - an integer-dtype half axis truncates the inserted states) and be exactly the grid of the float form,
  also after refine().
Observations (recorded, never asserted): the coordinate object captured before refine() is mutated in place (aliasing);
  create_from_fixed_nb_of_points(n even) returns n+1 points.

Histories on ONE model object (sub "mhist"; violation keys `C13:history-<sub-check>:...:after-<mutation>`)
  A constructor promises its tail probability for the measure the model has AT THE TIME OF THE CALL. A case is (model, h, p,
  first constructor); the words `(new, first) (mutation, constructor) ...` of length `depth` (quick 2, and 3 for one CGMY
  model; thorough 3) over the full product mutation x constructor are enumerated completely, each on one model object.
    constructors  1-d: uniform, geometric(n_side 3), credit, probability(p_min 0.2); copula: uniform, geometric,
                  credit symmetric / asymmetric; SDE-wrapped models: uniform, geometric. All with the same (h, p) (credit:
                  compute_truncation's default p); credit thresholds -1.25h, -1.5h, -1.75h (skipped, counted, when the
                  density says they are not inside (l, -h))
    mutations     again (nothing changed) | refine-previous (the grid built before is refined) | other-h (the same model
                  is used for a grid of step h/2 in between, itself checked) | set-params (another parameter set of the
                  family assigned attribute by attribute on the model's own parameter object + initialisation(); copula:
                  first / last margin) | truncate (model.truncate_levy_measure with (0.6 l, 0.7 r) of the previous grid's
                  reported bounds; copula: all margins through the copula model, or the last margin alone) | other-object
                  (a SECOND model object of the same class with the donor parameters is used with the same constructor,
                  h, p in between, itself checked) | deepcopy-set-params / deepcopy-truncate (the history goes on with a
                  copy.deepcopy of the model, as the chain constructors do, then mutated)
    models        HIST_MODELS (HEM, Merton, VG, CGMY y = -0.5, 0.5, 1.2, exponential HEM and CGMY; a heavy-tailed HEM that
                  set-params makes ordinary, and an ordinary HEM that set-params makes heavy-tailed: the refusal / fall-back
                  paths reached through a history), HIST_CMODELS (2-d and 3-d copula models), HIST_WRAPPED;
                  (h, p) = (0.1, 0.99999); (0.05, 0.999) for CGMY 0.5 (quick) / all (thorough)
    oracle        every grid of the word is judged like a grid of a new model: state invariants and promises, the tail and
                  per-step masses by quadrature of the model's CURRENT density (split at the cuts applied); and it is
                  compared (rtol 1e-9) with the grid the same constructor returns for a NEW model object built directly in
                  the same state (sub-check "fresh": parameters passed to the model constructor, same cuts applied).
Outside the alphabet (statement silent): credit thresholds that are not strictly between the left truncation and -h (the
  constructor's formula needs l < a < -h; such specs are counted as `skipped_credit_threshold_outside_(l,-h)`), constructor
  argument validation (covered by the repository's test_grid), nb_of_points_on_each_side < 2, n < 2, more than 1e8 points,
  bounds for create_with_bounds within h of the origin, grids whose axes are passed in malformed to the base constructor,
  CTMCCredit / CTMCGridProbabilityStep for SDE models (not declared), a probability-step grid whose model is changed AFTER
  the construction (its middle() keeps a reference to the measure; the statement ties refine() to the grid's own middle()),
  changes of a model through private attributes; uniform grids of more than ~1e4 states from a small h (refine() of the pinned
  tree is quadratic in the number of states: 3e5 states take minutes; the small-h classes use the geometric / credit /
  probability-step constructors, which call the same truncation search); truncation probability 0.9 for infinite-activity
  models at h <= 1e-6 (the bound lies within 3h of the origin where the 2e-12 of the library's root search is worth 1e-8 of
  the tail share: above TOL_TAIL); probability-step gaps narrower than 3e-7 (the pinned tree's own root search
  stops at 1e-10: some 30 refinements of h = 0.1, beyond any enumerable depth);
  argument forms the pinned tree rejects (integer-dtype or float32 axes, a tuple of axes, a scalar threshold for a copula
  model, a float number of points: TypeError / ValueError; an integer h is IN the alphabet: counted where rejected), a
  0-d array as h (refine() halves the caller's array in place: `self.h /= 2`), copy.copy of a grid (shares the list of axes
  with the original by definition), arrays handed to the base constructor CTMCGrid modified afterwards (the grid IS those
  arrays; only that the constructor and refine() leave the caller's array objects unchanged is asserted).
Refusal: a ValueError (the library's argument-validation exception) raised by a constructor is accepted as "no grid returned"
  only for the input classes in which no well-formed grid with the promised end points can be returned (a tail-mass root
  within h of the origin; a symmetric credit grid whose mirror point -a+eps lies beyond the right root; `bound-beyond-100`:
  a root beyond the search interval of the library's root finder) and is counted
  (`constructor_refuses_arguments_without_well_formed_grid`); any other exception, or a ValueError in any other input
  class, is a violation. A grid that IS returned in these classes is judged like any other: it must keep the promised
  probability (a bound of +-100 handed out instead of the root leaves more than 1-p outside).
Time axis: rpylib/grid/time.py has no origin, h, truncation or refine(); only the clauses of the statement that have a
  meaning for it are evaluated (sub "time": strictly increasing, finite, len == num, end points == the start/end it reports,
  reported num and step agree with the axis) for start < end and num >= 2, with a second object of the same class built
  with other arguments and read in between, and the same arguments as numpy scalars / keywords / Python ints (same axis).
"""
from __future__ import annotations

import math

import numpy as np

from mc import alphabets as A
from mc import core
from mc import oracle as O

PID = "C13"
LEVEL = "model_checking"
RULE = (
    "every (constructor, argument tuple, model) of the stated menus is built by the real constructor and its refine() history "
    "graph is searched breadth-first to the stated depth on fresh objects; every word (mutation of the model's measure, "
    "constructor) of the stated length is run on one re-used model object and every grid of it is judged against the "
    "model's current density; a case is non-trivial when at least one state invariant bundle and one refine() edge (history "
    "cases: one complete word) were evaluated on it (time-axis cases: the axis was compared with the reference); "
    "distinct = distinct case dict"
)
ASSUMPTIONS = [
    "tail-mass and per-step promises are verified by scipy/mpmath quadrature of the model's own density; a comparison is made "
    "only when the quadrature error estimate is below the tolerance, otherwise it is counted as oracle_inconclusive",
    "the expected inserted point is the old grid's own middle() called on the old grid before refine(): the statement ties "
    "the new state to 'the point the grid itself uses as cell boundary', not to the arithmetic mean",
    "states are merged when (axes, h, origin_coordinate, truncations) agree: refine() reads nothing else (the probability "
    "grid's middle also reads levy_measure / intensity_of_jumps, which no method writes)",
    "the cell boundary of a probability-step grid is the point of its gap with equal jump probability on both sides (docstring "
    "of CTMCGridProbabilityStep.middle); it is located on the model's own density to 1e-6 of the gap + 1e-9, ten times the "
    "tolerance of the library's root search, and imbalances below 1e-13 of the total jump mass are taken as rounding",
    "a constructor that raises ValueError for a model whose tail-mass root lies beyond +-100 (decided on the density) returns "
    "no grid and promises nothing; a grid it does return must keep the requested probability",
    "a model whose parameters were re-assigned (followed by initialisation()) or whose measure was truncated through the public "
    "truncate_levy_measure is a model of the quantifier; the grid promised for it is the one for its measure at the time of "
    "the constructor call (the density the model itself reports then)",
]
CHUNK = 2

TOL_TAIL = 1e-9     # on tail(b)/I - (1-p); the constructor's brentq has xtol 2e-12
SLACK_STEP = 1e-6   # on the per-step share (DESIGN): the constructor's brentq has xtol 1e-10
FAR = 100.0         # input class "root of the tail-mass equation beyond +-100" (decided on the density): refusal accepted
# equal-probability point of a gap of the probability-step grid: allowed distance = SPLIT_REL * gap + SPLIT_ABS (the
# library's root search has xtol 1e-10; measured on the pinned tree: <= 2.5e-11 for every family, h from 0.1 to 1e-5)
SPLIT_REL = 1e-6
SPLIT_ABS = 1e-9
SPLIT_NOISE = 1e-13  # of the total jump mass: imbalances below it are rounding of the library's mass function (far tails)


# ----------------------------------------------------------------------------------------------------------------------
# alphabet
# ----------------------------------------------------------------------------------------------------------------------

RAW_AXES = {
    # per-axis storage with different right lengths (CTMCGrid takes ONE origin index: left sizes agree)
    "raw1": [[-0.5, -0.1, 0.0, 0.1, 0.3, 0.9]],
    "raw2": [[-0.5, -0.1, 0.0, 0.1, 0.3, 0.9], [-0.4, -0.1, 0.0, 0.1]],
    "raw3": [[-0.5, -0.1, 0.0, 0.1], [-0.7, -0.1, 0.0, 0.1, 0.25], [-0.2, -0.1, 0.0, 0.1, 0.2, 0.4]],
    "raw2-equal-copies": [[-0.3, -0.1, 0.0, 0.1, 0.5], [-0.3, -0.1, 0.0, 0.1, 0.5]],
    # integral states (float arrays) for an integral h
    "raw1-integral": [[-5.0, -1.0, 0.0, 1.0, 3.0, 9.0]],
    "raw2-integral": [[-6.0, -2.0, 0.0, 2.0, 8.0], [-4.0, -2.0, 0.0, 2.0]],
}


def _extra_model_grids(tier, dimension):
    thorough = tier == "thorough"
    out = []
    if dimension == 1:
        out.append({"kind": "credit", "h": 0.1, "a_frac": 0.5, "symmetric": False})
        out.append({"kind": "credit", "h": 0.05, "a_frac": 0.3, "symmetric": True})
        out.append({"kind": "probability", "h": 0.1, "pmin": 0.2, "dim": 2})
        if thorough:
            out.append({"kind": "probability", "h": 0.05, "pmin": 0.1})
            out.append({"kind": "credit", "h": 0.1, "a_frac": 0.9, "symmetric": True})
    else:
        fr = [0.5, 0.3] if dimension == 2 else [0.5, 0.3, 0.7]
        out.append({"kind": "credit", "h": 0.05, "a_frac": fr, "symmetric": True})
        out.append({"kind": "credit", "h": 0.05, "a_frac": fr, "symmetric": False})
        # thresholds whose mirror point -a+eps may lie beyond the right truncation (margins with r < |l|)
        for f in (0.6, 0.9):
            out.append({"kind": "credit", "h": 0.1, "a_frac": f, "symmetric": True})
        out.append({"kind": "credit", "h": 0.1, "a_frac": 0.9, "symmetric": False})
    out.append({"kind": "geometric", "h": 0.05, "n_side": 2, "p": 0.99})
    out.append({"kind": "geometric", "h": 0.2, "n_side": 3, "p": 0.9})
    return out


# heavy-tailed models: so much of the one-sided jump mass lies beyond +-100 that the tail-mass equation at 0.99999 has no
# root inside +-100 on one side (HEM eta2 = 0.1: 4.7e-5 of the left jumps beyond -100; CGMY m = 0.05, y = 0.5: 3.3e-5 of the
# right jumps; Merton sigma_j = 40: 1.2e-2 on both sides). At probability 0.9 the roots are ordinary (-23.3 / 4.9 / +-65.9).
HEAVY_HEM = {"sigma": 0.05, "p": 0.6, "eta1": 20.0, "eta2": 0.1, "intensity": 3.0}
HEAVY_MODELS = [
    {"family": "hem", "exp": False, "params": HEAVY_HEM},
    {"family": "cgmy", "exp": False, "params": {"c": 1.0, "g": 15.0, "m": 0.05, "y": 0.5}},
    {"family": "hem", "exp": True, "params": HEAVY_HEM, "r": 0.02, "d": 0.0, "spot": 100.0},
    {"family": "merton", "exp": False, "params": {"sigma": 0.0, "sigma_j": 40.0, "mu_j": 0.0, "intensity": 3.0}},
    {"family": "hem", "exp": False, "params": {"sigma": 0.05, "p": 0.6, "eta1": 0.03, "eta2": 25.0, "intensity": 3.0}},
    {"family": "cgmy", "exp": False, "params": {"c": 1.0, "g": 0.05, "m": 20.0, "y": 0.5}},
]
MARGINS = dict(A.MARGINS)
MARGINS["hemheavy"] = HEAVY_MODELS[0]
MARGINS["cgmyheavy"] = HEAVY_MODELS[1]
HEAVY_CMODELS = [
    {"margins": ["hem", "hemheavy"], "copula": {"kind": "clayton", "theta": 0.7, "eta": 0.3}},
    {"margins": ["cgmyheavy", "vg"], "copula": {"kind": "independent"}},
    {"margins": ["hem", "vg", "hemheavy"], "copula": {"kind": "dependent"}},
]
HEAVY_WRAPPED = [
    {"wrap": "sde", "model": HEAVY_MODELS[0]},
    {"wrap": "forward", "cmodel": HEAVY_CMODELS[0]},
    {"wrap": "forward", "model": HEAVY_MODELS[1]},
]

# models with jumps of size one, for grids with an INTEGRAL step h (1, 2): the same call is repeated with h (and every other
# integral float) as a Python int and as a numpy int (forms "integral-floats-as-ints" / "-as-numpy-ints")
UNIT_MODELS = [
    {"family": "merton", "exp": False, "params": {"sigma": 0.0, "sigma_j": 1.0, "mu_j": 0.0, "intensity": 3.0}},
    {"family": "hem", "exp": False, "params": {"sigma": 0.05, "p": 0.6, "eta1": 1.5, "eta2": 1.0, "intensity": 3.0}},  # eta1 > 1 required
]
MARGINS["merton1"] = UNIT_MODELS[0]
MARGINS["hem1"] = UNIT_MODELS[1]
UNIT_CMODEL = {"margins": ["merton1", "hem1"], "copula": {"kind": "clayton", "theta": 0.7, "eta": 0.3}}


# BALANCED models: the two one-sided jump masses beyond +-h/2 agree (exactly, or to 1e-5 / 1e-8 relative) although the two
# tails differ, so that the two truncation bounds differ: each bound has to be the root of ITS OWN tail-mass equation, none
# is the mirror image of the other, and no quantity computed for one side may be re-used for the other.
#   HEM p = 0.5, eta1 != eta2 at a small h: masses lambda/2 exp(-eta h/2) agree to |eta1 - eta2| h/2 (h = 1e-6: 2.5e-6 resp.
#       1.5e-5 relative, h = 1e-9: 2.5e-9), bounds -(h/2 + ln(1/(1-p))/eta2) and h/2 + ln(1/(1-p))/eta1;
#   HEM with p / (1-p) = exp((eta1 - eta2) h/2): masses equal to the last bit at an ORDINARY h (0.1, 0.2);
#   CGMY y > 1, g != m at a small h: both masses ~ c (h/2)^-y / y, relative difference ~ (m-g) h/2 y/(y-1) (7e-6);
#   Merton mu_j = 2e-7, VG theta = 1e-7: nearly symmetric measures (masses within 6e-6 / 2e-6 at h = 0.1, 0.2), whose bounds
#       differ by ~ 3e-7 / 1e-8: visible in the tail share at truncation probability 0.9 (4e-7 / 7e-8), not at 0.99999;
#   controls: the truly symmetric measures of the ordinary alphabet (Merton mu_j = 0, CGMY g = m) where l = -r is right.
def _balanced_p(eta1, eta2, h):
    return 1.0 / (1.0 + math.exp(-(eta1 - eta2) * h / 2))


def _hem(p, eta1, eta2, **kw):
    return dict({"family": "hem", "exp": False, "params": {"sigma": 0.05, "p": p, "eta1": eta1, "eta2": eta2, "intensity": 3.0}}, **kw)


BAL_HEM_HALF = _hem(0.5, 25.0, 20.0)
BAL_HEM_HALF2 = _hem(0.5, 10.0, 40.0)
BAL_HEM_CLOSE = _hem(0.5, 20.05, 20.0)
BAL_HEM_01 = _hem(_balanced_p(25.0, 20.0, 0.1), 25.0, 20.0)     # balanced at h = 0.1
BAL_HEM_01B = _hem(_balanced_p(20.0, 25.0, 0.1), 20.0, 25.0)    # balanced at h = 0.1, the lighter tail on the left
BAL_HEM_02 = _hem(_balanced_p(10.0, 40.0, 0.2), 10.0, 40.0)     # balanced at h = 0.2
NEAR_SYM_MERTON = {"family": "merton", "exp": False, "params": {"sigma": 0.0, "sigma_j": 0.1, "mu_j": 2e-7, "intensity": 3.0}}
NEAR_SYM_VG = {"family": "vg", "exp": False, "params": {"sigma": 0.1, "nu": 0.06, "theta": 1e-7}}
MARGINS["hembal01"] = BAL_HEM_01
BAL_CMODELS = [
    {"margins": ["hembal01", "hembal01"], "copula": {"kind": "clayton", "theta": 0.7, "eta": 0.3}},   # ties: min / max over margins
    {"margins": ["hembal01", "vg"], "copula": {"kind": "clayton", "theta": 0.7, "eta": 0.3}},
    {"margins": ["cgmy05", "hembal01"], "copula": {"kind": "independent"}},
    {"margins": ["hem", "vg", "hembal01"], "copula": {"kind": "dependent"}},
]
BAL_WRAPPED = [
    {"wrap": "sde", "model": BAL_HEM_01},
    {"wrap": "forward", "cmodel": BAL_CMODELS[1]},
    {"wrap": "forward", "model": BAL_HEM_01},
]
BALANCED_RTOL = 1e-5   # input class "one-sided masses beyond h/2 agree to 1e-5 relative" (decided on the density)


def _balanced_cases(tier, add, g1):
    """Grids of every model-based constructor for the BALANCED models (see above)."""
    thorough = tier == "thorough"

    def small(h, ps=(0.99999, 0.9)):
        out = [{"kind": "geometric", "h": h, "n_side": 3, "p": ps[0]},
               {"kind": "credit", "h": h, "a_frac": 0.5, "symmetric": True},
               {"kind": "credit", "h": h, "a_frac": 0.3, "symmetric": False}]
        out += [{"kind": "geometric", "h": h, "n_side": 2, "p": p} for p in ps[1:]]
        return out

    # equal masses at a small h (geometric / credit: few states whatever h is)
    exp_twin = dict(BAL_HEM_HALF, exp=True, r=0.02, d=0.0, spot=100.0, via="reinit")
    for m, hs in ((BAL_HEM_HALF, (1e-6, 1e-9)), (BAL_HEM_HALF2, (2e-7,)), (exp_twin, (1e-6,)),
                  (dict(BAL_HEM_HALF, via="reinit"), (1e-7,))):
        for h in (hs if not thorough else tuple(hs) + (1e-7, 1e-8)):
            for g in small(h):
                add(g, 1, model=m)
            # the two half-axes of the probability-step grid are built by two separate steppings (no mirror image either)
            add({"kind": "probability", "h": h, "pmin": 0.2, "depth": 2}, 1, model=m)
    # uniform grid: refine() of the pinned tree is quadratic in the number of states, so a moderately small h (6e3 states)
    # with close decay rates: masses within 5e-6, tail share at the mirrored bound 1.029e-5 instead of 1e-5
    add({"kind": "uniform", "h": 2e-4, "p": 0.99999, "depth": 1}, 1, model=BAL_HEM_CLOSE)
    if thorough:
        add({"kind": "uniform", "h": 2e-4, "p": 0.9, "depth": 2}, 1, model=BAL_HEM_CLOSE)
        add({"kind": "uniform", "h": 1e-4, "p": 0.99999, "depth": 1}, 1, model=dict(BAL_HEM_CLOSE, via="reinit"))
    # infinite activity, y > 1: only p = 0.99999 (at 0.9 the bound lies within 3h of the origin, where the density is so steep
    # that the 2e-12 of the library's root search is worth 1e-8 of the tail share)
    for m, h in ((_cgmy(1.5), 1e-6), (_cgmy(1.2), 5e-7)):
        for g in small(h, ps=(0.99999,)):
            add(g, 1, model=m)
    # equal masses at an ordinary h, nearly symmetric measures: every model-based constructor of the ordinary alphabet
    for m in (BAL_HEM_01, BAL_HEM_01B, BAL_HEM_02, NEAR_SYM_MERTON, NEAR_SYM_VG, dict(BAL_HEM_01, via="reinit"),
              dict(BAL_HEM_02, exp=True, r=0.02, d=0.0, spot=100.0)):
        for g in g1:
            add(g, g.get("dim", 1), model=m)
    # as a margin of a copula model / as the driver of an SDE model
    indep = {"fixed", "geometric-bounds"}
    for cm in (BAL_CMODELS if thorough else BAL_CMODELS[:3]):
        dim = len(cm["margins"])
        for g in [g for g in A.grid_specs(tier, dim) if g["kind"] not in indep] + _extra_model_grids(tier, dim):
            add(g, dim, cmodel=cm)
    for w in (BAL_WRAPPED if thorough else BAL_WRAPPED[:2]):
        dim = len(w["cmodel"]["margins"]) if w.get("cmodel") else 1
        gs = [g for g in A.grid_specs(tier, dim) if g["kind"] in ("uniform", "geometric")] \
            + [g for g in _extra_model_grids(tier, dim) if g["kind"] == "geometric"]
        for g in gs:
            add(g, dim, model=w.get("model"), cmodel=w.get("cmodel"), wrap=w["wrap"])


def _integral_h_cases(add):
    for h in (1.0, 2.0):
        for m in UNIT_MODELS:
            for g in ({"kind": "uniform", "h": h, "p": 0.99999}, {"kind": "uniform", "h": h, "p": 0.9},
                      {"kind": "geometric", "h": h, "n_side": 3, "p": 0.99999},
                      {"kind": "probability", "h": h, "pmin": 0.2}, {"kind": "probability", "h": h, "pmin": 0.05},
                      {"kind": "probability", "h": h, "pmin": 0.2, "dim": 2},
                      {"kind": "credit", "h": h, "a_frac": 0.5, "symmetric": True},
                      {"kind": "credit", "h": h, "a_frac": 0.3, "symmetric": False}):
                add(g, g.get("dim", 1), model=m)
        for g in ({"kind": "uniform", "h": h, "p": 0.99999}, {"kind": "geometric", "h": h, "n_side": 3, "p": 0.99999},
                  {"kind": "credit", "h": h, "a_frac": [0.5, 0.3], "symmetric": True},
                  {"kind": "credit", "h": h, "a_frac": [0.5, 0.3], "symmetric": False}):
            add(g, 2, cmodel=UNIT_CMODEL)
    add({"kind": "fixed", "h": 2.0, "n": 4}, 1)
    add({"kind": "fixed", "h": 1.0, "n": 7}, 3)
    add({"kind": "geometric-bounds", "h": 2.0, "bounds": [-8.0, 6.0], "n_side": 3}, 1)
    add({"kind": "raw", "h": 1.0, "name": "raw1-integral"}, 1)
    add({"kind": "raw", "h": 2.0, "name": "raw2-integral"}, 2)


_HEM0 = {"family": "hem", "exp": False, "params": {}}
_VG0 = {"family": "vg", "exp": False, "params": {}}
_MERTON0 = {"family": "merton", "exp": False, "params": {}}


def _cgmy(y):
    return {"family": "cgmy", "exp": False, "params": {"c": 1.0, "g": 15.0, "m": 20.0, "y": y}}


def _prob_deep(tier):
    """Probability-step grids refined deeply and / or built with a small h: (model, grid spec with its own depth). The gaps
    next to the origin halve at every refinement while the root searches of the grid's middle() have absolute tolerances:
    smallest gap of the alphabet 3e-7 (h = 1e-5, 5 refinements), far above the 1e-10 of the library's root search."""
    def g(h, pmin, depth, dim=1):
        d = {"kind": "probability", "h": h, "pmin": pmin, "depth": depth}
        if dim != 1:
            d["dim"] = dim
        return d

    exp_reinit = dict(_HEM0, exp=True, r=0.02, d=0.0, spot=100.0, via="reinit")
    families = (_HEM0, _MERTON0, _VG0, _cgmy(-0.5), _cgmy(0.0), _cgmy(0.5), _cgmy(1.0), _cgmy(1.2), _cgmy(1.5), exp_reinit)
    if tier != "thorough":
        out = [(_HEM0, g(0.05, 0.05, 8)), (_HEM0, g(2e-6, 0.05, 2, dim=2)), (exp_reinit, g(2e-6, 0.2, 3)),
               (_cgmy(0.5), g(0.05, 0.1, 6)), (_VG0, g(0.1, 0.2, 6, dim=2))]
        for m in families:
            out += [(m, g(1e-3, 0.2, 4)), (m, g(1e-5, 0.2, 5))]
        return out
    out = [(_HEM0, g(0.05, 0.05, 10)), (_HEM0, g(0.05, 0.2, 8, dim=2)), (_VG0, g(0.1, 0.2, 8)), (_cgmy(0.5), g(0.05, 0.1, 8)),
           (_MERTON0, g(0.05, 0.1, 8)), (_cgmy(1.2), g(0.1, 0.2, 8))]
    for m in families:
        out += [(m, g(1e-3, 0.2, 6)), (m, g(1e-5, 0.05, 6)), (m, g(2e-6, 0.2, 3, dim=3)), (m, g(1e-4, 0.5, 5, dim=2))]
    return out


HIST_MODELS = [
    {"family": "hem", "exp": False, "params": {}},
    {"family": "merton", "exp": False, "params": {}},
    {"family": "vg", "exp": False, "params": {}},
    {"family": "cgmy", "exp": False, "params": {"c": 1.0, "g": 15.0, "m": 20.0, "y": -0.5}},
    {"family": "cgmy", "exp": False, "params": {"c": 1.0, "g": 15.0, "m": 20.0, "y": 0.5}},
    {"family": "cgmy", "exp": False, "params": {"c": 1.0, "g": 15.0, "m": 20.0, "y": 1.2}},
    {"family": "hem", "exp": True, "params": {}, "r": 0.02, "d": 0.0, "spot": 100.0},
    {"family": "cgmy", "exp": True, "params": {"c": 1.0, "g": 15.0, "m": 20.0, "y": 0.5}, "r": 0.02, "d": 0.0, "spot": 100.0},
    # error / fall-back paths reached through a history: a heavy-tailed model made ordinary by set-params, and the reverse
    {"family": "hem", "exp": False, "params": HEAVY_HEM},
    {"family": "hem", "exp": False, "params": {}, "alt_params": HEAVY_HEM},
    # balanced one-sided masses at h = 0.1 (BALANCED models) reached / left through set-params
    {"family": "hem", "exp": False, "params": {}, "alt_params": BAL_HEM_01["params"]},
    BAL_HEM_01,
]
HIST_CMODELS = [
    {"margins": ["hem", "vg"], "copula": {"kind": "clayton", "theta": 0.7, "eta": 0.3}},
    {"margins": ["cgmy05", "cgmy12"], "copula": {"kind": "independent"}},
    {"margins": ["hem", "vg", "cgmy05"], "copula": {"kind": "dependent"}},
]
HIST_WRAPPED = [
    {"wrap": "sde", "model": HIST_MODELS[0]},
    {"wrap": "forward", "model": HIST_MODELS[4]},
    {"wrap": "sde", "cmodel": {"margins": ["cgmy12", "cgmy05"], "copula": {"kind": "independent"}}},  # last margin decides
    {"wrap": "forward", "cmodel": HIST_CMODELS[0]},
]


def _hist_cases(tier):
    """Histories on one model object: (model, h, p, first constructor); the words over (mutation, constructor) of length
    depth - 1 that follow the first construction are enumerated completely inside the case."""
    thorough = tier == "thorough"
    out = []

    def add(depth, h, p, model=None, cmodel=None, wrap=None):
        c = {"model": model, "cmodel": cmodel, "wrap": wrap}
        dim = len(cmodel["margins"]) if cmodel is not None else 1
        _, kinds = _hist_menus(c)
        for first in kinds:
            out.append({"sub": "mhist", "dim": dim, "h": h, "p": p, "first": first, "depth": depth,
                        "model": model, "cmodel": cmodel, "wrap": wrap})

    hps = [(0.1, 0.99999)] + ([(0.05, 0.999)] if thorough else [])
    depth = 3 if thorough else 2
    for h, p in hps:
        for m in HIST_MODELS:
            add(depth, h, p, model=m)
        for cm in HIST_CMODELS:
            add(depth, h, p, cmodel=cm)
        for w in HIST_WRAPPED:
            add(depth, h, p, model=w.get("model"), cmodel=w.get("cmodel"), wrap=w["wrap"])
    if not thorough:
        add(2, 0.05, 0.999, model=HIST_MODELS[4])
        add(3, 0.1, 0.99999, model=HIST_MODELS[4])
    return out


def cases(tier):
    thorough = tier == "thorough"
    depth = 5 if thorough else 3
    out = []

    def add(gspec, dim, model=None, cmodel=None, wrap=None):
        d = depth
        if gspec["kind"] == "probability":
            d = min(depth, 4)
        if "depth" in gspec:
            d = gspec["depth"]
            gspec = {k: v for k, v in gspec.items() if k != "depth"}
        c = {"sub": "grid", "dim": dim, "grid": gspec, "model": model, "cmodel": cmodel, "depth": d}
        if wrap:
            c["wrap"] = wrap
        out.append(c)

    # time axis (cheap, first)
    for start in [0.0, 0.5]:
        for end in [0.5, 1.0, 2.5]:
            if end <= start:
                continue
            for num in ([2, 3, 5, 10, 365] if thorough else [2, 3, 10]):
                for cls in ("TimeGrid", "Uniform1DGrid"):
                    out.append({"sub": "time", "cls": cls, "start": start, "end": end, "num": num})

    # model-independent constructors, dimension 1..3
    for dim in (1, 2, 3):
        for g in A.grid_specs(tier, dim, with_model_grids=False):
            add(g, dim)
    if thorough:
        for dim in (1, 2):
            add({"kind": "fixed", "h": 0.25, "n": 2}, dim)
            add({"kind": "fixed", "h": 0.05, "n": 21}, dim)
            add({"kind": "geometric-bounds", "h": 0.05, "bounds": [-1.0, 2.0], "n_side": 2}, dim)
    # sizes: the smallest (n = 2: one state per side), an even n, and axes beyond 256 / 2048 (thorough: 32768) states
    for n, d in ([(2, 3), (4, 3), (601, 2)] + ([(8193, 2)] if thorough else [])):
        add({"kind": "fixed", "h": 0.25 if n < 10 else 0.01, "n": n, "depth": d}, 1)
    add({"kind": "fixed", "h": 0.25, "n": 4}, 3)
    # integral h and bounds (also handed over as Python ints, form "integral-floats-as-ints")
    add({"kind": "fixed", "h": 1.0, "n": 5}, 2)
    add({"kind": "geometric-bounds", "h": 1.0, "bounds": [-4.0, 3.0], "n_side": 3}, 2)
    # many refinements of small grids with the arithmetic middle (accumulation: h, origin index, states at twice their index)
    deep = 12 if thorough else 10
    add({"kind": "fixed", "h": 0.1, "n": 3, "depth": deep}, 1)
    add({"kind": "geometric-bounds", "h": 0.1, "bounds": [-0.7, 0.4], "n_side": 2, "depth": deep}, 2)
    add({"kind": "raw", "h": 0.1, "name": "raw2", "depth": deep - 2}, 2)
    for name in sorted(RAW_AXES):
        if not name.endswith("-integral"):
            add({"kind": "raw", "h": 0.1, "name": name}, len(RAW_AXES[name]))

    # 1-d models
    indep = {"fixed", "geometric-bounds"}
    g1 = [g for g in A.grid_specs(tier, 1) if g["kind"] not in indep] + _extra_model_grids(tier, 1)
    specs = A.model_specs(tier)
    if thorough:
        specs = A.with_reinit(specs)
    else:
        # one "reinit" twin per family and representation (the first parameter set of each)
        seen, tw = set(), []
        for m in specs:
            tw.append(m)
            if (m["family"], m["exp"]) not in seen:
                seen.add((m["family"], m["exp"]))
                tw.append(dict(m, via="reinit"))
        specs = tw
    for m in specs:
        for g in g1:
            add(g, g.get("dim", 1), model=m)

    # integral h on models with jumps of size one, every constructor (argument forms: h as Python int / numpy int)
    _integral_h_cases(add)

    # degenerate options: truncation probability 0 (root at h/2: the bound is forced out to h) and 1 (no root: refusal), a
    # minimum probability step of 1 (no step found: each half-axis is h and one closing state)
    for m in ([_HEM0, _VG0, _cgmy(1.2)] if thorough else [_HEM0, _cgmy(1.2)]):
        for g in ({"kind": "uniform", "h": 0.1, "p": 0.0}, {"kind": "uniform", "h": 0.1, "p": 1.0},
                  {"kind": "geometric", "h": 0.1, "n_side": 2, "p": 1.0}, {"kind": "probability", "h": 0.1, "pmin": 1.0},
                  {"kind": "probability", "h": 0.1, "pmin": 1.0, "dim": 3}):
            add(g, g.get("dim", 1), model=m)

    # probability-step grids refined deeply / with a small h
    for m, g in _prob_deep(tier):
        add(g, g.get("dim", 1), model=m)

    # heavy-tailed models (the truncation root lies beyond the library's search interval on one side)
    for m in (HEAVY_MODELS if thorough else HEAVY_MODELS[:5]):
        for g in g1:
            add(g, g.get("dim", 1), model=m)
    add({"kind": "credit", "h": 0.1, "a_frac": 0.5, "symmetric": True, "depth": deep}, 1, model=_HEM0)
    for cm in (HEAVY_CMODELS if thorough else HEAVY_CMODELS[:1]):
        dim = len(cm["margins"])
        for g in [g for g in A.grid_specs(tier, dim) if g["kind"] not in indep] + _extra_model_grids(tier, dim):
            add(g, dim, cmodel=cm)

    # balanced models: equal one-sided jump masses, different tails (each bound is the root of its own equation)
    _balanced_cases(tier, add, g1)

    # SDE models driven by a Levy (copula) model: the constructors read the measure of the driver
    for w in HIST_WRAPPED + (HEAVY_WRAPPED if thorough else HEAVY_WRAPPED[:1]):
        dim = len(w["cmodel"]["margins"]) if w.get("cmodel") else 1
        gs = [g for g in A.grid_specs(tier, dim) if g["kind"] in ("uniform", "geometric")] \
            + [g for g in _extra_model_grids(tier, dim) if g["kind"] == "geometric"]
        for g in gs:
            add(g, dim, model=w.get("model"), cmodel=w.get("cmodel"), wrap=w["wrap"])

    # copula models, dimension 2 and 3
    for cm in A.copula_model_specs(tier):
        dim = len(cm["margins"])
        gs = [g for g in A.grid_specs(tier, dim) if g["kind"] not in indep] + _extra_model_grids(tier, dim)
        for g in gs:
            add(g, dim, cmodel=cm)
        if thorough and cm["copula"]["kind"] == "independent":
            for g in gs:
                add(g, dim, cmodel=dict(cm, exp=True))

    # histories on one re-used model object (last: the longest cases)
    out += _hist_cases(tier)
    return out


# ----------------------------------------------------------------------------------------------------------------------
# construction of one real grid from a case
# ----------------------------------------------------------------------------------------------------------------------

def _base_model(case, alt=None):
    """The Levy / exponential / copula model of the case, built by the library's public constructors. `alt` (one entry per
    margin: None | "alt" | "donor") asks for another parameter set of the margin's family (`_alt_params`) instead of the
    spec's own."""
    if case.get("model") is not None:
        spec = case["model"]
        if alt and alt[0]:
            spec = dict(spec, params=_alt_params(spec, alt[0]))
        return A.make_model(spec)
    if case.get("cmodel") is not None:
        cm = case["cmodel"]
        from rpylib.model.utils import create_levy_copula_model

        models = []
        for name, flag in zip(cm["margins"], alt or [None] * len(cm["margins"])):
            ms = dict(MARGINS[name])
            if cm.get("exp"):
                ms = dict(ms, exp=True, r=0.02, d=0.0, spot=100.0)
            if flag:
                ms = dict(ms, params=_alt_params(ms, flag))
            models.append(A.make_model(ms))
        return create_levy_copula_model(models=models, copula=A.make_copula(cm["copula"]))
    return None


def _wrap(base, wrap):
    """The model handed to the constructor: the Levy (copula) model itself, or an SDE model driven by it (the grid
    constructors accept a LevyDrivenSDEModel and read the measure of its driver: scripts/mlmc/convergence/mlmc_convergence_sde.py)."""
    if not wrap or base is None:
        return base
    if wrap == "sde":
        from rpylib.model.levydrivensde.levydrivensde import LevyDrivenSDEModel

        return LevyDrivenSDEModel(driver=base, x0=1.0)
    if wrap == "forward":
        from rpylib.model import utils as U

        if getattr(base, "models", None) is not None:
            return U.create_levy_forward_market_model_copula(driver=list(base.models))  # default Clayton copula
        return U.create_levy_forward_market_model(driver=base)
    raise ValueError(wrap)


def _model_of(case, alt=None):
    return _wrap(_base_model(case, alt), case.get("wrap"))


def _carrier(model):
    """The Levy (copula) model carrying the measure: the driver of an SDE model, else the model itself."""
    return getattr(model, "driver", model)


def _margin_models(model):
    if model is None:
        return []
    c = _carrier(model)
    ms = getattr(c, "models", None)
    return list(ms) if ms is not None else [c]


def _margin_measures(case, model):
    """The 1-d Levy measures the truncation promise is about (one per margin), in their CURRENT state."""
    return [m.levy_triplet.nu for m in _margin_models(model)]


def _construct(case, model):
    from rpylib.grid import spatial as S

    g = case["grid"]
    dim = case["dim"]
    kind = g["kind"]
    if kind == "raw":
        axes = [np.array(a, dtype=float) for a in RAW_AXES[g["name"]]]
        origin = axes[0].tolist().index(0.0)
        return S.CTMCGrid(h=g["h"], origin_coordinate=origin, axes=axes)
    if kind == "credit" and "a_abs" in g:
        a = [float(x) for x in g["a_abs"]]
        return S.CTMCCredit(h=g["h"], level_a=a[0] if dim == 1 else a, model=model, symmetric_grid=g.get("symmetric", True))
    return A.make_grid(g, model, dimension=dim)


def _component(g):
    k = g["kind"]
    if k == "credit":
        return "credit-symmetric" if g.get("symmetric", True) else "credit-asymmetric"
    return k


def _origin_indices(grid):
    oc = getattr(grid, "origin_coordinate", None)
    try:
        return [int(v) for v in oc]
    except TypeError:
        return [int(getattr(oc, "value", oc))]


def _accessors(grid):
    """What the grid's own public accessors answer at its origin coordinate (read at every stage of a history, so that an
    answer remembered from before a refine() shows)."""
    oc = grid.origin_coordinate

    def tolist(v):
        try:
            return [float(x) for x in v]
        except TypeError:
            return [float(v)]

    out = {}
    for name, f in (("left_point", lambda: grid.left_point(oc)), ("right_point", lambda: grid.right_point(oc)),
                    ("getitem", lambda: grid[oc])):
        try:
            out[name] = tolist(f())
        except Exception as e:
            out[name] = f"{type(e).__name__}: {e}"
    try:
        out["number_of_points"] = int(grid.number_of_points())
    except Exception as e:
        out["number_of_points"] = f"{type(e).__name__}: {e}"
    return out


def _snapshot(grid):
    axes = [np.array(a, dtype=float, copy=True) for a in grid.axes]
    tr = getattr(grid, "truncations", None)
    return {
        "accessors": _accessors(grid),
        "axes": axes,
        "h": float(grid.h),
        "origin": _origin_indices(grid),
        "truncations": None if tr is None else [(float(t[0]), float(t[1])) for t in tr],
        "dimension": getattr(grid, "dimension", len(axes)),
    }


def _own_middles(grid):
    """The grid's own middle() of every gap of every axis (called with the axis elements, as refine() does)."""
    out = []
    for axis in grid.axes:
        mids = []
        for xi, xip in zip(axis, axis[1:]):
            try:
                mids.append(float(grid.middle(xi, xip)))
            except Exception as e:  # degenerate gap (e.g. not increasing): nothing to expect
                mids.append(repr(e))
        out.append(mids)
    return out


# ----------------------------------------------------------------------------------------------------------------------
# oracles on the density
# ----------------------------------------------------------------------------------------------------------------------

def _tail_fraction(nu, h, b, side, splits=()):
    """Share of the one-sided jump mass beyond h/2 that lies beyond the bound b: nu((b, inf)) / nu((h/2, inf)) for side
    'right', nu((-inf, b)) / nu((-inf, -h/2)) for 'left'. Returns (value, error estimate). `splits`: points where the
    density is known to jump (the end points of a truncation applied with truncate_levy_measure)."""
    if side == "right":
        if b <= h / 2:
            return 1.0, 0.0
        t, et = O.integrate_density(nu, b, math.inf, extra_splits=splits)
        i, ei = O.integrate_density(nu, h / 2, math.inf, extra_splits=splits)
    else:
        if b >= -h / 2:
            return 1.0, 0.0
        t, et = O.integrate_density(nu, -math.inf, b, extra_splits=splits)
        i, ei = O.integrate_density(nu, -math.inf, -h / 2, extra_splits=splits)
    if not (i > 0) or not math.isfinite(i):
        return math.nan, math.inf
    return t / i, (et + ei * t / i) / i


class _Tails:
    """Tail fractions of the margins' measures in their current state, memoised: `keys[k]` names the state of margin k
    (parameter set and truncations applied so far), so that a value is re-used only for the same measure."""

    def __init__(self, nus, h, splits=None, keys=None, memo=None):
        self.nus = list(nus)
        self.h = h
        self.splits = splits if splits is not None else [()] * len(self.nus)
        self.keys = keys if keys is not None else list(range(len(self.nus)))
        self.memo = memo if memo is not None else {}

    def __call__(self, k, b, side):
        key = (repr(self.keys[k]), self.h, float(b), side)
        if key not in self.memo:
            self.memo[key] = _tail_fraction(self.nus[k], self.h, float(b), side, tuple(self.splits[k]))
        return self.memo[key]

    def all(self, b, side):
        return [self(k, b, side) for k in range(len(self.nus))]


def _balance_class(tails, k):
    """Input class of margin k by its two one-sided jump masses beyond +-h/2 (quadrature of the density): 'balanced' when
    they agree to BALANCED_RTOL relative - then 'symmetric-measure' when the density is even (l = -r is right) or
    'tails-differ' (the BALANCED models: the two bounds are roots of two different equations) - else 'unbalanced'."""
    key = ("balance", repr(tails.keys[k]), tails.h)
    if key not in tails.memo:
        nu, h, sp = tails.nus[k], tails.h, tuple(tails.splits[k])
        il, el = O.integrate_density(nu, -math.inf, -h / 2, extra_splits=sp)
        ir, er = O.integrate_density(nu, h / 2, math.inf, extra_splits=sp)
        big = max(il, ir)
        if not (big > 0) or not math.isfinite(big) or (el + er) > 1e-3 * BALANCED_RTOL * big:
            c = None
        elif abs(il - ir) > BALANCED_RTOL * big:
            c = "unbalanced"
        else:
            even = all(core.close(float(nu(x)), float(nu(-x)), rtol=1e-12) for x in (0.75 * h, 2.0 * h, 7.0 * h))
            c = "balanced:" + ("symmetric-measure" if even else "tails-differ")
        tails.memo[key] = c
    return tails.memo[key]


def _bound_class(tails, h, p, side):
    """Where the promised bound (outermost root over the margins) lies: within h, within 2h or beyond 2h of the origin.
    Decided from the density alone: the root of margin i is within x iff tail_i(x)/I_i <= 1-p."""
    s = 1.0 if side == "right" else -1.0
    within = {}
    for mult in (1.0, 2.0):
        within[mult] = all(f <= (1 - p) for f, _ in tails.all(s * mult * h, side))
    if within[1.0]:
        return "bound-within-h"
    if within[2.0]:
        return "bound-within-2h"
    # a root beyond +-100 (heavy tail): more than 1-p of the one-sided jump mass of some margin lies beyond +-100
    if any(f > (1 - p) + TOL_TAIL and e <= TOL_TAIL / 10 for f, e in tails.all(s * FAR, side)):
        return "bound-beyond-100"
    return "bound-beyond-2h"


def _promise(case):
    """What the constructor promised about the end points. Returns dict with
       'bounds': per-axis (l, r) to be matched closely, or None;
       'tail':  (p, h) when the end points are roots of the tail-mass equation of the margins' measures."""
    g = case["grid"]
    k = g["kind"]
    dim = case["dim"]
    if k == "fixed":
        b = (g["n"] // 2) * g["h"]
        return {"bounds": [(-b, b)] * dim}
    if k == "geometric-bounds":
        return {"bounds": [tuple(float(x) for x in g["bounds"])] * dim}
    if k == "raw":
        return {"bounds": [(a[0], a[-1]) for a in RAW_AXES[g["name"]]]}
    if k in ("uniform", "geometric"):
        return {"tail": (g["p"], g["h"])}
    if k == "credit":
        return {"tail": (0.99999, g["h"])}  # compute_truncation's default, as the constructor uses it
    return {}


# ----------------------------------------------------------------------------------------------------------------------
# invariants
# ----------------------------------------------------------------------------------------------------------------------

class _Ctx:
    pass


def _state_invariants(sh, ctx, snap, depth):
    """Evaluate every state invariant; return list of (key, what, detail)."""
    out = []
    comp, dcls = ctx.component, ctx.dcls
    h = snap["h"]
    axes = snap["axes"]
    origin = snap["origin"]
    tr = snap["truncations"]
    if len(origin) != len(axes):
        out.append((f"C13:state:{comp}:origin-coordinate-dimension-differs-from-axes:{dcls}",
                    f"{len(origin)} origin indices for {len(axes)} axes", {"origin": origin}))
        origin = (origin * len(axes))[: len(axes)]
    if not (math.isfinite(h) and h > 0):
        out.append((f"C13:state:{comp}:h-not-positive-finite:{dcls}", f"h = {h}", None))
    if snap["dimension"] != len(axes):
        out.append((f"C13:state:{comp}:dimension-attribute-differs-from-number-of-axes:{dcls}",
                    f"dimension = {snap['dimension']}, {len(axes)} axes", None))
    acc = snap.get("accessors") or {}
    sh.count("evaluations")
    if "number_of_points" in acc and acc["number_of_points"] != math.prod(int(a.size) for a in axes):
        out.append((f"C13:state:{comp}:number_of_points-is-not-the-product-of-the-axis-sizes:{dcls}",
                    f"number_of_points() = {acc['number_of_points']!r}, axis sizes {[int(a.size) for a in axes]}", None))
    for k, ax in enumerate(axes):
        sh.count("evaluations")
        o = origin[k]
        where = f"axis {k} after {depth} refinement(s)"
        lcls = ctx.side_cls.get("left", "")
        rcls = ctx.side_cls.get("right", "")
        if not np.all(np.isfinite(ax)):
            out.append((f"C13:state:{comp}:non-finite-state:{dcls}", f"{where}: {ax.tolist()}", None))
            continue
        if ax.size > 1 and not np.all(np.diff(ax) > 0):
            j = int(np.argmax(np.diff(ax) <= 0))
            side = "left" if ax[j] < 0 else "right"
            c = lcls if side == "left" else rcls
            out.append((f"C13:state:{comp}:not-strictly-increasing:{side}-half-axis:{dcls}{c}{ctx.credit_cls}",
                        f"{where}: states {ax[j]!r} >= {ax[j + 1]!r} at indices {j},{j + 1}", {"axis": ax.tolist()}))
        if not (0 <= o < ax.size) or ax[o] != 0.0:
            val = ax[o] if 0 <= o < ax.size else None
            out.append((f"C13:state:{comp}:origin-index-does-not-hold-zero:{dcls}",
                        f"{where}: origin index {o}, axis value there {val!r}", {"axis": ax.tolist()}))
            continue
        # the grid's own accessors at its origin coordinate agree with the axes
        for name, j in (("getitem", o), ("left_point", o - 1), ("right_point", o + 1)):
            if name not in acc or not (0 <= j < ax.size):
                continue
            sh.count("evaluations")
            v = acc[name]
            if isinstance(v, str) or len(v) != len(axes) or v[k] != ax[j]:
                got = v if isinstance(v, str) else (v[k] if len(v) == len(axes) else v)
                out.append((f"C13:state:{comp}:accessor-{name}-at-origin-differs-from-the-axis:{dcls}",
                            f"{where}: grid.{name}(origin_coordinate) gives {got!r}, the axis holds {ax[j]!r} at index {j}",
                            {"axis": ax.tolist()}))
        # neighbours
        if o - 1 < 0:
            out.append((f"C13:state:{comp}:no-left-neighbour-of-origin:{dcls}{lcls}",
                        f"{where}: the origin is the first state, -h = {-h!r} is not a state", {"axis": ax.tolist()}))
        elif not core.close(ax[o - 1], -h, rtol=1e-12):
            out.append((f"C13:state:{comp}:left-neighbour-is-not-minus-h:{dcls}{lcls}",
                        f"{where}: left neighbour of 0 is {ax[o - 1]!r}, -h = {-h!r}", {"axis": ax.tolist()}))
        if o + 1 >= ax.size:
            out.append((f"C13:state:{comp}:no-right-neighbour-of-origin:{dcls}{rcls}",
                        f"{where}: the origin is the last state, +h = {h!r} is not a state", {"axis": ax.tolist()}))
        elif not core.close(ax[o + 1], h, rtol=1e-12):
            out.append((f"C13:state:{comp}:right-neighbour-is-not-plus-h:{dcls}{rcls}",
                        f"{where}: right neighbour of 0 is {ax[o + 1]!r}, +h = {h!r}", {"axis": ax.tolist()}))
        # reported truncations = end points
        if tr is None or len(tr) != len(axes):
            out.append((f"C13:state:{comp}:truncations-not-one-pair-per-axis:{dcls}", f"truncations = {tr}", None))
        elif tr[k] != (float(ax[0]), float(ax[-1])):
            out.append((f"C13:state:{comp}:truncations-differ-from-end-points:{dcls}",
                        f"{where}: truncations {tr[k]} but end points ({ax[0]!r}, {ax[-1]!r})", None))
    return out


def _promise_invariants(sh, ctx, snap, case, grid):
    """Constructor promises, evaluated on the freshly constructed grid (depth 0); end points never change afterwards
    (asserted exactly on every edge)."""
    out = []
    comp, dcls = ctx.component, ctx.dcls
    axes = snap["axes"]
    pr = ctx.promise
    g = case["grid"]
    sh.count("evaluations")
    if snap["h"] != g["h"]:
        out.append((f"C13:promise:{comp}:h-is-not-the-requested-step:{dcls}",
                    f"the constructed grid has h = {snap['h']!r}, requested {g['h']!r}", None))
    if len(axes) != case["dim"]:
        out.append((f"C13:promise:{comp}:number-of-axes-is-not-the-dimension:{dcls}",
                    f"{len(axes)} axes for dimension {case['dim']}", None))
    if pr.get("bounds"):
        for k, ax in enumerate(axes):
            sh.count("evaluations")
            l, r = pr["bounds"][k]
            if not (core.close(ax[0], l, rtol=1e-12) and core.close(ax[-1], r, rtol=1e-12)):
                out.append((f"C13:promise:{comp}:end-points-are-not-the-requested-bounds:{dcls}",
                            f"axis {k}: end points ({ax[0]!r}, {ax[-1]!r}), requested ({l!r}, {r!r})", None))
    if pr.get("tail"):
        p, h = pr["tail"]
        for k, ax in enumerate(axes):
            for side, b in (("left", float(ax[0])), ("right", float(ax[-1]))):
                sh.count("evaluations")
                scls = ctx.side_cls.get(side, "")
                fr = ctx.tails.all(b, side)
                if any(not (e <= TOL_TAIL / 10) for _, e in fr):
                    sh.count("oracle_inconclusive")
                    continue
                worst = max(f for f, _ in fr)           # the margin that decides the bound
                detail = {"bound": b, "requested_tail": 1 - p, "tail_fraction_per_margin": [f for f, _ in fr], "h": h}
                if worst > (1 - p) + TOL_TAIL:
                    out.append((f"C13:promise:{comp}:{side}-bound-leaves-more-than-the-requested-tail-mass:{dcls}{scls}",
                                f"axis {k}: {side} end point {b!r} leaves {worst:.6g} of the {side} jump mass outside, requested "
                                f"at most {1 - p:.6g}", detail))
                elif worst < (1 - p) - TOL_TAIL:
                    # the docstring promises only "less than"; the root is what the statement calls the target probability.
                    # beyond the root is an alarm only when the bound is not forced outwards by the neighbour +-h
                    forced = abs(abs(b) - h) <= 1e-12 * h
                    # a symmetric credit axis may end at the mirror -l of its left end instead of the (closer) right root:
                    # CTMCCredit promises no tail probability of its own and -l keeps more than compute_truncation's default
                    if ctx.credit_cls and side == "right" \
                            and core.close(b, -float(ax[0]), rtol=1e-12):
                        forced = True
                    if forced:
                        sh.count("bound_forced_to_h_beyond_root")
                    else:
                        out.append((f"C13:promise:{comp}:{side}-bound-is-not-the-root-of-the-tail-mass-equation:{dcls}{scls}",
                                    f"axis {k}: {side} end point {b!r} leaves {worst:.6g} outside, the requested tail is {1 - p:.6g}",
                                    detail))
                else:
                    sh.count("tail_probability_confirmed")
    if g["kind"] == "credit":
        l_model = ctx.credit_levels
        for k, ax in enumerate(axes):
            a = l_model[k]
            targets = [a] + ([-a] if (g.get("symmetric", True) and case["dim"] > 1) else [])
            mids = [float(grid.middle(x, y)) for x, y in zip(grid.axes[k], grid.axes[k][1:])]
            for t in targets:
                sh.count("evaluations")
                if not any(core.close(m, t, rtol=1e-12) for m in mids):
                    out.append((f"C13:promise:{comp}:threshold-is-not-a-cell-boundary:{dcls}",
                                f"axis {k}: threshold {t!r} is not the middle() of two neighbouring states; middles {mids}",
                                {"axis": ax.tolist()}))
    if g["kind"] == "probability":
        out += _probability_promise(sh, ctx, snap, case, grid)
    return out


def _probability_promise(sh, ctx, snap, case, grid):
    out = []
    g = case["grid"]
    pmin, h = g["pmin"], g["h"]
    nu = ctx.nus[0]
    sp = tuple(ctx.tails.splits[0])
    il, el = O.integrate_density(nu, -math.inf, -h / 2, extra_splits=sp)
    ir, er = O.integrate_density(nu, h / 2, math.inf, extra_splits=sp)
    total = il + ir
    if not (total > 0) or (el + er) > 1e-9 * total:
        sh.count("oracle_inconclusive")
        return out
    lib_total = getattr(grid, "intensity_of_jumps", None)
    if lib_total is not None:
        sh.count("evaluations")
        if not core.close(lib_total, total, rtol=1e-8):
            out.append((f"C13:promise:probability:total-jump-mass-differs-from-density-quadrature:{ctx.dcls}{ctx.model_cls}",
                        f"intensity_of_jumps = {lib_total!r}, quadrature of the density over |x| > h/2 gives {total!r}", None))
    ax = snap["axes"][0]
    o = snap["origin"][0]
    shares = []
    for j, (x, y) in enumerate(zip(ax, ax[1:])):
        if j == o - 1 or j == o or not (x < y):   # the two gaps touching the origin; a non-gap is reported on the state
            shares.append(None)
            continue
        sh.count("evaluations")
        v, e = O.integrate_density(nu, float(x), float(y), extra_splits=sp)
        if e > 1e-9 * total:
            sh.count("oracle_inconclusive")
            shares.append(None)
            continue
        s = v / total
        shares.append(s)
        # both end points come from root searches with xtol 1e-10: the share moves by density * 1e-10 / total per end point
        slack = SLACK_STEP + 4e-10 * max(float(nu(float(x))), float(nu(float(y)))) / total
        if s > pmin + slack:
            side = "left" if y <= 0 else "right"
            out.append((f"C13:promise:probability:step-carries-more-than-the-requested-share:{side}:{ctx.dcls}{ctx.model_cls}",
                        f"gap [{x!r}, {y!r}] carries {s:.8g} of the jump mass, requested at most {pmin}",
                        {"axis": ax.tolist(), "shares": shares}))
        elif abs(s - pmin) <= slack:
            sh.count("probability_steps_with_exactly_the_requested_share")
        else:
            sh.count("probability_steps_below_the_requested_share")
    if (case.get("model") or {}).get("family") == "hem" and not case["model"].get("exp") and not case["model"]["params"] \
            and case["dim"] == 1 and not case.get("hist"):
        sh.sample({"sub": "probability-step shares", "pmin": pmin, "h": h, "axis": ax.tolist(), "shares": shares})
    return out


def _edge_invariants(sh, ctx, old, new, expected_mid, nrefine):
    out = []
    comp, dcls = ctx.component, ctx.dcls
    tag = f"refinement {nrefine}"
    sh.count("evaluations")
    if not (new["h"] == old["h"] / 2 or core.close(new["h"], old["h"] / 2, rtol=1e-15)):
        out.append((f"C13:refine:{comp}:h-not-halved:{dcls}", f"{tag}: h {old['h']!r} -> {new['h']!r}", None))
    if new["origin"] != [2 * v for v in old["origin"]]:
        out.append((f"C13:refine:{comp}:origin-index-not-doubled:{dcls}", f"{tag}: origin {old['origin']} -> {new['origin']}", None))
    if new["truncations"] != old["truncations"]:
        out.append((f"C13:refine:{comp}:truncations-changed:{dcls}",
                    f"{tag}: truncations {old['truncations']} -> {new['truncations']}", None))
    if len(new["axes"]) != len(old["axes"]):
        out.append((f"C13:refine:{comp}:number-of-axes-changed:{dcls}", f"{tag}: {len(old['axes'])} -> {len(new['axes'])}", None))
        return out
    for k, (a, b) in enumerate(zip(old["axes"], new["axes"])):
        sh.count("evaluations")
        where = f"{tag}, axis {k}"
        if b.size != 2 * a.size - 1:
            twice = b.size == 4 * a.size - 3
            cls = "axis-refined-twice" if twice else "axis-length-is-not-2n-1"
            out.append((f"C13:refine:{comp}:{cls}:{dcls}", f"{where}: {a.size} states -> {b.size} states", None))
            continue
        if not np.array_equal(b[0::2], a):
            j = int(np.argmax(b[0::2] != a))
            out.append((f"C13:refine:{comp}:old-state-not-at-twice-its-index:{dcls}",
                        f"{where}: old state {a[j]!r} at index {j}, new axis holds {b[2 * j]!r} at index {2 * j}",
                        {"old": a.tolist(), "new": b.tolist()}))
            continue
        ins = b[1::2]
        sh.count("evaluations", int(ins.size))
        inside = ((ins > a[:-1]) & (ins < a[1:])) | ~(a[:-1] < a[1:])  # a gap that is not one is reported on the state
        if not np.all(inside):
            j = int(np.argmax(~inside))
            out.append((f"C13:refine:{comp}:new-state-not-strictly-inside-its-gap:{dcls}",
                        f"{where}: new state {ins[j]!r} for the gap ({a[j]!r}, {a[j + 1]!r})", {"old": a.tolist(), "new": b.tolist()}))
        exp = expected_mid[k]
        for j, m in enumerate(exp):
            if isinstance(m, str):
                continue
            if not (ins[j] == m or core.close(ins[j], m, rtol=1e-13, atol=1e-300)):
                at_origin = "gap-at-origin" if (a[j] == 0.0 or a[j + 1] == 0.0) else "gap-away-from-origin"
                out.append((f"C13:refine:{comp}:new-state-is-not-the-grids-middle-of-the-gap:{at_origin}:{dcls}",
                            f"{where}: inserted {ins[j]!r} into ({a[j]!r}, {a[j + 1]!r}), the old grid's middle() is {m!r}",
                            {"old": a.tolist(), "new": b.tolist()}))
                break
    # shared / equal axes stay equal
    n = len(old["axes"])
    for i in range(n):
        for j in range(i + 1, n):
            if np.array_equal(old["axes"][i], old["axes"][j]):
                sh.count("evaluations")
                if not np.array_equal(new["axes"][i], new["axes"][j]):
                    out.append((f"C13:refine:{comp}:equal-axes-diverge:{dcls}",
                                f"{tag}: axes {i} and {j} were equal before refine() and differ after", None))
    return out


# ----------------------------------------------------------------------------------------------------------------------
# one case
# ----------------------------------------------------------------------------------------------------------------------

def check_case(sh, case):
    if case["sub"] == "time":
        return _sub_time(sh, case)
    if case["sub"] == "mhist":
        return _sub_mhist(sh, case)
    if case["grid"].get("h", 1.0) <= 1e-5:
        # small h, y > 1: scipy's quad warns ("slowly convergent") on the density oracle although its error estimate, the
        # only thing the verdicts rely on, is below the tolerance: the warnings are counted instead of printed
        import warnings

        from scipy.integrate import IntegrationWarning

        with warnings.catch_warnings(record=True) as caught:
            warnings.simplefilter("always", IntegrationWarning)
            _sub_grid(sh, case)
        n = sum(1 for w in caught if issubclass(w.category, IntegrationWarning))
        if n:
            sh.count("oracle_quadrature_warnings_at_small_h", n)
        return None
    return _sub_grid(sh, case)


def _model_cls(case):
    m = case.get("model")
    if m is not None:
        lab = m["family"]
        if m["family"] == "cgmy":
            lab += f":y={m['params']['y']}"
        return ":" + lab
    cm = case.get("cmodel")
    if cm is not None:
        return ":" + "+".join(cm["margins"])
    return ""


def _prepare(sh, case, model, splits=None, keys=None, memo=None, l_ref=None):
    """Context of ONE constructor call on `model` in its current state: component / input classes for the keys, the
    margins' measures, the memoised density oracle, the promise. Returns (ctx, None) or (None, reason) when the spec is
    outside the alphabet for this model."""
    g = case["grid"]
    ctx = _Ctx()
    ctx.component = _component(g)
    ctx.dcls = f"d{case['dim']}" + (f":{case['wrap']}-model" if case.get("wrap") else "")
    ctx.model_cls = _model_cls(case)
    ctx.side_cls = {}
    ctx.nus = _margin_measures(case, model)
    ctx.tails = _Tails(ctx.nus, g["h"], splits, keys, memo)
    ctx.promise = _promise(case)
    ctx.credit_levels = None
    ctx.credit_cls = ""
    sh.cls(f"constructor:{ctx.component}")
    sh.cls(f"dimension:{case['dim']}")
    if case.get("wrap"):
        sh.cls(f"model-wrapper:{case['wrap']}")
    if case.get("cmodel") is not None:
        sh.cls("model:copula:" + case["cmodel"]["copula"]["kind"])
    elif case.get("model") is not None:
        sh.cls("model:" + ("exp-" if case["model"].get("exp") else "") + case["model"]["family"]
               + (":reinit" if case["model"].get("via") == "reinit" else ""))
    else:
        sh.cls("model:none")

    if ctx.promise.get("tail"):
        p, h = ctx.promise["tail"]
        for side in ("left", "right"):
            c = _bound_class(ctx.tails, h, p, side)
            ctx.side_cls[side] = f":{side}-{c}"
            sh.cls(f"{ctx.component}:{side}-{c}")
        for k in range(len(ctx.nus)):
            c = _balance_class(ctx.tails, k)
            if c:
                sh.cls(f"one-sided-masses:{c}")
                if c != "unbalanced":
                    sh.count("grids_for_a_margin_with_" + c.replace(":", "_").replace("-", "_") + "_one_sided_masses")

    if g["kind"] == "credit":
        p_, h_ = 0.99999, g["h"]
        if "a_abs" in g:
            # absolute thresholds (histories): admissible iff -h > a > outermost left root, decided on the density
            levels = [float(x) for x in g["a_abs"]][: case["dim"]]
            if any(not (a < -h_) for a in levels) \
                    or any(all(f <= (1 - p_) for f, _ in ctx.tails.all(a, "left")) for a in levels):
                sh.count("skipped_credit_threshold_outside_(l,-h)")
                return None, "skipped-credit"
            l = l_ref
        else:
            # thresholds as the alphabet builder computes them; the constructor's formula needs l < a < -h
            from rpylib.grid.spatial import compute_truncation

            try:
                l, _ = compute_truncation(model=model, h=g["h"])
            except Exception as e:
                if isinstance(e, ValueError) and _refusable(ctx):
                    sh.count("constructor_refuses_arguments_without_well_formed_grid")
                    sh.nontriv()
                    return None, "refused-" + "".join(sorted(ctx.side_cls.values()))
                sh.violation(f"C13:state:{ctx.component}:compute-truncation-raises:{type(e).__name__}:{ctx.dcls}",
                             f"compute_truncation(model, h={g['h']}): {type(e).__name__}: {e}", None)
                return None, ("raises", type(e).__name__)
            fr = g["a_frac"]
            frs = list(fr) if isinstance(fr, (list, tuple)) else [fr] * case["dim"]
            levels = [float(f * l) for f in frs]
            if any(not (l < a < -g["h"]) for a in levels):
                sh.count("skipped_credit_threshold_outside_(l,-h)")
                return None, "skipped-credit"
        ctx.credit_levels = levels
        if g.get("symmetric", True) and case["dim"] > 1:
            if l is None:
                ctx.credit_cls = ":mirror-point-unclassified"
            else:
                # does a mirror point -a+eps (constructor's eps) lie at or beyond the outermost right root? (density)
                mirror = max(-a + min(abs(l - a) / 2, abs(a + h_) / 2) for a in levels)
                beyond = all(f <= (1 - p_) for f, _ in ctx.tails.all(mirror, "right"))
                ctx.credit_cls = ":mirror-point-beyond-right-root" if beyond else ":mirror-point-inside-right-root"
            sh.cls(f"{ctx.component}{ctx.credit_cls[1:] and ':' + ctx.credit_cls[1:]}")
    return ctx, None


def _refusable(ctx):
    return any(c.endswith("bound-within-h") or c.endswith("bound-beyond-100") for c in ctx.side_cls.values()) \
        or ctx.credit_cls == ":mirror-point-beyond-right-root"


def _sub_grid(sh, case):
    g = case["grid"]
    model = _model_of(case)
    ctx, why = _prepare(sh, case, model)
    if ctx is None:
        sh.outcome((why, _component(g)) if isinstance(why, str) else ("raises", _component(g), why[1]))
        return

    state0 = {}

    def build(hist):
        grid = _construct(case, _model_of(case))
        trace = [_snapshot(grid)]
        extra = {"grid0_promises": None}
        if not hist:
            extra["grid"] = grid
        for _ in hist:
            exp = _own_middles(grid)
            coord = grid.origin_coordinate
            before = _origin_indices(grid)
            grid.refine()
            snap = _snapshot(grid)
            snap["expected_mid"] = exp
            snap["aliased"] = (coord is grid.origin_coordinate) and _safe_indices(coord) != before
            trace.append(snap)
        return grid, trace

    def menu(state, hist):
        return ["refine"]

    def canon(state, hist):
        _, trace = state
        s = trace[-1]
        return core.digest([[a.tolist() for a in s["axes"]], s["h"], s["origin"], s["truncations"]])

    def invariant(state, hist, ev):
        grid, trace = state
        snap = trace[-1]
        found = []
        found += _state_invariants(sh, ctx, snap, len(hist))
        if ev is None:
            state0["snap"] = snap
            found += _promise_invariants(sh, ctx, snap, case, grid)
            if g["kind"] == "fixed" and snap["axes"][0].size != g["n"]:
                sh.count("observation_fixed_nb_of_points_returns_n_plus_1_points")
        else:
            found += _edge_invariants(sh, ctx, trace[-2], snap, snap["expected_mid"], len(hist))
            if snap.get("aliased"):
                sh.count("observation_origin_coordinate_object_mutated_in_place")
            if g["kind"] == "probability":
                found += _split_invariants(sh, ctx, trace[-2], snap, len(hist))
        for key, what, detail in found[1:]:
            sh.violation(key, what, {"history": hist, "detail": detail})
        return found[0] if found else None

    refusable = _refusable(ctx)
    try:
        s, t, d = core.bfs(sh, build, menu, canon, invariant, case["depth"])
    except Exception as e:
        import traceback

        # ValueError is the library's argument-validation exception: a constructor that REFUSES arguments for which no
        # well-formed grid with the promised end points exists (truncation bound within h of the origin) does not return a
        # malformed grid. Accepted for that input class only, and only when raised by the constructor (no state built yet).
        if isinstance(e, ValueError) and refusable and "snap" not in state0:
            sh.count("constructor_refuses_arguments_without_well_formed_grid")
            sh.outcome(("refused", ctx.component, str(e)[:40]))
            sh.nontriv()
            return
        sh.violation(f"C13:state:{ctx.component}:constructor-or-refine-raises:{type(e).__name__}:{ctx.dcls}"
                     f"{ctx.side_cls.get('left', '')}{ctx.side_cls.get('right', '')}",
                     f"{type(e).__name__}: {e}", {"traceback": traceback.format_exc(limit=6)})
        sh.outcome(("raises", ctx.component, type(e).__name__))
        return
    try:
        for key, what, detail in _twin_invariants(sh, ctx, case):
            sh.violation(key, what, detail)
    except Exception as e:
        import traceback

        sh.violation(f"C13:twin:{ctx.component}:construct-copy-or-refine-raises:{type(e).__name__}:{ctx.dcls}",
                     f"{type(e).__name__}: {e}", {"traceback": traceback.format_exc(limit=6)})
    sh.traces += 1
    if t > 0:
        sh.nontriv()
    snap = state0.get("snap")
    sh.outcome((ctx.component, case["dim"], s, [a.tolist() for a in snap["axes"]] if snap else None))
    if s < case["depth"] + 1:
        sh.count("grids_whose_refinement_reaches_a_fixed_point")  # e.g. a one-point axis
    if snap is not None and case.get("model") and case["model"]["family"] == "vg" and not case["model"]["params"] \
            and not case["model"].get("exp"):
        sh.sample({"sub": "grid", "constructor": ctx.component, "spec": g, "model": A.model_label(case["model"]),
                   "axes_at_depth_0": [a.tolist() for a in snap["axes"]], "h": snap["h"], "origin": snap["origin"],
                   "truncations": snap["truncations"], "states": s, "transitions": t})


def _same_snap(a, b, rtol=0.0):
    """None when the two snapshots describe the same grid, else a short description of the first difference."""
    if len(a["axes"]) != len(b["axes"]):
        return f"{len(a['axes'])} axes vs {len(b['axes'])}"
    for k, (x, y) in enumerate(zip(a["axes"], b["axes"])):
        if x.shape != y.shape:
            return f"axis {k}: {x.size} states vs {y.size}"
        same = np.array_equal(x, y) if rtol == 0.0 else bool(np.allclose(x, y, rtol=rtol, atol=1e-13))
        if not same:
            j = int(np.argmax(x != y))
            return f"axis {k}, index {j}: {x[j]!r} vs {y[j]!r}"
    if a["h"] != b["h"]:
        return f"h {a['h']!r} vs {b['h']!r}"
    if a["origin"] != b["origin"]:
        return f"origin {a['origin']} vs {b['origin']}"
    ta, tb = a["truncations"], b["truncations"]
    if (ta is None) != (tb is None) or (ta is not None and len(ta) != len(tb)):
        return f"truncations {ta} vs {tb}"
    if ta is not None:
        fa = np.array(ta, dtype=float)
        fb = np.array(tb, dtype=float)
        if not (np.array_equal(fa, fb) if rtol == 0.0 else np.allclose(fa, fb, rtol=rtol, atol=1e-13)):
            return f"truncations {ta} vs {tb}"
    return None


def _twin_invariants(sh, ctx, case):
    """Several grids alive at once: two grids built from the SAME arguments (and the same model object) and a deep copy
    of the first. A constructor returns the same grid for the same arguments; refine() of one grid changes that grid only
    (no state shared through class attributes, interned coordinates, cached arrays) and acts on a copy as on the original."""
    import copy

    out = []
    comp, dcls = ctx.component, ctx.dcls
    model = _model_of(case)
    g1 = _construct(case, model)
    s1 = _snapshot(g1)
    g2 = _construct(case, model)
    s2 = _snapshot(g2)
    sh.count("evaluations")
    d = _same_snap(s1, s2)
    if d:
        out.append((f"C13:twin:{comp}:second-grid-from-the-same-arguments-differs:{dcls}",
                    f"two constructor calls with the same arguments and model object: {d}", None))
    g3 = copy.deepcopy(g1)
    sh.count("evaluations")
    d = _same_snap(s1, _snapshot(g3))
    if d:
        out.append((f"C13:twin:{comp}:deep-copy-differs-from-the-grid:{dcls}", d, None))
    names = {1: "the first grid", 2: "the grid built after it from the same arguments", 3: "the deep copy of the first grid"}
    grids = {1: g1, 2: g2, 3: g3}
    expect = {1: s1, 2: s2, 3: s1}
    ref = None
    # refine in the order first / copy / last built / first again; after every call all three grids are compared
    for step, i in enumerate((1, 3, 2, 1)):
        grids[i].refine()
        now = _snapshot(grids[i])
        if step < 3:
            if ref is None:
                ref = now
            sh.count("evaluations")
            d = _same_snap(ref, now)
            if d and not _same_snap(s1, s2):
                out.append((f"C13:twin:{comp}:refinement-depends-on-other-grids-refined-before:{dcls}",
                            f"refine() of {names[i]} differs from refine() of {names[1]}: {d}", None))
        expect[i] = now
        for j in (1, 2, 3):
            if j == i:
                continue
            sh.count("evaluations")
            d = _same_snap(expect[j], _snapshot(grids[j]))
            if d:
                out.append((f"C13:twin:{comp}:refining-one-grid-changes-another-grid:{dcls}",
                            f"refine() of {names[i]} (call {step + 1}) changed {names[j]}: {d}", None))
    sh.count("twin_grids_compared")
    out += _copies_invariants(sh, ctx, case, model, s1, ref)
    out += _forms_invariants(sh, ctx, case, model, s1, ref)
    return out


def _copies_invariants(sh, ctx, case, model, s1, ref):
    """Serialised copies (pickle and dill round trips, what a process pool does to a grid): equal to the grid at construction,
    refine() acts on them as on the original and on nothing else. (copy.copy is outside: a shallow copy shares the list of
    axes with its original by definition.)"""
    import pickle

    out = []
    comp, dcls = ctx.component, ctx.dcls
    routes = [("pickle", lambda g: pickle.loads(pickle.dumps(g)))]
    try:
        import dill

        routes.append(("dill", lambda g: dill.loads(dill.dumps(g))))
    except ImportError:
        sh.count("dill_not_installed")
    g0 = _construct(case, model)
    copies = []
    for name, f in routes:
        try:
            c = f(g0)
        except Exception as e:
            if name == "pickle" and len(routes) > 1:
                # the library's pools serialise with dill: a grid that plain pickle cannot take (e.g. it holds a closure)
                # is counted; only a failing dill round trip is an alarm
                sh.count("plain_pickle_round_trip_unavailable")
                continue
            out.append((f"C13:twin:{comp}:{name}-round-trip-raises:{type(e).__name__}:{dcls}", f"{type(e).__name__}: {e}", None))
            continue
        sh.count("evaluations")
        d = _same_snap(s1, _snapshot(c))
        if d:
            out.append((f"C13:twin:{comp}:{name}-round-trip-differs-from-the-grid:{dcls}", d, None))
        copies.append((name, c))
    for name, c in copies:
        c.refine()
        sh.count("evaluations", 2)
        d = _same_snap(ref, _snapshot(c))
        if d:
            out.append((f"C13:twin:{comp}:refinement-of-a-{name}-round-trip-differs:{dcls}",
                        f"refine() of the {name} copy vs refine() of the grid: {d}", None))
        d = _same_snap(s1, _snapshot(g0))
        if d:
            out.append((f"C13:twin:{comp}:refining-one-grid-changes-another-grid:{dcls}",
                        f"refine() of the {name} copy changed the original: {d}", None))
    g0.refine()
    sh.count("evaluations")
    d = _same_snap(ref, _snapshot(g0))
    if d:
        out.append((f"C13:twin:{comp}:refinement-depends-on-other-grids-refined-before:{dcls}",
                    f"refine() of a grid after its serialised copies were refined: {d}", None))
    sh.count("serialised_copies_compared", len(copies))
    return out


# ----------------------------------------------------------------------------------------------------------------------
# argument forms: the same arguments handed over as numpy scalars / positionally / as other sequence types
# ----------------------------------------------------------------------------------------------------------------------

def _usual_args(ctx, case, model):
    """(callable, keyword arguments in signature order) of the constructor call of the case, in the usual form (Python
    floats / ints, keywords, tuples for bounds, lists for thresholds)."""
    from rpylib.grid import spatial as S

    g, dim, kind = case["grid"], case["dim"], case["grid"]["kind"]
    if kind == "raw":
        axes = [np.array(a, dtype=float) for a in RAW_AXES[g["name"]]]
        return S.CTMCGrid, {"h": g["h"], "origin_coordinate": axes[0].tolist().index(0.0), "axes": axes}
    if kind == "uniform":
        return S.CTMCUniformGrid, {"h": g["h"], "model": model, "truncation_probability": g["p"]}
    if kind == "fixed":
        return S.CTMCUniformGrid.create_from_fixed_nb_of_points, {"h": g["h"], "nb_of_points": g["n"], "dimension": dim}
    if kind == "geometric":
        return S.CTMCGridGeometric, {"h": g["h"], "model": model, "nb_of_points_on_each_side": g["n_side"],
                                     "truncation_probability": g["p"]}
    if kind == "geometric-bounds":
        return S.CTMCGridGeometric.create_with_bounds, {"h": g["h"], "truncations": tuple(float(x) for x in g["bounds"]),
                                                        "dimension": dim, "nb_of_points_on_each_side": g["n_side"]}
    if kind == "probability":
        return S.CTMCGridProbabilityStep, {"h": g["h"], "model": model, "minimum_probability_step": g["pmin"], "dimension": dim}
    if kind == "credit":
        lv = [float(a) for a in ctx.credit_levels]
        return S.CTMCCredit, {"h": g["h"], "level_a": lv[0] if dim == 1 else lv, "model": model,
                              "symmetric_grid": bool(g.get("symmetric", True))}
    raise ValueError(kind)


def _is_number(v):
    return isinstance(v, (bool, int, float)) and not isinstance(v, np.generic)


def _to_numpy_scalar(v):
    if isinstance(v, bool):
        return np.bool_(v)
    if isinstance(v, int):
        return np.int64(v)
    if isinstance(v, float):
        return np.float64(v)
    if isinstance(v, (list, tuple)) and v and all(_is_number(x) for x in v):
        return type(v)(_to_numpy_scalar(x) for x in v)
    return v


def _to_array(v):
    if isinstance(v, (list, tuple)) and v and all(_is_number(x) for x in v):
        return np.array(v, dtype=float)
    return v


def _swap_sequence(v):
    if isinstance(v, (list, tuple)) and v and all(_is_number(x) for x in v):
        return tuple(v) if isinstance(v, list) else list(v)
    return v


def _int_bool(v):
    return int(v) if isinstance(v, bool) else v


def _integral_as_int(v):
    if isinstance(v, float) and v.is_integer():
        return int(v)
    if isinstance(v, (list, tuple)) and v and all(isinstance(x, float) and x.is_integer() for x in v):
        return type(v)(int(x) for x in v)
    return v


def _integral_as_numpy_int(v):
    if isinstance(v, float) and v.is_integer():
        return np.int64(v)
    if isinstance(v, (list, tuple)) and v and all(isinstance(x, float) and x.is_integer() for x in v):
        return type(v)(np.int64(x) for x in v)
    return v


FORMS = [
    # (name, transformation of every argument value, may the constructor reject the form?)
    ("positional", None, False),                 # the same values, positionally in signature order
    ("numpy-scalars", _to_numpy_scalar, False),  # np.float64 / np.int64 / np.bool_ (also inside the sequences)
    ("sequences-as-arrays", _to_array, False),   # bounds / thresholds as a float ndarray
    ("sequences-swapped", _swap_sequence, False),  # list <-> tuple
    ("flags-as-int", _int_bool, False),          # symmetric_grid = 1 / 0
    # integral h / bounds / thresholds as Python ints and as numpy ints, every constructor. A constructor may REJECT an
    # integer (TypeError / ValueError raised by the constructor call: counted, `integer_form_rejected_by_the_constructor`;
    # uniform, geometric and credit do so on the pinned tree); a grid that is returned must satisfy the state invariants
    # and be the grid of the float form
    ("integral-floats-as-ints", _integral_as_int, True),
    ("integral-floats-as-numpy-ints", _integral_as_numpy_int, True),
]


def _forms_invariants(sh, ctx, case, model, s1, ref):
    """The constructor called with each legal FORM of the same arguments (forms the pinned tree accepts: listed in FORMS;
    integer h, integer-dtype or float32 axes, tuples of axes, a scalar threshold for a copula model are rejected by it with
    TypeError / ValueError and are outside the alphabet) returns the same grid, exactly, and refines to the same grid;
    array / list arguments are not modified by the constructor or by refine(), and (bounds, thresholds: the constructor
    promises grids built from their VALUES) modifying them afterwards does not change the grid."""
    out = []
    comp, dcls = ctx.component, ctx.dcls
    fn, usual0 = _usual_args(ctx, case, model)

    def sig(v):
        if isinstance(v, (list, tuple)):
            return (type(v).__name__, tuple(type(x).__name__ for x in v))
        return type(v).__name__

    def own(v, k):
        if k == "axes":
            return [np.array(a, copy=True) for a in v]   # a grid keeps the arrays it is given: every call gets its own
        return list(v) if isinstance(v, list) else v

    for form, tr, rejectable in FORMS:
        usual = {k: own(v, k) for k, v in usual0.items()}
        given = {k: (v if (tr is None or k in ("model", "axes")) else tr(v)) for k, v in usual.items()}
        if tr is not None and all(sig(given[k]) == sig(usual[k]) for k in usual):
            continue   # the form does not differ from the usual one for this constructor
        args, kwargs = (list(given.values()), {}) if tr is None else ([], given)
        seqs = {k: v for k, v in given.items() if isinstance(v, (list, np.ndarray))}
        before = {k: ([np.array(a, copy=True) for a in v] if k == "axes" else np.array(v, dtype=float, copy=True))
                  for k, v in seqs.items()}
        arrays = list(given["axes"]) if "axes" in given else []   # the array objects (refine() re-binds the list's entries)
        sh.cls(f"argument-form:{form}")
        sh.count("evaluations")
        stage = "constructor"
        try:
            grid = fn(*args, **kwargs)
            stage = "built"
            snap_f = _snapshot(grid)
            # the state invariants on the grid of this form (strictly increasing, 0 at the origin index, -h / +h next to it)
            bad = _state_invariants(sh, ctx, snap_f, 0)
            for key, what, det in bad:
                parts = key.split(":")
                parts[1] = "forms-" + parts[1]
                out.append((":".join(parts) + f":{form}", f"arguments as {form}: {what}",
                            {"arguments": {k: repr(v) for k, v in given.items() if k != "model"}, "detail": det}))
            if bad:
                continue
            d = _same_snap(s1, snap_f)
            if d:
                out.append((f"C13:forms:{comp}:grid-differs-from-that-of-the-usual-argument-form:{form}:{dcls}",
                            f"arguments as {form}: {d}", {"arguments": {k: repr(v) for k, v in given.items() if k != "model"}}))
                continue
            grid.refine()
            sh.count("evaluations")
            d = _same_snap(ref, _snapshot(grid))
            if d:
                out.append((f"C13:forms:{comp}:refinement-differs-from-that-of-the-usual-argument-form:{form}:{dcls}",
                            f"arguments as {form}, after refine(): {d}", None))
                continue
            # the caller's sequences are left as they were
            for k, v in seqs.items():
                sh.count("evaluations")
                if k == "axes":
                    changed = any(not np.array_equal(x, y) for x, y in zip(arrays, before[k]))
                else:
                    changed = not np.array_equal(np.array(v, dtype=float), before[k])
                if changed:
                    out.append((f"C13:forms:{comp}:callers-argument-modified:{k}:{form}:{dcls}",
                                f"argument {k} passed as {type(v).__name__} was modified by the constructor or refine()", None))
            # values, not references: bounds / thresholds overwritten afterwards do not move the grid
            touched = False
            for k, v in seqs.items():
                if k == "axes":
                    continue
                for i in range(len(v)):
                    v[i] = -7.0
                touched = True
            if touched:
                sh.count("evaluations")
                d = _same_snap(ref, _snapshot(grid))
                if not d:
                    grid.refine()
                    g2 = fn(**{k: own(v, k) for k, v in usual0.items()})
                    g2.refine()
                    g2.refine()
                    d = _same_snap(_snapshot(g2), _snapshot(grid))
                if d:
                    out.append((f"C13:forms:{comp}:grid-follows-the-callers-argument-overwritten-afterwards:{form}:{dcls}",
                                f"arguments as {form}; after overwriting the caller's sequence: {d}", None))
        except Exception as e:
            import traceback

            if rejectable and stage == "constructor" and isinstance(e, (TypeError, ValueError)):
                sh.count("integer_form_rejected_by_the_constructor")
                sh.cls(f"argument-form:{form}:rejected-by:{comp}")
                continue
            out.append((f"C13:forms:{comp}:constructor-or-refine-raises-for-argument-form:{form}:{type(e).__name__}:{dcls}",
                        f"arguments as {form}: {type(e).__name__}: {e}", {"traceback": traceback.format_exc(limit=5)}))
        sh.count("argument_forms_compared")
    return out


# ----------------------------------------------------------------------------------------------------------------------
# histories on ONE model object: build a grid, change the model's measure in place, build again
# ----------------------------------------------------------------------------------------------------------------------

ALT_PARAMS = {"hem": A.HEM_PARAMS[1], "merton": A.MERTON_PARAMS[1], "vg": A.VG_PARAMS[1]}

# mutations of the model between two constructor calls (1-d model | copula model); every one goes through public API
MUT_1D = ["again", "refine-previous", "other-h", "set-params", "truncate", "other-object", "deepcopy-set-params",
          "deepcopy-truncate"]
MUT_ND = ["again", "refine-previous", "other-h", "set-params-first-margin", "set-params-last-margin", "truncate",
          "truncate-last-margin", "other-object", "deepcopy-truncate"]
KINDS_1D = ["uniform", "geometric", "credit", "probability"]
KINDS_ND = ["uniform", "geometric", "credit-symmetric", "credit-asymmetric"]
KINDS_WRAPPED = ["uniform", "geometric"]   # CTMCCredit / CTMCGridProbabilityStep are not declared for SDE models
CREDIT_LEVELS = [-1.25, -1.5, -1.75]       # thresholds of the histories, in units of h


def _alt_params(spec, version="alt"):
    """Parameter set number `version` ('alt' | 'donor') of the family of `spec`, different from the spec's own."""
    fam = spec["family"]
    if version == "donor":
        return dict(A.DONOR_PARAMS[fam])
    if spec.get("alt_params"):
        return dict(spec["alt_params"])
    if fam == "cgmy":
        alt = {"c": 0.5, "g": 6.0, "m": 6.0, "y": spec["params"].get("y", 0.5)}
    else:
        alt = dict(ALT_PARAMS[fam])
    if all(spec["params"].get(k) == v for k, v in alt.items()):
        alt = dict(A.DONOR_PARAMS[fam])
    return alt


def _hist_menus(case):
    nd = case.get("cmodel") is not None
    kinds = KINDS_WRAPPED if case.get("wrap") else (KINDS_ND if nd else KINDS_1D)
    return (MUT_ND if nd else MUT_1D), kinds


def _hist_gspec(kind, h, p, dim):
    if kind == "uniform":
        return {"kind": "uniform", "h": h, "p": p}
    if kind == "geometric":
        return {"kind": "geometric", "h": h, "n_side": 3, "p": p}
    if kind == "probability":
        return {"kind": "probability", "h": h, "pmin": 0.2}
    if kind.startswith("credit"):
        return {"kind": "credit", "h": h, "a_abs": [m * h for m in CREDIT_LEVELS[:dim]],
                "symmetric": kind != "credit-asymmetric"}
    raise ValueError(kind)


def _margin_spec(case, k):
    if case.get("model") is not None:
        return case["model"]
    ms = dict(MARGINS[case["cmodel"]["margins"][k]])
    if case["cmodel"].get("exp"):
        ms = dict(ms, exp=True, r=0.02, d=0.0, spot=100.0)
    return ms


def _set_params(margin_model, params):
    """Parameters re-assigned attribute by attribute on the model's OWN parameter object, then initialisation()."""
    par = getattr(margin_model, "levy_model", margin_model).parameters
    for n in sorted(params):
        setattr(par, n, params[n])
    par.initialisation()


class _Hist:
    """One model object and the description of what was done to its measure (per margin: parameter version, cuts)."""

    def __init__(self, case):
        self.case = case
        self.model = _model_of(case)
        n = len(_margin_models(self.model))
        self.version = [None] * n
        self.cuts = [[] for _ in range(n)]
        self.prev = None        # the grid built at the previous step (None: refused / skipped)

    def keys(self):
        return [(k, self.version[k], tuple(self.cuts[k])) for k in range(len(self.version))]

    def splits(self):
        return [tuple(x for c in cs for x in c) for cs in self.cuts]

    def fresh(self):
        """A NEW model object built directly in the state this one was brought to."""
        m = _model_of(self.case, alt=list(self.version))
        for k, mm in enumerate(_margin_models(m)):
            for c in self.cuts[k]:
                mm.truncate_levy_measure(c)
        return m

    def _next_version(self, k):
        self.version[k] = "alt" if self.version[k] != "alt" else "donor"
        return _alt_params(_margin_spec(self.case, k), self.version[k])

    def apply(self, mut):
        """Returns False when the mutation cannot be applied (no previous grid to take the cut from)."""
        import copy

        if mut.startswith("deepcopy-"):
            self.model = copy.deepcopy(self.model)
            mut = mut[len("deepcopy-"):]
        margins = _margin_models(self.model)
        if mut in ("new", "again", "other-object", "other-h"):
            return True
        if mut == "refine-previous":
            if self.prev is None:
                return False
            self.prev.refine()
            return True
        if mut.startswith("set-params"):
            k = len(margins) - 1 if mut.endswith("last-margin") else 0
            _set_params(margins[k], self._next_version(k))
            return True
        if mut.startswith("truncate"):
            if self.prev is None:
                return False
            tr = [(float(t[0]), float(t[1])) for t in self.prev.truncations]
            cuts = [(0.6 * l, 0.7 * r) for l, r in tr]
            if mut == "truncate-last-margin":
                k = len(margins) - 1
                margins[k].truncate_levy_measure(cuts[k])
                self.cuts[k].append(cuts[k])
            else:
                # the model's own method: a pair for a 1-d model, one pair per margin for a copula model
                self.model.truncate_levy_measure(cuts[0] if self.case.get("cmodel") is None else cuts)
                for k in range(len(margins)):
                    self.cuts[k].append(cuts[k])
            return True
        raise ValueError(mut)


def _hist_key(key, mut):
    parts = key.split(":")
    parts[1] = "history-" + parts[1]
    return ":".join(parts) + ":after-" + mut


def _hist_step(sh, case, hs, model, keys, splits, fresh_model, kind, mut, word, memo, fresh_memo):
    """One constructor call inside a history: the grid built from `model` (in the state described by keys / splits) is
    judged exactly as a grid built from a new model (state invariants, promises on the CURRENT measure by quadrature of
    the density) and compared with the grid built from `fresh_model()`, a new model object in the same state."""
    import traceback

    g = _hist_gspec(kind, case["h"], case["p"], case["dim"])
    pc = {"sub": "grid", "dim": case["dim"], "grid": g, "model": case.get("model"), "cmodel": case.get("cmodel"),
          "wrap": case.get("wrap"), "hist": True}
    fkey = (repr(keys), repr(sorted(g.items())))
    if fkey not in fresh_memo:
        try:
            fresh_memo[fkey] = _snapshot(_construct(pc, fresh_model()))
        except Exception as e:
            fresh_memo[fkey] = repr(e)
    fsnap = fresh_memo[fkey]
    l_ref = float(fsnap["truncations"][0][0]) if isinstance(fsnap, dict) and fsnap["truncations"] else None
    ctx, why = _prepare(sh, pc, model, splits=splits, keys=keys, memo=memo, l_ref=l_ref)
    if ctx is None:
        return None
    detail = {"history": [list(w) for w in word], "model_state": repr(keys)}
    try:
        grid = _construct(pc, model)
    except Exception as e:
        if isinstance(e, ValueError) and _refusable(ctx):
            sh.count("constructor_refuses_arguments_without_well_formed_grid")
            return None
        sh.violation(_hist_key(f"C13:state:{ctx.component}:constructor-raises:{type(e).__name__}:{ctx.dcls}"
                               f"{ctx.side_cls.get('left', '')}{ctx.side_cls.get('right', '')}", mut),
                     f"{type(e).__name__}: {e}", dict(detail, traceback=traceback.format_exc(limit=6)))
        return None
    snap = _snapshot(grid)
    found = _state_invariants(sh, ctx, snap, 0) + _promise_invariants(sh, ctx, snap, pc, grid)
    sh.count("evaluations")
    if isinstance(fsnap, dict):
        d = _same_snap(snap, fsnap, rtol=1e-9)
        if d:
            found.append((f"C13:fresh:{ctx.component}:grid-differs-from-that-of-a-new-model-with-the-same-measure:{ctx.dcls}",
                          f"grid from the re-used model vs grid from a new model object in the same state: {d}",
                          {"reused": [a.tolist() for a in snap["axes"]], "new": [a.tolist() for a in fsnap["axes"]]}))
    else:
        found.append((f"C13:fresh:{ctx.component}:constructor-accepts-the-reused-model-and-raises-for-a-new-one:{ctx.dcls}",
                      f"a new model object in the same state: {fsnap}", None))
    for key, what, det in found:
        sh.violation(_hist_key(key, mut), what, dict(detail, detail=det))
    sh.count("history_grids_checked")
    return grid


def _sub_mhist(sh, case):
    import itertools

    muts, kinds = _hist_menus(case)
    steps = [(m, k) for m in muts for k in kinds]
    memo, fresh_memo = {}, {}
    nwords = 0
    outcomes = []
    sh.cls("history-on-one-model-object")
    for tail in itertools.product(steps, repeat=case["depth"] - 1):
        word = [("new", case["first"])] + list(tail)
        hs = _Hist(case)
        nwords += 1
        ok = True
        for i, (mut, kind) in enumerate(word):
            if not hs.apply(mut):
                sh.count("history_cut_short_no_previous_grid")
                ok = False
                break
            sh.cls(f"history-mutation:{mut}")
            if mut == "other-object":
                # a SECOND model object of the same class with other parameters is used in between (same h, p, constructor)
                n = len(hs.version)
                other = _model_of(case, alt=["donor"] * n)
                _hist_step(sh, case, hs, other, [(k, "donor", ()) for k in range(n)], None,
                           lambda: _model_of(case, alt=["donor"] * n), kind, "other-object-itself", word[: i + 1], memo, fresh_memo)
            if mut == "other-h":
                # the SAME model object is used for a grid with another step in between (same p, constructor)
                _hist_step(sh, dict(case, h=case["h"] / 2), hs, hs.model, hs.keys(), hs.splits(), hs.fresh, kind,
                           "other-h-itself", word[: i + 1], memo, fresh_memo)
            grid = _hist_step(sh, case, hs, hs.model, hs.keys(), hs.splits(), hs.fresh, kind, mut, word[: i + 1], memo, fresh_memo)
            hs.prev = grid
            sh.transitions += 1 if i else 0
            sh.states += 1
        if ok:
            outcomes.append([float(x) for t in (hs.prev.truncations if hs.prev is not None else []) for x in t])
    sh.traces += nwords
    sh.count("history_words", nwords)
    sh.nontriv()
    sh.outcome(("mhist", case["first"], case["dim"], outcomes[:40]))


def _safe_indices(coord):
    try:
        return [int(v) for v in coord]
    except TypeError:
        return [int(getattr(coord, "value", coord))]


def _total_mass(ctx):
    """nu(|x| > h/2) at the construction step h by quadrature of the density (value, error), memoised on the context."""
    if getattr(ctx, "total_mass", None) is None:
        nu, h = ctx.nus[0], ctx.tails.h
        sp = tuple(ctx.tails.splits[0])
        il, el = O.integrate_density(nu, -math.inf, -h / 2, extra_splits=sp)
        ir, er = O.integrate_density(nu, h / 2, math.inf, extra_splits=sp)
        ctx.total_mass = (il + ir, el + er)
    return ctx.total_mass


def _split_invariants(sh, ctx, old, new, nrefine):
    """Probability-step grid: the state inserted into a gap [a, b] away from the origin is the grid's cell boundary, which
    CTMCGridProbabilityStep.middle documents as the point with equal probability to its left and right inside the gap.
    Oracle on the model's own density, no root search of the library involved: with G(x) = nu((a, x)) - nu((x, b))
    (increasing in x) the equal-probability point lies within tol of the inserted state iff G(ins - tol) <= 0 <= G(ins + tol);
    tol = SPLIT_REL * (b - a) + SPLIT_ABS, i.e. RELATIVE TO THE GAP for ordinary gaps. A violation is reported only when the
    sign is decided beyond the quadrature error estimate and beyond SPLIT_NOISE of the total jump mass."""
    out = []
    nu = ctx.nus[0]
    sp = tuple(ctx.tails.splits[0])
    total, etotal = _total_mass(ctx)
    if not (total > 0) or not math.isfinite(total) or etotal > 1e-9 * total:
        sh.count("oracle_inconclusive")
        return out
    a_ = old["axes"][0]
    b_ = new["axes"][0]
    if b_.size != 2 * a_.size - 1:
        return out
    for j in range(a_.size - 1):
        a, b, ins = float(a_[j]), float(a_[j + 1]), float(b_[2 * j + 1])
        if a == 0.0 or b == 0.0 or not (a < b):
            continue
        sh.count("evaluations")
        tol = SPLIT_REL * (b - a) + SPLIT_ABS
        lo_x, hi_x = max(a, ins - tol), min(b, ins + tol)
        if not (a <= ins <= b):
            continue   # reported by the strictly-inside invariant
        whole, ew = O.integrate_density(nu, a, b, extra_splits=sp)
        left_lo, e1 = O.integrate_density(nu, a, lo_x, extra_splits=sp)
        left_hi, e2 = O.integrate_density(nu, a, hi_x, extra_splits=sp)
        g_lo = 2 * left_lo - whole     # G(ins - tol): must be <= 0
        g_hi = 2 * left_hi - whole     # G(ins + tol): must be >= 0
        thr = (ew + 2 * max(e1, e2)) + SPLIT_NOISE * total
        if not math.isfinite(whole) or (ew + e1 + e2) > 1e-7 * abs(whole) + SPLIT_NOISE * total:
            sh.count("oracle_inconclusive")
            continue
        if g_lo > thr or g_hi < -thr:
            # locate the equal-probability point by bisection on the density (for the report only)
            lo, hi = a, b
            for _ in range(60):
                mid = 0.5 * (lo + hi)
                v, _e = O.integrate_density(nu, a, mid, extra_splits=sp)
                if 2 * v - whole > 0:
                    hi = mid
                else:
                    lo = mid
            ref = 0.5 * (lo + hi)
            at = "gap-narrower-than-1e-4" if (b - a) < 1e-4 else "gap-wider-than-1e-4"
            out.append((f"C13:refine:probability:new-state-is-not-the-equal-probability-point-of-the-gap:{at}:{ctx.dcls}"
                        f"{ctx.model_cls}",
                        f"refinement {nrefine}: inserted {ins!r} into ({a!r}, {b!r}); the point with equal jump probability on "
                        f"both sides (quadrature of the density) is {ref!r}: off by {abs(ins - ref):.3g} = "
                        f"{abs(ins - ref) / (b - a):.3g} of the gap (allowed {tol:.3g})",
                        {"gap": [a, b], "inserted": ins, "equal_probability_point": ref,
                         "mass_left_minus_right_at_inserted_minus_tol": g_lo, "at_inserted_plus_tol": g_hi,
                         "gap_mass": whole, "total_mass": total}))
            break
        sh.count("probability_middle_confirmed_as_equal_probability_point")
    return out


# ----------------------------------------------------------------------------------------------------------------------
# time axis
# ----------------------------------------------------------------------------------------------------------------------

def _sub_time(sh, case):
    from rpylib.grid.grid import Uniform1DGrid
    from rpylib.grid.time import TimeGrid

    cls = {"TimeGrid": TimeGrid, "Uniform1DGrid": Uniform1DGrid}[case["cls"]]
    start, end, num = case["start"], case["end"], case["num"]
    tg = cls(start, end, num)
    other = cls(start + 0.25, end + 1.0, num + 3)   # a second object of the class, built and read in between
    _ = [other[i] for i in range(len(other))]
    ax = np.array([tg[i] for i in range(len(tg))], dtype=float)
    sh.count("evaluations")
    sh.cls(f"constructor:{case['cls']}")
    name = case["cls"]
    if len(tg) != num or ax.size != num:
        sh.violation(f"C13:time:{name}:number-of-points-differs", f"{name}({start},{end},{num}) has {len(tg)} points", None)
    if not np.all(np.isfinite(ax)):
        sh.violation(f"C13:time:{name}:non-finite-point", f"{ax.tolist()}", None)
    elif not np.all(np.diff(ax) > 0):
        sh.violation(f"C13:time:{name}:not-strictly-increasing", f"{name}({start},{end},{num}) = {ax.tolist()[:8]}", None)
    if not (ax[0] == start and ax[-1] == end):
        sh.violation(f"C13:time:{name}:end-points-differ-from-start-end", f"end points ({ax[0]!r}, {ax[-1]!r}) for ({start}, {end})", None)
    if (float(getattr(tg, "start", start)), float(getattr(tg, "end", end))) != (float(ax[0]), float(ax[-1])):
        sh.violation(f"C13:time:{name}:reported-start-end-differ-from-end-points",
                     f"reports ({tg.start!r}, {tg.end!r}), axis ({ax[0]!r}, {ax[-1]!r})", None)
    if getattr(tg, "num", num) != num:
        sh.violation(f"C13:time:{name}:reported-num-differs", f"{name}({start},{end},{num}).num = {tg.num!r}", None)
    # argument forms: numpy scalars, keywords, Python ints where the value is integral: the same axis, exactly
    forms = [("numpy-scalars", lambda: cls(np.float64(start), np.float64(end), np.int64(num))),
             ("keywords", lambda: cls(num=num, end=end, start=start))]
    if float(start).is_integer() and float(end).is_integer():
        forms.append(("python-ints", lambda: cls(int(start), int(end), num)))
    for form, f in forms:
        sh.count("evaluations")
        sh.cls(f"argument-form:{form}")
        try:
            t2 = f()
            ax2 = np.array([t2[i] for i in range(len(t2))], dtype=float)
            same = ax2.shape == ax.shape and np.array_equal(ax2, ax) and float(t2.start) == float(tg.start) \
                and float(t2.end) == float(tg.end) and int(t2.num) == int(tg.num) and float(t2.step) == float(tg.step)
        except Exception as e:
            sh.violation(f"C13:time:{name}:raises-for-argument-form:{form}:{type(e).__name__}", f"{type(e).__name__}: {e}", None)
            continue
        if not same:
            sh.violation(f"C13:time:{name}:axis-differs-from-that-of-the-usual-argument-form:{form}",
                         f"{name}({start},{end},{num}) as {form}: {ax2.tolist()[:6]} vs {ax.tolist()[:6]}", None)
    step = getattr(tg, "step", None)
    if step is not None and np.all(np.isfinite(ax)) and ax.size == num \
            and not np.allclose(np.diff(ax), step, rtol=1e-9, atol=1e-15):
        sh.violation(f"C13:time:{name}:reported-step-differs-from-the-gaps",
                     f"{name}({start},{end},{num}).step = {step!r}, gaps {np.diff(ax).tolist()[:4]}", None)
    sh.outcome((name, ax.tolist()[:6], num))
    sh.nontriv()
