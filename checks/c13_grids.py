"""C13 - state grids are well formed and refinement nests them.

Mode: explicit-state search. A state is a grid (axes, h, origin_coordinate, truncations); the only transition is the real
`grid.refine()`. Every case is one constructor call of the real library (a JSON-able spec) and `core.bfs` explores the
history graph `[] -> [refine] -> [refine, refine] -> ...` up to the stated depth on FRESH objects (the constructor is
called again and the history replayed for every state), evaluating the state invariants in every reached state and the
transition invariants on every edge.

Alphabet (complete enumeration, nothing sampled)
  constructors   CTMCUniformGrid(h, model, p), CTMCUniformGrid.create_from_fixed_nb_of_points(h, n, dimension),
                 CTMCGridGeometric(h, model, n_side, p), CTMCGridGeometric.create_with_bounds(h, bounds, dimension, n_side),
                 CTMCGridProbabilityStep(h, model, p_min, dimension), CTMCCredit(h, a, model, symmetric) and the base
                 constructor CTMCGrid(h, origin, axes) with per-axis arrays of different lengths (per-axis storage)
  models         every 1-d model of mc.alphabets.model_specs(tier) (Levy and exponential), every copula model of
                 mc.alphabets.copula_model_specs(tier) (dimension 2 and 3)
  arguments      mc.alphabets.grid_specs(tier, dimension) plus the extras listed in `_extra_model_grids` (credit thresholds as
                 pairs / triples, asymmetric 1-d credit, a geometric grid at a low truncation probability)
  depth          3 refinements (quick) / 5 (thorough; 4 for the probability-step grid whose middle() is a root search)

State invariants (every state, every axis)
  finite; strictly increasing; value 0.0 at origin_coordinate; left neighbour -h, right neighbour +h;
  truncations[k] == (axis[0], axis[-1]); end points == what the constructor promised:
    uniform / geometric / credit : the roots of the tail-mass equation at the requested probability, verified by QUADRATURE OF
         THE MODEL'S OWN DENSITY (mc.oracle.integrate_density), not by the library's closed forms:
         tail(b)/I == 1-p with I = nu((h/2, inf)) resp. nu((-inf, -h/2)); for a copula model the bound is the outermost of
         the margins' roots (every margin attains the probability, at least one exactly)
    fixed            : +-(n // 2) * h
    geometric-bounds : the requested bounds
    raw              : the end points of the arrays passed in
    credit           : additionally every threshold a (and -a on the symmetric grid) is the grid's own middle() of two
                       neighbouring states of the constructed grid (depth 0: after a refinement the threshold is a state)
    probability      : per-step promise: no gap [x_j, x_j+1] away from the origin carries more than p_min of the total jump
                       mass nu(|x| > h/2) (quadrature, slack 1e-6 for the constructor's root finder xtol = 1e-10); the gaps
                       carrying exactly p_min are counted and written out in the evidence (observation)
Transition invariants (every edge old -> new, every axis)
  len(new) == 2 len(old) - 1; new[2i] == old[i] (exactly); old[i] < new[2i+1] < old[i+1]; new[2i+1] == the OLD grid's own
  middle(old[i], old[i+1]) evaluated on the old grid before the call; h halved; origin index doubled; truncations unchanged;
  axes that were equal (shared storage `[axis] * dimension`) stay equal, i.e. no axis is refined twice.
Observations (recorded, never asserted): the coordinate object captured before refine() is mutated in place (aliasing);
  create_from_fixed_nb_of_points(n even) returns n+1 points; the probability grid's middle splits the gap's mass equally.

Outside the alphabet (statement silent): credit thresholds that are not strictly between the left truncation and -h (the
  constructor's formula needs l < a < -h; such specs are counted as `skipped_credit_threshold_outside_(l,-h)`), constructor
  argument validation (covered by the repository's test_grid), nb_of_points_on_each_side < 2, more than 1e8 points, bounds
  for create_with_bounds within h of the origin, grids whose axes are passed in malformed to the base constructor.
Refusal: a ValueError (the library's argument-validation exception) raised by a constructor is accepted as "no grid returned"
  only for the input class in which no well-formed grid with the promised end points exists (a tail-mass root within h of
  the origin; a symmetric credit grid whose mirror point -a+eps lies beyond the right root) and is counted
  (`constructor_refuses_arguments_without_well_formed_grid`); any other exception, or a ValueError in any other input
  class, is a violation.
Time axis: rpylib/grid/time.py has no origin, h, truncation or refine(); only the clauses of the statement that have a
  meaning for it are evaluated (sub "time": strictly increasing, finite, len == num, end points == the start/end it reports)
  for start < end and num >= 2.
"""
from __future__ import annotations

import math

import numpy as np

from mc import alphabets as A
from mc import core
from mc import oracle as O

PID = "C13"
LEVEL = "model_checking"
RULE = (
    "every (constructor, argument tuple, model) of the stated menus is built by the real constructor and its refine() history "
    "graph is searched breadth-first to the stated depth on fresh objects; a case is non-trivial when at least one state "
    "invariant bundle and one refine() edge were evaluated on it (time-axis cases: the axis was compared with the reference); "
    "distinct = distinct case dict"
)
ASSUMPTIONS = [
    "tail-mass and per-step promises are verified by scipy/mpmath quadrature of the model's own density; a comparison is made "
    "only when the quadrature error estimate is below the tolerance, otherwise it is counted as oracle_inconclusive",
    "the expected inserted point is the old grid's own middle() called on the old grid before refine(): the statement ties "
    "the new state to 'the point the grid itself uses as cell boundary', not to the arithmetic mean",
    "states are merged when (axes, h, origin_coordinate, truncations) agree: refine() reads nothing else (the probability "
    "grid's middle also reads levy_measure / intensity_of_jumps, which no method writes)",
]
CHUNK = 2

TOL_TAIL = 1e-9     # on tail(b)/I - (1-p); the constructor's brentq has xtol 2e-12
SLACK_STEP = 1e-6   # on the per-step share (DESIGN): the constructor's brentq has xtol 1e-10


# ----------------------------------------------------------------------------------------------------------------------
# alphabet
# ----------------------------------------------------------------------------------------------------------------------

RAW_AXES = {
    # per-axis storage with different right lengths (CTMCGrid takes ONE origin index: left sizes agree)
    "raw1": [[-0.5, -0.1, 0.0, 0.1, 0.3, 0.9]],
    "raw2": [[-0.5, -0.1, 0.0, 0.1, 0.3, 0.9], [-0.4, -0.1, 0.0, 0.1]],
    "raw3": [[-0.5, -0.1, 0.0, 0.1], [-0.7, -0.1, 0.0, 0.1, 0.25], [-0.2, -0.1, 0.0, 0.1, 0.2, 0.4]],
    "raw2-equal-copies": [[-0.3, -0.1, 0.0, 0.1, 0.5], [-0.3, -0.1, 0.0, 0.1, 0.5]],
}


def _extra_model_grids(tier, dimension):
    thorough = tier == "thorough"
    out = []
    if dimension == 1:
        out.append({"kind": "credit", "h": 0.1, "a_frac": 0.5, "symmetric": False})
        out.append({"kind": "credit", "h": 0.05, "a_frac": 0.3, "symmetric": True})
        out.append({"kind": "probability", "h": 0.1, "pmin": 0.2, "dim": 2})
        if thorough:
            out.append({"kind": "probability", "h": 0.05, "pmin": 0.1})
            out.append({"kind": "credit", "h": 0.1, "a_frac": 0.9, "symmetric": True})
    else:
        fr = [0.5, 0.3] if dimension == 2 else [0.5, 0.3, 0.7]
        out.append({"kind": "credit", "h": 0.05, "a_frac": fr, "symmetric": True})
        out.append({"kind": "credit", "h": 0.05, "a_frac": fr, "symmetric": False})
        # thresholds whose mirror point -a+eps may lie beyond the right truncation (margins with r < |l|)
        for f in (0.6, 0.9):
            out.append({"kind": "credit", "h": 0.1, "a_frac": f, "symmetric": True})
        out.append({"kind": "credit", "h": 0.1, "a_frac": 0.9, "symmetric": False})
    out.append({"kind": "geometric", "h": 0.05, "n_side": 2, "p": 0.99})
    out.append({"kind": "geometric", "h": 0.2, "n_side": 3, "p": 0.9})
    return out


def cases(tier):
    thorough = tier == "thorough"
    depth = 5 if thorough else 3
    out = []

    def add(gspec, dim, model=None, cmodel=None):
        d = depth
        if gspec["kind"] == "probability":
            d = min(depth, 4)
        out.append({"sub": "grid", "dim": dim, "grid": gspec, "model": model, "cmodel": cmodel, "depth": d})

    # time axis (cheap, first)
    for start in [0.0, 0.5]:
        for end in [0.5, 1.0, 2.5]:
            if end <= start:
                continue
            for num in ([2, 3, 5, 10, 365] if thorough else [2, 3, 10]):
                for cls in ("TimeGrid", "Uniform1DGrid"):
                    out.append({"sub": "time", "cls": cls, "start": start, "end": end, "num": num})

    # model-independent constructors, dimension 1..3
    for dim in (1, 2, 3):
        for g in A.grid_specs(tier, dim, with_model_grids=False):
            add(g, dim)
    if thorough:
        for dim in (1, 2):
            add({"kind": "fixed", "h": 0.25, "n": 2}, dim)
            add({"kind": "fixed", "h": 0.05, "n": 21}, dim)
            add({"kind": "geometric-bounds", "h": 0.05, "bounds": [-1.0, 2.0], "n_side": 2}, dim)
    for name in sorted(RAW_AXES):
        add({"kind": "raw", "h": 0.1, "name": name}, len(RAW_AXES[name]))

    # 1-d models
    indep = {"fixed", "geometric-bounds"}
    g1 = [g for g in A.grid_specs(tier, 1) if g["kind"] not in indep] + _extra_model_grids(tier, 1)
    for m in A.model_specs(tier):
        for g in g1:
            add(g, g.get("dim", 1), model=m)

    # copula models, dimension 2 and 3
    for cm in A.copula_model_specs(tier):
        dim = len(cm["margins"])
        gs = [g for g in A.grid_specs(tier, dim) if g["kind"] not in indep] + _extra_model_grids(tier, dim)
        for g in gs:
            add(g, dim, cmodel=cm)
        if thorough and cm["copula"]["kind"] == "independent":
            for g in gs:
                add(g, dim, cmodel=dict(cm, exp=True))
    return out


# ----------------------------------------------------------------------------------------------------------------------
# construction of one real grid from a case
# ----------------------------------------------------------------------------------------------------------------------

def _model_of(case):
    if case.get("model") is not None:
        return A.make_model(case["model"])
    if case.get("cmodel") is not None:
        return A.make_copula_model(case["cmodel"])
    return None


def _margin_measures(case, model):
    """The 1-d Levy measures the truncation promise is about (one per margin)."""
    if model is None:
        return []
    if case.get("cmodel") is not None:
        return [m.levy_triplet.nu for m in model.models]
    return [model.levy_triplet.nu]


def _construct(case, model):
    from rpylib.grid import spatial as S

    g = case["grid"]
    dim = case["dim"]
    kind = g["kind"]
    if kind == "raw":
        axes = [np.array(a, dtype=float) for a in RAW_AXES[g["name"]]]
        origin = axes[0].tolist().index(0.0)
        return S.CTMCGrid(h=g["h"], origin_coordinate=origin, axes=axes)
    return A.make_grid(g, model, dimension=dim)


def _component(g):
    k = g["kind"]
    if k == "credit":
        return "credit-symmetric" if g.get("symmetric", True) else "credit-asymmetric"
    return k


def _origin_indices(grid):
    oc = getattr(grid, "origin_coordinate", None)
    try:
        return [int(v) for v in oc]
    except TypeError:
        return [int(getattr(oc, "value", oc))]


def _snapshot(grid):
    axes = [np.array(a, dtype=float, copy=True) for a in grid.axes]
    tr = getattr(grid, "truncations", None)
    return {
        "axes": axes,
        "h": float(grid.h),
        "origin": _origin_indices(grid),
        "truncations": None if tr is None else [(float(t[0]), float(t[1])) for t in tr],
        "dimension": getattr(grid, "dimension", len(axes)),
    }


def _own_middles(grid):
    """The grid's own middle() of every gap of every axis (called with the axis elements, as refine() does)."""
    out = []
    for axis in grid.axes:
        mids = []
        for xi, xip in zip(axis, axis[1:]):
            try:
                mids.append(float(grid.middle(xi, xip)))
            except Exception as e:  # degenerate gap (e.g. not increasing): nothing to expect
                mids.append(repr(e))
        out.append(mids)
    return out


# ----------------------------------------------------------------------------------------------------------------------
# oracles on the density
# ----------------------------------------------------------------------------------------------------------------------

def _tail_fraction(nu, h, b, side):
    """Share of the one-sided jump mass beyond h/2 that lies beyond the bound b: nu((b, inf)) / nu((h/2, inf)) for side
    'right', nu((-inf, b)) / nu((-inf, -h/2)) for 'left'. Returns (value, error estimate)."""
    if side == "right":
        if b <= h / 2:
            return 1.0, 0.0
        t, et = O.integrate_density(nu, b, math.inf)
        i, ei = O.integrate_density(nu, h / 2, math.inf)
    else:
        if b >= -h / 2:
            return 1.0, 0.0
        t, et = O.integrate_density(nu, -math.inf, b)
        i, ei = O.integrate_density(nu, -math.inf, -h / 2)
    if not (i > 0) or not math.isfinite(i):
        return math.nan, math.inf
    return t / i, (et + ei * t / i) / i


def _bound_class(nus, h, p, side):
    """Where the promised bound (outermost root over the margins) lies: within h, within 2h or beyond 2h of the origin.
    Decided from the density alone: the root of margin i is within x iff tail_i(x)/I_i <= 1-p."""
    s = 1.0 if side == "right" else -1.0
    within = {}
    for mult in (1.0, 2.0):
        ok = True
        for nu in nus:
            f, e = _tail_fraction(nu, h, s * mult * h, side)
            if not (f <= (1 - p)):
                ok = False
        within[mult] = ok
    if within[1.0]:
        return "bound-within-h"
    if within[2.0]:
        return "bound-within-2h"
    return "bound-beyond-2h"


def _promise(case, model):
    """What the constructor promised about the end points. Returns dict with
       'bounds': per-axis (l, r) to be matched closely, or None;
       'tail':  (p, h, nus) when the end points are roots of the tail-mass equation."""
    g = case["grid"]
    k = g["kind"]
    dim = case["dim"]
    if k == "fixed":
        b = (g["n"] // 2) * g["h"]
        return {"bounds": [(-b, b)] * dim}
    if k == "geometric-bounds":
        return {"bounds": [tuple(float(x) for x in g["bounds"])] * dim}
    if k == "raw":
        return {"bounds": [(a[0], a[-1]) for a in RAW_AXES[g["name"]]]}
    if k in ("uniform", "geometric"):
        return {"tail": (g["p"], g["h"], _margin_measures(case, model))}
    if k == "credit":
        return {"tail": (0.99999, g["h"], _margin_measures(case, model))}  # compute_truncation's default, as the constructor uses it
    return {}


# ----------------------------------------------------------------------------------------------------------------------
# invariants
# ----------------------------------------------------------------------------------------------------------------------

class _Ctx:
    pass


def _state_invariants(sh, ctx, snap, depth):
    """Evaluate every state invariant; return list of (key, what, detail)."""
    out = []
    comp, dcls = ctx.component, ctx.dcls
    h = snap["h"]
    axes = snap["axes"]
    origin = snap["origin"]
    tr = snap["truncations"]
    if len(origin) != len(axes):
        out.append((f"C13:state:{comp}:origin-coordinate-dimension-differs-from-axes:{dcls}",
                    f"{len(origin)} origin indices for {len(axes)} axes", {"origin": origin}))
        origin = (origin * len(axes))[: len(axes)]
    if not (math.isfinite(h) and h > 0):
        out.append((f"C13:state:{comp}:h-not-positive-finite:{dcls}", f"h = {h}", None))
    for k, ax in enumerate(axes):
        sh.count("evaluations")
        o = origin[k]
        where = f"axis {k} after {depth} refinement(s)"
        lcls = ctx.side_cls.get("left", "")
        rcls = ctx.side_cls.get("right", "")
        if not np.all(np.isfinite(ax)):
            out.append((f"C13:state:{comp}:non-finite-state:{dcls}", f"{where}: {ax.tolist()}", None))
            continue
        if ax.size > 1 and not np.all(np.diff(ax) > 0):
            j = int(np.argmax(np.diff(ax) <= 0))
            side = "left" if ax[j] < 0 else "right"
            c = lcls if side == "left" else rcls
            out.append((f"C13:state:{comp}:not-strictly-increasing:{side}-half-axis:{dcls}{c}{ctx.credit_cls}",
                        f"{where}: states {ax[j]!r} >= {ax[j + 1]!r} at indices {j},{j + 1}", {"axis": ax.tolist()}))
        if not (0 <= o < ax.size) or ax[o] != 0.0:
            val = ax[o] if 0 <= o < ax.size else None
            out.append((f"C13:state:{comp}:origin-index-does-not-hold-zero:{dcls}",
                        f"{where}: origin index {o}, axis value there {val!r}", {"axis": ax.tolist()}))
            continue
        # neighbours
        if o - 1 < 0:
            out.append((f"C13:state:{comp}:no-left-neighbour-of-origin:{dcls}{lcls}",
                        f"{where}: the origin is the first state, -h = {-h!r} is not a state", {"axis": ax.tolist()}))
        elif not core.close(ax[o - 1], -h, rtol=1e-12):
            out.append((f"C13:state:{comp}:left-neighbour-is-not-minus-h:{dcls}{lcls}",
                        f"{where}: left neighbour of 0 is {ax[o - 1]!r}, -h = {-h!r}", {"axis": ax.tolist()}))
        if o + 1 >= ax.size:
            out.append((f"C13:state:{comp}:no-right-neighbour-of-origin:{dcls}{rcls}",
                        f"{where}: the origin is the last state, +h = {h!r} is not a state", {"axis": ax.tolist()}))
        elif not core.close(ax[o + 1], h, rtol=1e-12):
            out.append((f"C13:state:{comp}:right-neighbour-is-not-plus-h:{dcls}{rcls}",
                        f"{where}: right neighbour of 0 is {ax[o + 1]!r}, +h = {h!r}", {"axis": ax.tolist()}))
        # reported truncations = end points
        if tr is None or len(tr) != len(axes):
            out.append((f"C13:state:{comp}:truncations-not-one-pair-per-axis:{dcls}", f"truncations = {tr}", None))
        elif tr[k] != (float(ax[0]), float(ax[-1])):
            out.append((f"C13:state:{comp}:truncations-differ-from-end-points:{dcls}",
                        f"{where}: truncations {tr[k]} but end points ({ax[0]!r}, {ax[-1]!r})", None))
    return out


def _promise_invariants(sh, ctx, snap, case, grid):
    """Constructor promises, evaluated on the freshly constructed grid (depth 0); end points never change afterwards
    (asserted exactly on every edge)."""
    out = []
    comp, dcls = ctx.component, ctx.dcls
    axes = snap["axes"]
    pr = ctx.promise
    g = case["grid"]
    if pr.get("bounds"):
        for k, ax in enumerate(axes):
            sh.count("evaluations")
            l, r = pr["bounds"][k]
            if not (core.close(ax[0], l, rtol=1e-12) and core.close(ax[-1], r, rtol=1e-12)):
                out.append((f"C13:promise:{comp}:end-points-are-not-the-requested-bounds:{dcls}",
                            f"axis {k}: end points ({ax[0]!r}, {ax[-1]!r}), requested ({l!r}, {r!r})", None))
    if pr.get("tail"):
        p, h, nus = pr["tail"]
        for k, ax in enumerate(axes):
            for side, b in (("left", float(ax[0])), ("right", float(ax[-1]))):
                sh.count("evaluations")
                scls = ctx.side_cls.get(side, "")
                fr = [_tail_fraction(nu, h, b, side) for nu in nus]
                if any(not (e <= TOL_TAIL / 10) for _, e in fr):
                    sh.count("oracle_inconclusive")
                    continue
                worst = max(f for f, _ in fr)           # the margin that decides the bound
                detail = {"bound": b, "requested_tail": 1 - p, "tail_fraction_per_margin": [f for f, _ in fr], "h": h}
                if worst > (1 - p) + TOL_TAIL:
                    out.append((f"C13:promise:{comp}:{side}-bound-leaves-more-than-the-requested-tail-mass:{dcls}{scls}",
                                f"axis {k}: {side} end point {b!r} leaves {worst:.6g} of the {side} jump mass outside, requested "
                                f"at most {1 - p:.6g}", detail))
                elif worst < (1 - p) - TOL_TAIL:
                    # the docstring promises only "less than"; the root is what the statement calls the target probability.
                    # beyond the root is an alarm only when the bound is not forced outwards by the neighbour +-h
                    forced = abs(abs(b) - h) <= 1e-12 * h
                    # a symmetric credit axis may end at the mirror -l of its left end instead of the (closer) right root:
                    # CTMCCredit promises no tail probability of its own and -l keeps more than compute_truncation's default
                    if ctx.credit_cls and side == "right" \
                            and core.close(b, -float(ax[0]), rtol=1e-12):
                        forced = True
                    if forced:
                        sh.count("bound_forced_to_h_beyond_root")
                    else:
                        out.append((f"C13:promise:{comp}:{side}-bound-is-not-the-root-of-the-tail-mass-equation:{dcls}{scls}",
                                    f"axis {k}: {side} end point {b!r} leaves {worst:.6g} outside, the requested tail is {1 - p:.6g}",
                                    detail))
                else:
                    sh.count("tail_probability_confirmed")
    if g["kind"] == "credit":
        fr = g["a_frac"]
        l_model = ctx.credit_levels
        for k, ax in enumerate(axes):
            a = l_model[k]
            targets = [a] + ([-a] if (g.get("symmetric", True) and case["dim"] > 1) else [])
            mids = [float(grid.middle(x, y)) for x, y in zip(grid.axes[k], grid.axes[k][1:])]
            for t in targets:
                sh.count("evaluations")
                if not any(core.close(m, t, rtol=1e-12) for m in mids):
                    out.append((f"C13:promise:{comp}:threshold-is-not-a-cell-boundary:{dcls}",
                                f"axis {k}: threshold {t!r} is not the middle() of two neighbouring states; middles {mids}",
                                {"axis": ax.tolist()}))
    if g["kind"] == "probability":
        out += _probability_promise(sh, ctx, snap, case, grid)
    return out


def _probability_promise(sh, ctx, snap, case, grid):
    out = []
    g = case["grid"]
    pmin, h = g["pmin"], g["h"]
    nu = ctx.nus[0]
    il, el = O.integrate_density(nu, -math.inf, -h / 2)
    ir, er = O.integrate_density(nu, h / 2, math.inf)
    total = il + ir
    if not (total > 0) or (el + er) > 1e-9 * total:
        sh.count("oracle_inconclusive")
        return out
    lib_total = getattr(grid, "intensity_of_jumps", None)
    if lib_total is not None:
        sh.count("evaluations")
        if not core.close(lib_total, total, rtol=1e-8):
            out.append((f"C13:promise:probability:total-jump-mass-differs-from-density-quadrature:{ctx.dcls}{ctx.model_cls}",
                        f"intensity_of_jumps = {lib_total!r}, quadrature of the density over |x| > h/2 gives {total!r}", None))
    ax = snap["axes"][0]
    o = snap["origin"][0]
    shares = []
    for j, (x, y) in enumerate(zip(ax, ax[1:])):
        if j == o - 1 or j == o or not (x < y):   # the two gaps touching the origin; a non-gap is reported on the state
            shares.append(None)
            continue
        sh.count("evaluations")
        v, e = O.integrate_density(nu, float(x), float(y))
        if e > 1e-9 * total:
            sh.count("oracle_inconclusive")
            shares.append(None)
            continue
        s = v / total
        shares.append(s)
        if s > pmin + SLACK_STEP:
            side = "left" if y <= 0 else "right"
            out.append((f"C13:promise:probability:step-carries-more-than-the-requested-share:{side}:{ctx.dcls}{ctx.model_cls}",
                        f"gap [{x!r}, {y!r}] carries {s:.8g} of the jump mass, requested at most {pmin}",
                        {"axis": ax.tolist(), "shares": shares}))
        elif abs(s - pmin) <= SLACK_STEP:
            sh.count("probability_steps_with_exactly_the_requested_share")
        else:
            sh.count("probability_steps_below_the_requested_share")
    if (case.get("model") or {}).get("family") == "hem" and not case["model"].get("exp") and not case["model"]["params"] \
            and case["dim"] == 1:
        sh.sample({"sub": "probability-step shares", "pmin": pmin, "h": h, "axis": ax.tolist(), "shares": shares})
    return out


def _edge_invariants(sh, ctx, old, new, expected_mid, nrefine):
    out = []
    comp, dcls = ctx.component, ctx.dcls
    tag = f"refinement {nrefine}"
    sh.count("evaluations")
    if not (new["h"] == old["h"] / 2 or core.close(new["h"], old["h"] / 2, rtol=1e-15)):
        out.append((f"C13:refine:{comp}:h-not-halved:{dcls}", f"{tag}: h {old['h']!r} -> {new['h']!r}", None))
    if new["origin"] != [2 * v for v in old["origin"]]:
        out.append((f"C13:refine:{comp}:origin-index-not-doubled:{dcls}", f"{tag}: origin {old['origin']} -> {new['origin']}", None))
    if new["truncations"] != old["truncations"]:
        out.append((f"C13:refine:{comp}:truncations-changed:{dcls}",
                    f"{tag}: truncations {old['truncations']} -> {new['truncations']}", None))
    if len(new["axes"]) != len(old["axes"]):
        out.append((f"C13:refine:{comp}:number-of-axes-changed:{dcls}", f"{tag}: {len(old['axes'])} -> {len(new['axes'])}", None))
        return out
    for k, (a, b) in enumerate(zip(old["axes"], new["axes"])):
        sh.count("evaluations")
        where = f"{tag}, axis {k}"
        if b.size != 2 * a.size - 1:
            twice = b.size == 4 * a.size - 3
            cls = "axis-refined-twice" if twice else "axis-length-is-not-2n-1"
            out.append((f"C13:refine:{comp}:{cls}:{dcls}", f"{where}: {a.size} states -> {b.size} states", None))
            continue
        if not np.array_equal(b[0::2], a):
            j = int(np.argmax(b[0::2] != a))
            out.append((f"C13:refine:{comp}:old-state-not-at-twice-its-index:{dcls}",
                        f"{where}: old state {a[j]!r} at index {j}, new axis holds {b[2 * j]!r} at index {2 * j}",
                        {"old": a.tolist(), "new": b.tolist()}))
            continue
        ins = b[1::2]
        sh.count("evaluations", int(ins.size))
        inside = ((ins > a[:-1]) & (ins < a[1:])) | ~(a[:-1] < a[1:])  # a gap that is not one is reported on the state
        if not np.all(inside):
            j = int(np.argmax(~inside))
            out.append((f"C13:refine:{comp}:new-state-not-strictly-inside-its-gap:{dcls}",
                        f"{where}: new state {ins[j]!r} for the gap ({a[j]!r}, {a[j + 1]!r})", {"old": a.tolist(), "new": b.tolist()}))
        exp = expected_mid[k]
        for j, m in enumerate(exp):
            if isinstance(m, str):
                continue
            if not (ins[j] == m or core.close(ins[j], m, rtol=1e-13, atol=1e-300)):
                at_origin = "gap-at-origin" if (a[j] == 0.0 or a[j + 1] == 0.0) else "gap-away-from-origin"
                out.append((f"C13:refine:{comp}:new-state-is-not-the-grids-middle-of-the-gap:{at_origin}:{dcls}",
                            f"{where}: inserted {ins[j]!r} into ({a[j]!r}, {a[j + 1]!r}), the old grid's middle() is {m!r}",
                            {"old": a.tolist(), "new": b.tolist()}))
                break
    # shared / equal axes stay equal
    n = len(old["axes"])
    for i in range(n):
        for j in range(i + 1, n):
            if np.array_equal(old["axes"][i], old["axes"][j]):
                sh.count("evaluations")
                if not np.array_equal(new["axes"][i], new["axes"][j]):
                    out.append((f"C13:refine:{comp}:equal-axes-diverge:{dcls}",
                                f"{tag}: axes {i} and {j} were equal before refine() and differ after", None))
    return out


# ----------------------------------------------------------------------------------------------------------------------
# one case
# ----------------------------------------------------------------------------------------------------------------------

def check_case(sh, case):
    if case["sub"] == "time":
        return _sub_time(sh, case)
    return _sub_grid(sh, case)


def _model_cls(case):
    m = case.get("model")
    if m is not None:
        lab = m["family"]
        if m["family"] == "cgmy":
            lab += f":y={m['params']['y']}"
        return ":" + lab
    cm = case.get("cmodel")
    if cm is not None:
        return ":" + "+".join(cm["margins"])
    return ""


def _sub_grid(sh, case):
    g = case["grid"]
    ctx = _Ctx()
    ctx.component = _component(g)
    ctx.dcls = f"d{case['dim']}"
    ctx.model_cls = _model_cls(case)
    ctx.side_cls = {}
    model = _model_of(case)
    ctx.nus = _margin_measures(case, model)
    ctx.promise = _promise(case, model)
    ctx.credit_levels = None
    ctx.credit_cls = ""
    sh.cls(f"constructor:{ctx.component}")
    sh.cls(f"dimension:{case['dim']}")
    if case.get("cmodel") is not None:
        sh.cls("model:copula:" + case["cmodel"]["copula"]["kind"])
    elif case.get("model") is not None:
        sh.cls("model:" + ("exp-" if case["model"].get("exp") else "") + case["model"]["family"])
    else:
        sh.cls("model:none")

    if ctx.promise.get("tail"):
        p, h, nus = ctx.promise["tail"]
        for side in ("left", "right"):
            c = _bound_class(nus, h, p, side)
            ctx.side_cls[side] = f":{side}-{c}"
            sh.cls(f"{ctx.component}:{side}-{c}")

    if g["kind"] == "credit":
        # thresholds as the alphabet builder computes them; the constructor's formula needs l < a < -h
        from rpylib.grid.spatial import compute_truncation

        try:
            l, _ = compute_truncation(model=model, h=g["h"])
        except Exception as e:
            sh.violation(f"C13:state:{ctx.component}:compute-truncation-raises:{type(e).__name__}:{ctx.dcls}",
                         f"compute_truncation(model, h={g['h']}): {type(e).__name__}: {e}", None)
            sh.outcome(("raises", ctx.component, type(e).__name__))
            return
        fr = g["a_frac"]
        frs = list(fr) if isinstance(fr, (list, tuple)) else [fr] * case["dim"]
        levels = [float(f * l) for f in frs]
        if any(not (l < a < -g["h"]) for a in levels):
            sh.count("skipped_credit_threshold_outside_(l,-h)")
            sh.outcome(("skipped-credit", ctx.component))
            return
        ctx.credit_levels = levels
        if g.get("symmetric", True) and case["dim"] > 1:
            # does a mirror point -a+eps (constructor's eps) lie at or beyond the outermost right root? decided on the density
            p_, h_ = 0.99999, g["h"]
            mirror = max(-a + min(abs(l - a) / 2, abs(a + h_) / 2) for a in levels)
            beyond = all(_tail_fraction(nu, h_, mirror, "right")[0] <= (1 - p_) for nu in ctx.nus)
            ctx.credit_cls = ":mirror-point-beyond-right-root" if beyond else ":mirror-point-inside-right-root"
            sh.cls(f"{ctx.component}{ctx.credit_cls[1:] and ':' + ctx.credit_cls[1:]}")

    state0 = {}

    def build(hist):
        grid = _construct(case, _model_of(case))
        trace = [_snapshot(grid)]
        extra = {"grid0_promises": None}
        if not hist:
            extra["grid"] = grid
        for _ in hist:
            exp = _own_middles(grid)
            coord = grid.origin_coordinate
            before = _origin_indices(grid)
            grid.refine()
            snap = _snapshot(grid)
            snap["expected_mid"] = exp
            snap["aliased"] = (coord is grid.origin_coordinate) and _safe_indices(coord) != before
            trace.append(snap)
        return grid, trace

    def menu(state, hist):
        return ["refine"]

    def canon(state, hist):
        _, trace = state
        s = trace[-1]
        return core.digest([[a.tolist() for a in s["axes"]], s["h"], s["origin"], s["truncations"]])

    def invariant(state, hist, ev):
        grid, trace = state
        snap = trace[-1]
        found = []
        found += _state_invariants(sh, ctx, snap, len(hist))
        if ev is None:
            state0["snap"] = snap
            found += _promise_invariants(sh, ctx, snap, case, grid)
            if g["kind"] == "fixed" and snap["axes"][0].size != g["n"]:
                sh.count("observation_fixed_nb_of_points_returns_n_plus_1_points")
        else:
            found += _edge_invariants(sh, ctx, trace[-2], snap, snap["expected_mid"], len(hist))
            if snap.get("aliased"):
                sh.count("observation_origin_coordinate_object_mutated_in_place")
            if g["kind"] == "probability" and len(hist) == 1:
                _observe_equal_mass_split(sh, ctx, trace[-2], snap)
        for key, what, detail in found[1:]:
            sh.violation(key, what, {"history": hist, "detail": detail})
        return found[0] if found else None

    refusable = any(c.endswith("bound-within-h") for c in ctx.side_cls.values()) \
        or ctx.credit_cls == ":mirror-point-beyond-right-root"
    try:
        s, t, d = core.bfs(sh, build, menu, canon, invariant, case["depth"])
    except Exception as e:
        import traceback

        # ValueError is the library's argument-validation exception: a constructor that REFUSES arguments for which no
        # well-formed grid with the promised end points exists (truncation bound within h of the origin) does not return a
        # malformed grid. Accepted for that input class only, and only when raised by the constructor (no state built yet).
        if isinstance(e, ValueError) and refusable and "snap" not in state0:
            sh.count("constructor_refuses_arguments_without_well_formed_grid")
            sh.outcome(("refused", ctx.component, str(e)[:40]))
            sh.nontriv()
            return
        sh.violation(f"C13:state:{ctx.component}:constructor-or-refine-raises:{type(e).__name__}:{ctx.dcls}"
                     f"{ctx.side_cls.get('left', '')}{ctx.side_cls.get('right', '')}",
                     f"{type(e).__name__}: {e}", {"traceback": traceback.format_exc(limit=6)})
        sh.outcome(("raises", ctx.component, type(e).__name__))
        return
    sh.traces += 1
    if t > 0:
        sh.nontriv()
    snap = state0.get("snap")
    sh.outcome((ctx.component, case["dim"], s, [a.tolist() for a in snap["axes"]] if snap else None))
    if s < case["depth"] + 1:
        sh.count("grids_whose_refinement_reaches_a_fixed_point")  # e.g. a one-point axis
    if snap is not None and case.get("model") and case["model"]["family"] == "vg" and not case["model"]["params"] \
            and not case["model"].get("exp"):
        sh.sample({"sub": "grid", "constructor": ctx.component, "spec": g, "model": A.model_label(case["model"]),
                   "axes_at_depth_0": [a.tolist() for a in snap["axes"]], "h": snap["h"], "origin": snap["origin"],
                   "truncations": snap["truncations"], "states": s, "transitions": t})


def _safe_indices(coord):
    try:
        return [int(v) for v in coord]
    except TypeError:
        return [int(getattr(coord, "value", coord))]


def _observe_equal_mass_split(sh, ctx, old, new):
    """Observation only: the probability grid's middle is documented to split the gap's mass equally."""
    nu = ctx.nus[0]
    a = old["axes"][0]
    b = new["axes"][0]
    if b.size != 2 * a.size - 1:
        return
    for j in range(a.size - 1):
        if a[j] == 0.0 or a[j + 1] == 0.0 or not (a[j] < b[2 * j + 1] < a[j + 1]):
            continue
        lo, _ = O.integrate_density(nu, float(a[j]), float(b[2 * j + 1]))
        hi, _ = O.integrate_density(nu, float(b[2 * j + 1]), float(a[j + 1]))
        if core.close(lo, hi, rtol=1e-6, atol=1e-12):
            sh.count("observation_probability_middle_splits_mass_equally")
        else:
            sh.count("observation_probability_middle_does_not_split_mass_equally")


# ----------------------------------------------------------------------------------------------------------------------
# time axis
# ----------------------------------------------------------------------------------------------------------------------

def _sub_time(sh, case):
    from rpylib.grid.grid import Uniform1DGrid
    from rpylib.grid.time import TimeGrid

    cls = {"TimeGrid": TimeGrid, "Uniform1DGrid": Uniform1DGrid}[case["cls"]]
    start, end, num = case["start"], case["end"], case["num"]
    tg = cls(start, end, num)
    ax = np.array([tg[i] for i in range(len(tg))], dtype=float)
    sh.count("evaluations")
    sh.cls(f"constructor:{case['cls']}")
    name = case["cls"]
    if len(tg) != num or ax.size != num:
        sh.violation(f"C13:time:{name}:number-of-points-differs", f"{name}({start},{end},{num}) has {len(tg)} points", None)
    if not np.all(np.isfinite(ax)):
        sh.violation(f"C13:time:{name}:non-finite-point", f"{ax.tolist()}", None)
    elif not np.all(np.diff(ax) > 0):
        sh.violation(f"C13:time:{name}:not-strictly-increasing", f"{name}({start},{end},{num}) = {ax.tolist()[:8]}", None)
    if not (ax[0] == start and ax[-1] == end):
        sh.violation(f"C13:time:{name}:end-points-differ-from-start-end", f"end points ({ax[0]!r}, {ax[-1]!r}) for ({start}, {end})", None)
    if (float(getattr(tg, "start", start)), float(getattr(tg, "end", end))) != (float(ax[0]), float(ax[-1])):
        sh.violation(f"C13:time:{name}:reported-start-end-differ-from-end-points",
                     f"reports ({tg.start!r}, {tg.end!r}), axis ({ax[0]!r}, {ax[-1]!r})", None)
    sh.outcome((name, ax.tolist()[:6], num))
    sh.nontriv()
