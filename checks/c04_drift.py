"""C04 - drift compensation: the chain reproduces the mean of the process it replaces; small-jump variance.

Mode: lattice sweep (complete products, nothing sampled). Sub-checks ("sub" of a case):

 chain1d   one case per (1-d model spec of mc.alphabets.model_specs, Levy and exponential, plus CGMY y in {1, 1.2, 1.5, 0.5}
           with the Brownian coefficient 0.2 written into the triplet after construction - sigma > 0 together with
           infinite-variation jumps, which no built-in model has; see _make_model for what is asserted on the exponential
           versions; plus the "reinit" twins of mc.alphabets.with_reinit (same values reached as the calibration helpers do:
           parameter object built with other values, attributes re-assigned, initialisation(), model constructor) on the
           un-refined grids - thorough: every spec, quick: one Levy and one exponential twin of hem / merton / vg /
           cgmy y=0.5 / cgmy y=1.2  x  declared representation in
           {as constructed, ZERO, CENTER, ONEONE, TILDE}, set with model.levy_triplet.set_representation(R) BEFORE the chain
           is built  x  grid spec of mc.alphabets.grid_specs  x  0..k refinements).  Added input classes (cases()):
             ties       every plain spec (CGMY y = 1 and y = 0: Blumenthal-Getoor index exactly 1 and exactly 0; the sigma = 0
                        parameter sets) x REPS on TIE_GRIDS: states / truncation exactly at the cut-off +-1, h/2 = 1 (central cell
                        = [-1, 1]), a cell boundary on the cut-off, truncation = cut-off;
             two hops   "R1>R2": two successive set_representation calls, every ordered pair (the conversion FROM every
                        representation, TILDE included - the chain itself only ever converts TO TILDE);
             forms      "form": the constructor arguments as Python ints where integral (y = 1, y = 0, sigma = 0, spot = 100)
                        and numpy float64 elsewhere ("int"), or as 0-d arrays ("0d");
             copies     "copied": the model is a copy.deepcopy / dill round trip / copy.copy of the one constructed; after a
                        deep or dill copy the ORIGINAL is disturbed (_disturb_model: other representation, other a and sigma,
                        measure truncated, rate moved) - the copy must not notice;
             deep       DEEP = 4 refinements of the small grids; next_level = n: n successive levels through the coupling.
             asymmetric truncations around the cut-off 1 of the big-jump compensator (ASYM_BOUNDS: exactly one bound beyond
                        +-1 with total width = 2 / < 2, the mirror images, width slightly above 2, one bound exactly on +-1):
                        hand-given bounds (geometric-bounds) for every plain infinite-variation spec (quick: finite-variation
                        ones, one per family, on the first two; thorough: every plain spec, 2 / 3 / 5 points a side) x REPS; and
                        CGMY with ONE heavy tail (C = 0.1, G = 4, M = 30 and the mirror image, y in {1, 1.2, 1.5}; Levy and
                        exponential) on EVERY grid spec - the model-based grid classes (uniform, geometric, probability step,
                        credit) then have such a truncation by themselves - x {as constructed, CENTER, ONEONE, TILDE};
             re-parametrisation histories CROSSING a regime boundary ("reparam": _crossing_donors - CGMY y across 1 both ways,
                        across 0 both ways, across both; HEM / Merton sigma 0 <-> positive; VG theta across 0), in two modes
                        (_reparametrised): "params" - the parameter object built with the donor values, every constructor
                        argument re-assigned, initialisation(), then the model constructor (the calibration helpers' route) -
                        and "live" - the MODEL object built with the donor values and the parameter object it holds re-set
                        afterwards.  Every plain spec (quick: one Levy and one exponential per family, CGMY y in {-0.5, 0, 0.5,
                        1, 1.2, 1.5}, and the second parameter set of HEM / Merton / VG) x REPS x small grids + a model-based
                        one.  Oracles: every reference oracle below on the live triplet, AND process_drift() /
                        equivalent_diffusion_coefficient equal to those of a FRESH model built directly with the final values
                        (_fresh_twin; judged when both declare the same (a, sigma, representation, drift()): what the library
                        fixes at construction - a and sigma of HEM / Merton / VG, omega - legitimately stays the donor's in mode
                        "live", then counted as reparam-not-compared-with-fresh-model) [keys C04:reparam:...].
           The real MarkovChainProcess is built
           (once per sampling method of the case), initialisation(product) is called, and these are observed:
           process_drift(); the per-state rates in two independent ways - (m) the process's own truncated model mass() on
           reference cells re-derived from the axis with the grid's middle(), (s) the law of the sampler actually built,
           recovered exactly by bisection of its single-uniform entry point (mc.c04_util.recover_partition) times
           intensity_of_jumps; equivalent_diffusion_coefficient; the caller's model before and after.
           Then the HISTORY menu is applied, in order, to that ONE process object (first sampling method); after every
           operation process_drift(), equivalent_diffusion_coefficient, the slope of deterministic_path and the caller's model
           (declared drift, sigma, representation, drift(), density inside and outside the truncation) are observed again, and
           3 paths are simulated through the public route pre_computation(3, product) / simulate_one_path() with every random
           draw scripted (mc.c04_util: 2 jumps per interval, generic jump times, identifiable normals):
             simulate                         (no new initialisation: the fixed-times simulator of the first one)
             init-again                       initialisation(vanilla on the spot, maturity 1) a second time - what an engine does
                                              at every pricing
             init-other-product               initialisation(yearly Asian forward, maturity 2: two intervals)
             init-stochastic-dates            initialisation(CDS on a default time): the jump-times simulator
             init-max-step                    initialisation(vanilla, max_step_epsilon=0.3): the maximum-step simulator
             init-max-step-beyond-maturity    max_step_epsilon=2.0 >= maturity
             init-stochastic-dates-max-step   initialisation(CDS, max_step_epsilon=0.3)
             reset-cost-then-init             reset_one_simulation_cost(), initialisation(vanilla)
             other-object-then-init           another chain (model of the OTHER variation class, other grid, jump-times simulator
                                              with maximum step) built and initialised in between; copula chains: also a chain of
                                              the SAME model on the SAME grid object with the other n-d sampling method
                                              (its drift and diffusion matrix must be the same), and one of the margins reversed
             deepcopy-then-init               copy.deepcopy(process).initialisation(vanilla): the copy and the original
             dill-then-init                   the same with a dill round trip (what a pool worker receives)
             deepcopy-then-simulate / dill-then-simulate   the copy used as it is, WITHOUT a new initialisation (Engine.price
                                              deep-copies the initialised coupling and simulates): drift, coefficient, paths
             init-max-step-int-epsilon-at-maturity         max_step_epsilon = 1 (Python int, = maturity)
             init-max-step-numpy-epsilon-positional        initialisation(cds, numpy.float64(0.3)) - positional
           Every simulator class is simulated with 2 jumps per interval and once with NO jump at all (the fallback branches
           of the jump-time simulators).  deterministic_path is also called with every legal form of its argument (integer-dtype
           array, (1, n) array, Python / numpy scalars, 0-d array): same numbers as with the float array (exact), the caller's
           array untouched, the array returned not a reference to the process's state.
           After the menu: the caller's grid object (axis, origin, h) is as it was; then the CALLER disturbs its own model
           object (_disturb_model) and the chain is initialised again: drift and coefficient of before (the chain owns a deep
           copy; it keeps no reference to the caller's model).
           Public functions called directly on every case: compute_mu_h with the axis as the grid's own array / list / tuple /
           fresh array and the origin as int / numpy integer / 0-d array (same answer, = sum x_k mass(cell_k), axis untouched);
           vol_adjustment with h as float / numpy scalar / 0-d array / int (same answer, sigma^2 + its square =
           equivalent_diffusion_coefficient^2); deep and dill copies of the triplet taken before a conversion are what the
           original was and convert to the same drift (exact).
           Finally (flagged cases) the route the multilevel engine takes to a refinement level: the grid OBJECT of
           the case, already used by the chains above, goes to CouplingMarkovChain(model, method, grid).initialisation(product);
           next_level(0, None, product) refines it in place and builds the next chain: mean identity (cell masses), added
           variance of that chain, and the coupling's equivalent_diffusion_coefficient_fine / _coarse.  Levels 2..n (next_level
           = n) are reached as Engine.price reaches them: copy.deepcopy of the coupling of the level before, next_level WITH a
           path manager (MLMCPath on the fine deterministic path): the same identities on every level, the fine / coarse
           deterministic paths of the new manager grow by the drift of the chain of the level / of the level before, and the
           coupling that was copied keeps its grid and drift.
 copula    (margins of mc.alphabets.MARGINS plus cgmy10 / cgmy00: CGMY y = 1 and y = 0, the ties of the Blumenthal-Getoor
           index; tie pairs on the un-refined small grids; the copula model reached through a deepcopy / dill copy whose
           original is disturbed; one chain of dimension 4 - drift and diffusion matrix only; pairs with a CGMY y = 1.2 margin
           on the asymmetric hand-given truncations ASYM_GRIDS, the one-tailed margin cgmy12L on the model-based grids, and
           margins whose model object was re-parametrised across y = 1 after construction: "cgmy05<14", "cgmy12<06")
           one case per (pair of margins in both orders of finite / infinite variation, or triple with the infinite-variation
           margin first, in the middle or last; Levy and exponential, copula, representation applied to every margin that
           admits it or MIXED = margin k declared in (CENTER, ONEONE, TILDE)[k % 3], 2-d / 3-d grid, refinements):
           MarkovChainLevyCopula, initialisation(product), _process_drift per margin, _path_simulation.diffusion_matrix, the
           same HISTORY menu on the one process object, and (2-d, un-refined fixed / geometric-bounds / credit grids; quick:
           Clayton only) the drift per margin of the fine process of CouplingProcessLevyCopula after next_level on the re-used
           grid object.

Oracles (T = [axis[0], axis[-1]] the truncation of the grid, (a, sigma, nu) the caller's triplet in its declared representation
R with cut-off c_R of mc.oracle.cutoff, all integrals by quadrature of the model's OWN density nu.__call__):

 mean          process_drift + sum_k x_k rate_k  =  model.drift() + a + int_T x (1 - c_R(x)) nu(dx)
               The chain replaces nu by its restriction to T and keeps the compensator of the declared representation; a Levy
               process with exponent i u a + int (e^{iux} - 1 - i u x c_R(x)) nu_T(dx) has mean a + int_T x (1 - c_R) nu per unit
               time; model.drift() is the (r - d + omega) of exponential models, 0 for Levy models. With c_R = alpha 1{|x|<1} +
               beta 1{|x|>=1}: ZERO (0,0), CENTER (1,1), ONEONE (1,0), TILDE = ZERO for finite variation else ONEONE.
               Asserted for the rates (m) [key C04:mean] and for each sampler law (s) [key C04:sampler-mean:<method>], and (m)
               for the chain after next_level [key ...:after-next-level].  deterministic_path(t) - what every simulated path is
               added to - must grow by process_drift per unit time [key C04:mean:Process.deterministic_path].
 history       after every operation of the menu process_drift() and equivalent_diffusion_coefficient (copula: D D^T) are those
               of the first initialisation (rtol 1e-12 of the largest term of the mean identity): the mean identity is a
               property of the approximation, not of how often or for which product it was initialised; the caller's model is
               untouched [keys C04:history:...:changes-after-<operation>].
 conversion    the drift declared after set_representation(R) = a0 + int_R x (c_R - c_R0)(x) nu(dx), (a0, R0) as constructed
               (full measure: the conversion happens on the caller's un-truncated model).
 variance      equivalent_diffusion_coefficient^2 - sigma^2 = int_{central cell ^ [-1,1]} x^2 nu for infinite-variation models,
               = 0 for finite-variation models (central cell = between the two cell boundaries next to the origin); also for the
               chain after next_level, whose coupling must carry that coefficient as ..._fine and the one of the chain of the
               level before as ..._coarse.
 simulated-variance  the simulated diffusion increments of every simulator (fixed-times, jump-times, maximum-step; 1-d and copula)
               are D z sqrt(dt) for ONE D (least squares over all steps of 3 paths, residual <= 1e-9) with D^2 =
               equivalent_diffusion_coefficient^2 = sigma^2 + variance of the central-cell jumps (1-d), D D^T = that of the
               diffusion matrix (copula): the small-jump variance is part of EVERY simulated approximation.
 variance-bound  |sum_{k != 0} x_k^2 rate_k - int_{T \\ central} x^2 nu| <= sum_{k != 0} osc_k(x^2) mass_k, and the statement's total
               |sigma_eq^2 + sum_k x_k^2 rate_k - (sigma^2 + int_T x^2 nu)| <= sum_{k != 0} osc_k(x^2) mass_k + (finite variation:
               int_central x^2 nu, which is <= osc_0 mass_0 and finite even when mass_0 is not), mass_k by quadrature.
 copula-mean   per margin k: _process_drift[k] + sum_i x_i nu_k(cell_i)  =  margin.drift() + a_k + int_{T_k} x (1 - c_{R_k}) nu_k
               (cells of axis k, arithmetic middles, nu_k the margin's own density): the deterministic drift of margin k
               compensates the states of axis k weighted by the MARGINAL cell masses, exactly as the 1-d chain of that margin.
 copula-variance  D = _path_simulation.diffusion_matrix ("finite variation" = every margin's OWN measure says so - at an index
               of exactly 1 the index does not tell; a margin of infinite variation for which the small-jump covariance was not
               even requested and whose diagonal entry is sigma_k^2 is reported: nothing-added-for-an-infinite-variation-margin):
               D D^T = diag(sigma_k^2) for finite-variation copula models (exact);
               for infinite-variation ones with the scripted pool (all cases but the "diffusion" ones) D D^T = diag(sigma_k^2) + F,
               F the known positive definite matrix of (co)variances the stand-in pool answered with (exact: the answers are
               added once, as (co)variances, in dimension 2 and 3); with the real vol_adjustment_ij ("diffusion" cases) D D^T =
               diag(sigma_k^2) + C, C_ij = int_{central box} x_i x_j nu(dx) computed from the
               definition (integration by parts against mc.oracle.ref_rectangle_mass), within the library's own requested
               quadrature accuracy (nquad epsabs 1e-3 propagated: 2.2e-3/h on the diagonal, 1.1e-3 off it, d = 2).

Outside the alphabet (statement silent or quantity does not exist), never an alarm:
 * ZERO for an infinite-variation model (int |x| nu diverges at the origin; the library raises or returns inf);
 * Black-Scholes / pure diffusions (no jumps, the model-based grids cannot be built);
 * grids that are not well formed (C13) and credit thresholds not strictly inside (l, -h) (OutsideAlphabet);
 * the table sampler (approximate by construction: 2^-20 per state, C02) - the exact samplers are INVERSION,
   BINARYSEARCHTREEADAPTED1D (quick) + ALIAS, BINARYSEARCHTREE, HUFFMANNTREE (thorough);
 * copula chains: the jump part weighted by the JOINT rates differs from the marginal sum by the mass of jumps whose OTHER
   coordinate leaves the box (a truncation effect: which process "the truncated process" is for a margin of a box-truncated
   copula model is not fixed by the statement); it is measured and written to the evidence samples ("leak"), not judged.
   In dimension 3 the small-jump covariance itself is not computed (an infinite-variation triple takes > 200 s): only what the
   library does with the pool's answers.
 * infinite-variation copula chains are constructed with the pathos pool of MCLevyCopulaSimulation replaced by a stand-in:
   scripted non-zero answers (_scripted_covariance) everywhere but in the "diffusion" cases (1 quick, 4 thorough), which use
   an in-process synchronous pool running the real vol_adjustment_ij and, every initialisation costing 5 - 30 s there, only the
   first operation of the history menu;
 * a process re-initialised after its grid object was refined by somebody else (the library builds a new process then);
 * deterministic_path called with a list or a tuple (the library raises TypeError), copy.copy of a triplet (it shares the
   conversion table bound to the original; the library never does it); central cells wider than [-1, 1] (h > 2: the statement
   says "inside the central cell", the library integrates over its intersection with [-1, 1]);
 * the sampler of a chain without any mass outside the central cell in double precision (Merton on the h = 2 grid: intensity
   0.0, nothing to draw - C02): counted, the other identities are evaluated with an empty sum, paths are simulated without jumps;
 * the simulated Brownian covariance in dimension 4 (the identifiable normals of the scripted source do not span R^4);
 * steps of a simulated path shorter than 1e-9 (residual duplicate times of the maximum-step refinement: C15's subject);
 * the jump component of the simulated paths (C15) and the law of the states drawn (C02): only the diffusion component is read.
"""
from __future__ import annotations

import contextlib
import math
import warnings

import numpy as np
from scipy.integrate import dblquad, quad

from mc import alphabets as A
from mc import core
from mc import oracle as O

PID = "C04"
LEVEL = "exploration"
RULE = (
    "complete product (1-d model spec incl. reinit twins, re-parametrisations across every regime boundary (parameter object and "
    "live model), one-tailed CGMY, argument-form twins and copied models x declared representation incl. "
    "two-hop conversions x grid spec incl. tie grids and asymmetric truncations around the cut-off x refinements incl. deep levels; margin pair / triple / quadruple incl. the "
    "Blumenthal-Getoor ties x copula x representation incl. MIXED x 2-d / 3-d / 4-d grid x refinements), each case followed "
    "by the complete HISTORY menu on its one process object (where flagged), the caller disturbing its own model, and, where "
    "flagged, the coupling's next_level (1..n levels) on its one grid object; a case is non-trivial "
    "when process_drift plus the rate-weighted states was compared with a quadrature mean whose own error estimate was below "
    "the tolerance; distinct = distinct case dict"
)
ASSUMPTIONS = [
    "oracle integrals are scipy QUADPACK (mpmath tanh-sinh fallback) quadratures of the model's own density nu.__call__, split "
    "at 0, +-1, with the substitution x = +-t^8 on pieces touching the origin; a comparison is made only when the quadrature's "
    "error estimate is below the tolerance, otherwise oracle_inconclusive is counted",
    "nu.jump_of_finite_variation() is trusted to define the TILDE cut-off and which variance rule applies",
    "tolerances: mean rtol 1e-9 (finite variation) / 1e-8 (infinite variation) of the largest term, atol 1e-13; sampler laws add "
    "4 ulp(1) x intensity x sum|x_k| (break points are located to 1 ulp of the uniform); histories rtol 1e-12",
    "sampler law: no piece of the map u -> state lies strictly between two agreeing probes of the initial dyadic sweep "
    "(n0 >= 16 x number of states), as in C02 - alias tables are also probed on both sides of every column edge and inside the "
    "alias piece of every column (mc.c04_util.alias_interior: the table is read to place probes only); the inversion sampler's "
    "hidden numpy.random.choice is scripted (first element)",
    "infinite-variation copula chains: pathos pool of MCLevyCopulaSimulation replaced by a stand-in with scripted non-zero "
    "answers keyed by the first two arguments (i, j) of the submitted call (drift cases) or an in-process synchronous pool "
    "running the real vol_adjustment_ij (diffusion cases); the reference central-box covariance "
    "shares the copula function and the margins' integrate with the library (checked in C09/C11/C12)",
    "simulated paths: every draw of the library goes through the numpy.random module functions replaced by mc.c15_util."
    "ScriptedRNG (constant jump counts, generic times and normals); the standard normals of one numpy.random.normal call are laid "
    "out component-major or step-major (both tried; 2 dim + 1 paths in dimension > 1 so that the fit is over-determined); a "
    "protocol the script does not recognise is counted, never an alarm",
    "differential oracles (argument forms, copies): exact equality for copies of the same computation and for scalar / integer / "
    "(1, n) forms of deterministic_path (the same double operations); 4 ulp of sum |x_k| mass_k for the forms of compute_mu_h",
]
CHUNK = 4

INF = math.inf
EPS = float(np.finfo(float).eps)
ATOL = 1e-13
REPS = [None, "ZERO", "CENTER", "ONEONE", "TILDE"]
MIXED = ["CENTER", "ONEONE", "TILDE"]  # copula chains, "MIXED": margin k declared in MIXED[k % 3]
METHODS_QUICK = ["INVERSION", "BINARYSEARCHTREEADAPTED1D"]
METHODS_THOROUGH = ["INVERSION", "BINARYSEARCHTREEADAPTED1D", "ALIAS", "BINARYSEARCHTREE", "HUFFMANNTREE"]


# ----------------------------------------------------------------------------------------------------------------------
# alphabet
# ----------------------------------------------------------------------------------------------------------------------

def _spec_fv(spec):
    """finite variation of the jumps, from the spec alone (used to keep ZERO out of the lattice where it does not exist);
    re-checked against the library's own flag in check_case"""
    return not (spec["family"] == "cgmy" and spec["params"]["y"] >= 1.0)


def _warm():
    """import the library once in the parent so that the forked workers do not each pay the import"""
    import rpylib.distribution.samplingfactory  # noqa: F401
    import rpylib.grid.spatial  # noqa: F401
    import rpylib.process.markovchain.markovchain  # noqa: F401
    import rpylib.process.markovchain.markovchainlevycopula  # noqa: F401
    import rpylib.product.payoff  # noqa: F401
    import rpylib.product.product  # noqa: F401


COPULA_GRIDS = [
    {"kind": "fixed", "h": 0.1, "n": 3},
    {"kind": "fixed", "h": 0.1, "n": 5},
    {"kind": "geometric-bounds", "h": 0.1, "bounds": [-0.7, 0.4], "n_side": 3},
    {"kind": "uniform", "h": 0.2, "p": 0.99999},
    {"kind": "credit", "h": 0.1, "a_frac": 0.5, "symmetric": True},
    {"kind": "credit", "h": 0.1, "a_frac": [0.4, 0.6], "symmetric": False},
]


# grids with an exact tie at a comparison of the anchored code (the cut-off 1 of ONEONE / TILDE against a state, a cell boundary,
# the truncation and the central cell)
TIE_GRIDS = [
    {"kind": "fixed", "h": 0.5, "n": 5},  # states and truncation exactly at +-1
    {"kind": "fixed", "h": 2.0, "n": 3},  # h / 2 = 1: the central cell is [-1, 1] exactly (max(-h/2, -1), min(h/2, 1))
    {"kind": "fixed", "h": 0.4, "n": 7},  # the cell boundary between 0.8 and 1.2 falls on the cut-off 1 (to an ulp)
    {"kind": "geometric-bounds", "h": 0.1, "bounds": [-1.0, 1.0], "n_side": 3},  # truncation = cut-off
]
# hand-given asymmetric truncations around the cut-off 1: one bound beyond +-1 and width = 2 exactly / < 2, mirror images, width
# slightly above 2, one bound exactly on the cut-off
ASYM_BOUNDS = [(-1.6, 0.4), (-0.3, 1.5), (-1.5, 0.3), (-0.4, 1.6), (-1.7, 0.4), (-0.4, 1.7), (-1.0, 0.5), (-0.5, 1.0)]
ASYM_GRIDS = [{"kind": "geometric-bounds", "h": 0.1, "bounds": list(b), "n_side": 3} for b in ASYM_BOUNDS]
SMALL_GRIDS = [{"kind": "fixed", "h": 0.1, "n": 3}, {"kind": "geometric-bounds", "h": 0.1, "bounds": [-0.7, 0.4], "n_side": 3}]
DEEP = 4  # refinements of the deep-level cases (small grids)


def _one_per_family(specs, ys=(0.5, 1.2)):
    """one Levy and one exponential spec per family, CGMY for the given y (plain specs only)"""
    seen, out = set(), []
    for ms in specs:
        y = ms["params"].get("y")
        key = (ms["family"], bool(ms.get("exp")), y)
        if (key in seen or ms.get("triplet_sigma") is not None or ms.get("via") or (ms["family"] == "cgmy" and y not in ys)
                or (ms["family"] == "cgmy" and ms["params"]["g"] == ms["params"]["m"])):
            continue
        seen.add(key)
        out.append(ms)
    return out


def cases(tier):
    _warm()
    thorough = tier == "thorough"
    out = []
    methods = METHODS_THOROUGH if thorough else METHODS_QUICK
    ks = (0, 1, 2)
    specs = A.model_specs(tier, families=("hem", "merton", "vg", "cgmy"))
    # sigma > 0 together with infinite-variation jumps (and, for contrast, with finite-variation infinite-activity jumps):
    # a legal triplet that no built-in model has; both tiers
    for y in (1.0, 1.2, 1.5, 0.5):
        for exp in (False, True):
            ms = {"family": "cgmy", "exp": exp, "params": {"c": 1.0, "g": 15.0, "m": 20.0, "y": y}, "triplet_sigma": 0.2}
            specs.append(dict(ms, r=0.02, d=0.0, spot=100.0) if exp else ms)
    plain = list(specs)
    # the construction route of the calibration helpers ("reinit" twin of mc.alphabets.with_reinit: parameter object built with
    # other values - a finite-variation CGMY donor for the infinite-variation targets -, attributes re-assigned,
    # initialisation(), model constructor): thorough every spec, quick one Levy and one exponential twin per family and the two
    # CGMY variation classes
    if thorough:
        specs = A.with_reinit(specs)
    else:
        specs = specs + [dict(ms, via="reinit") for ms in _one_per_family(plain)]
    grids = A.grid_specs(tier, dimension=1)
    # simplest first: as constructed on un-refined grids
    for k in ks:
        for rep in REPS:
            for ms in specs:
                if rep == "ZERO" and not _spec_fv(ms):
                    continue
                if ms.get("via") == "reinit" and k:
                    continue  # the twins differ in how the model was reached, not in the grid: un-refined grids only
                for g in grids:
                    if k == 2 and not thorough and g["kind"] in ("uniform", "probability"):
                        continue  # quick: the second refinement only on the small grids
                    out.append({"sub": "chain1d", "model": ms, "rep": rep, "grid": dict(g, refine=k), "methods": methods,
                                "history": True, "next_level": k <= 1})
    # ---- exact ties: every plain spec (the CGMY exponents 1 and 0 - Blumenthal-Getoor index exactly 1 and exactly 0 - and the
    # sigma = 0 parameter sets are among them) on the grids with a tie at the cut-off 1; history on the as-constructed cases
    for k in ((0, 1) if thorough else (0,)):
        for rep in REPS:
            for ms in plain:
                if rep == "ZERO" and not _spec_fv(ms):
                    continue
                for g in TIE_GRIDS:
                    out.append({"sub": "chain1d", "model": ms, "rep": rep, "grid": dict(g, refine=k), "methods": methods,
                                "history": rep is None, "next_level": rep is None and k == 0})
    # ---- two successive conversions R1 > R2 of the declared representation before the chain is built (every ordered pair: the
    # conversion FROM each representation, TILDE included); no history (the chain itself is as in the one-hop cases)
    two_hop = [f"{r1}>{r2}" for r1 in REPS[1:] for r2 in REPS[1:] if r1 != r2]
    for rep in two_hop:
        for ms in plain:
            if "ZERO" in rep and not _spec_fv(ms):
                continue
            for g in (SMALL_GRIDS + TIE_GRIDS[:1] if thorough else SMALL_GRIDS[1:]):
                out.append({"sub": "chain1d", "model": ms, "rep": rep, "grid": dict(g, refine=0), "methods": methods[:1],
                            "history": False, "next_level": False})
    # ---- the same parameter values in another legal FORM of the constructor arguments ("int": Python ints where the value is
    # integral - y = 1, y = 0, sigma = 0, spot = 100 ... -, numpy float64 elsewhere; "0d": 0-d numpy arrays), and the model
    # reached through a COPY (copy.deepcopy / dill round trip, after which the original is re-declared, truncated and given
    # another sigma; copy.copy, which shares the triplet by construction: the original is left alone)
    tie_specs = [ms for ms in plain if ms["family"] == "cgmy" and ms["params"]["y"] in (0.0, 1.0) and ms.get("triplet_sigma") is None]
    base = plain if thorough else _one_per_family(plain) + tie_specs
    variants = [dict(ms, form=f) for f in ("int", "0d") for ms in base if thorough or f == "int" or ms in tie_specs]
    variants += [dict(ms, copied=c) for c in ("deepcopy", "dill", "copy") for ms in (plain if thorough else _one_per_family(plain))
                 if thorough or c != "copy" or ms["family"] in ("cgmy", "hem")]
    for rep in REPS:
        for ms in variants:
            if rep == "ZERO" and not _spec_fv(ms):
                continue
            for g in (SMALL_GRIDS + [{"kind": "uniform", "h": 0.2, "p": 0.9}] if ms.get("form") else SMALL_GRIDS):
                out.append({"sub": "chain1d", "model": ms, "rep": rep, "grid": dict(g, refine=0), "methods": methods[:1],
                            "history": rep is None and bool(ms.get("copied")), "next_level": False})
    # ---- deep levels: DEEP refinements of the small grids, and (next_level = n) n successive levels through the coupling, the
    # way the multilevel engine reaches them (deepcopy of the coupling, next_level with path managers)
    for rep in (REPS if thorough else [None, "CENTER"]):
        for ms in (plain if thorough or rep is None else _one_per_family(plain)):
            if rep == "ZERO" and not _spec_fv(ms):
                continue
            for g in SMALL_GRIDS:
                out.append({"sub": "chain1d", "model": ms, "rep": rep, "grid": dict(g, refine=DEEP), "methods": methods[:1],
                            "history": False, "next_level": False})
                if rep is None:
                    out.append({"sub": "chain1d", "model": ms, "rep": rep, "grid": dict(g, refine=0), "methods": methods[:1],
                                "history": False, "next_level": 4 if thorough else 3})
    # ---- asymmetric truncations around the cut-off 1 of the big-jump compensator: exactly ONE bound beyond +-1 with a total
    # width <= 2 (= 2 exactly, < 2), the mirror images, a width slightly above 2, one bound exactly on the cut-off.
    #  (i) hand-given bounds (geometric-bounds; quick: n_side 3, thorough also 2 and 5) for every plain spec of infinite variation
    #      (thorough: every plain spec), every declared representation;
    # (ii) CGMY with ONE heavy tail (G = 4, M = 30 and the mirror image), y in {1, 1.2, 1.5}: the model-based grid classes
    #      (uniform, geometric, probability step, credit) then have such a truncation by themselves ([-1.50, 0.32] at h = 0.1 for
    #      y = 1.2, width 2.13 at h = 0.2) - Levy and exponential, every grid spec, refinements 0 (and 1 on the small ones).
    for rep in REPS:
        for ms in plain:
            if (rep == "ZERO" and not _spec_fv(ms)) or (_spec_fv(ms) and not thorough and ms not in _one_per_family(plain)):
                continue
            for j, b in enumerate(ASYM_BOUNDS):
                if _spec_fv(ms) and not thorough and j >= 2:
                    continue  # quick: finite variation (cut-off 0, for contrast) on the first two only
                for n_side in ((2, 3, 5) if thorough else (3,)):
                    out.append({"sub": "chain1d", "model": ms, "rep": rep,
                                "grid": {"kind": "geometric-bounds", "h": 0.1, "bounds": list(b), "n_side": n_side, "refine": 0},
                                "methods": methods[:1], "history": rep is None and j < 2 and n_side == 3 and not _spec_fv(ms),
                                "next_level": rep is None and j < 2 and n_side == 3 and not _spec_fv(ms)})
    one_tail = []
    for y in (1.2, 1.0, 1.5):
        for (c, g, m) in ((0.1, 4.0, 30.0), (0.1, 30.0, 4.0)):
            if not thorough and y != 1.2 and (g < m) != (y == 1.0):
                continue  # quick: both tails for y = 1.2, the left one for y = 1, the right one for y = 1.5
            for exp in (False, True):
                ms = {"family": "cgmy", "exp": exp, "params": {"c": c, "g": g, "m": m, "y": y}}
                one_tail.append(dict(ms, r=0.02, d=0.0, spot=100.0) if exp else ms)
    for k in (0, 1):
        for rep in REPS[:1] + REPS[2:]:
            for ms in one_tail:
                for g in grids:
                    if k and (not thorough) and (g["kind"] != "geometric" or rep is not None):
                        continue
                    out.append({"sub": "chain1d", "model": ms, "rep": rep, "grid": dict(g, refine=k), "methods": methods[:1],
                                "history": rep is None and k == 0 and g["kind"] in ("uniform", "credit") and g.get("p") != 0.9,
                                "next_level": rep is None and k == 0 and g["kind"] in ("uniform", "geometric")})
    # ---- re-parametrisation histories that CROSS a regime boundary of the family (_crossing_donors: CGMY y across 1 both ways
    # and across 0 both ways, HEM / Merton sigma 0 <-> positive, VG theta across 0), mode "params" (the parameter object re-set
    # before the model is built - the route of the calibration helpers) and mode "live" (the MODEL object re-parametrised after
    # its construction): every plain spec (quick: one Levy and one exponential per family, the CGMY exponents -0.5, 0, 0.5, 1,
    # 1.2, 1.5 with G != M), every representation, the small grids + a model-based one.
    rp_base = [ms for ms in plain if ms.get("triplet_sigma") is None]
    if not thorough:
        rp_base = _one_per_family(plain, ys=(-0.5, 0.0, 0.5, 1.0, 1.2, 1.5))
        # + the second (sigma = 0 / theta < 0) parameter set of HEM, Merton, VG as Levy models: the other direction
        rp_base += [ms for ms in plain if ms["family"] != "cgmy" and ms["params"] and not ms.get("exp")]
    rp_specs = _with_reparam(rp_base)
    rp_grids = SMALL_GRIDS + [{"kind": "uniform", "h": 0.1, "p": 0.99999}] + ([{"kind": "geometric", "h": 0.1, "n_side": 3, "p": 0.99999},
                                                                               list(ASYM_GRIDS)[0]] if thorough else [])
    for rep in REPS:
        for ms in rp_specs:
            if rep == "ZERO" and not _spec_fv(ms):
                continue
            for j, g in enumerate(rp_grids):
                if not thorough and rep not in (None, "ONEONE") and j != 1:
                    continue
                out.append({"sub": "chain1d", "model": ms, "rep": rep, "grid": dict(g, refine=0), "methods": methods[:1],
                            "history": rep is None and j == 0 and ms["reparam"]["mode"] == "live",
                            "next_level": rep is None and j == 1 and ms["reparam"]["mode"] == "live"})
    # copula chains, d = 2 (both orders of a finite- and an infinite-variation margin) and d = 3 (drift only)
    pairs = [("hem", "vg"), ("cgmy05", "cgmy12"), ("cgmy12", "vg"), ("cgmy12", "hem")]
    cops = [{"kind": "clayton", "theta": 0.7, "eta": 0.3}, {"kind": "independent"}]
    # exact ties: a margin with Blumenthal-Getoor index exactly 1 (CGMY y = 1: infinite variation by its own measure) and
    # exactly 0 (y = 0), next to a finite-variation margin, in both orders
    tie_pairs = [("cgmy10", "vg"), ("hem", "cgmy10"), ("cgmy00", "cgmy12")]
    if thorough:
        pairs += [("hem", "hem2"), ("vg", "cgmy12"), ("merton", "cgmy05"), ("cgmy12", "cgmy12"), ("cgmy12", "hem2")]
        tie_pairs += [("cgmy10", "cgmy12"), ("cgmy10", "cgmy00"), ("cgmy00", "hem2")]
        cops = A.copula_specs(tier)
    for k in (0, 1):
        for rep in REPS + ["MIXED"]:
            for exp in (False, True):
                for pair in pairs:
                    for cop in cops:
                        for g in COPULA_GRIDS:
                            if k == 1 and not thorough and g["kind"] not in ("fixed", "credit"):
                                continue
                            # next level through the coupling: the small grids (quick: clayton only), from level 0
                            nl = k == 0 and g["kind"] in ("fixed", "geometric-bounds", "credit") and (thorough or cop["kind"] == "clayton")
                            out.append({"sub": "copula", "model": {"margins": list(pair), "copula": cop, "exp": exp}, "rep": rep,
                                        "grid": dict(g, refine=k), "diffusion": False, "history": True, "next_level": nl})
    # the ties (un-refined small grids), and the copula model reached through a copy (deepcopy / dill; the original disturbed)
    for rep in REPS + ["MIXED"]:
        for exp in (False, True):
            for pair in tie_pairs:
                for g in (COPULA_GRIDS if thorough else COPULA_GRIDS[:3:2] + COPULA_GRIDS[5:]):
                    out.append({"sub": "copula", "model": {"margins": list(pair), "copula": cops[0], "exp": exp}, "rep": rep,
                                "grid": dict(g, refine=0), "diffusion": False, "history": rep in (None, "MIXED"),
                                "next_level": rep is None and g["kind"] == "fixed"})
            for route in ("deepcopy", "dill"):
                for pair in (pairs if thorough else pairs[1:3]):
                    for g in COPULA_GRIDS[:3:2]:
                        out.append({"sub": "copula", "model": {"margins": list(pair), "copula": cops[0], "exp": exp, "copied": route},
                                    "rep": rep, "grid": dict(g, refine=0), "diffusion": False, "history": rep is None,
                                    "next_level": False})
    # asymmetric truncations around the cut-off 1 (hand-given bounds; the one-tailed margin on the model-based grids), and
    # margins whose model object was re-parametrised across y = 1 after its construction
    for rep in (REPS + ["MIXED"] if thorough else [None, "ONEONE", "MIXED"]):
        for exp in (False, True):
            for pair in [("cgmy12", "vg"), ("hem", "cgmy12")]:
                for g in (ASYM_GRIDS if thorough else ASYM_GRIDS[:2]):
                    out.append({"sub": "copula", "model": {"margins": list(pair), "copula": cops[0], "exp": exp}, "rep": rep,
                                "grid": dict(g, refine=0), "diffusion": False, "history": False, "next_level": rep is None})
            for g in (COPULA_GRIDS[3], COPULA_GRIDS[5], {"kind": "uniform", "h": 0.1, "p": 0.99999}):
                out.append({"sub": "copula", "model": {"margins": ["cgmy12L", "cgmy12L"], "copula": cops[0], "exp": exp}, "rep": rep,
                            "grid": dict(g, refine=0), "diffusion": False, "history": False, "next_level": False})
            for pair in [("cgmy05<14", "cgmy12"), ("hem", "cgmy12<06"), ("cgmy05<14", "vg")]:
                for g in COPULA_GRIDS[:3:2]:
                    out.append({"sub": "copula", "model": {"margins": list(pair), "copula": cops[0], "exp": exp}, "rep": rep,
                                "grid": dict(g, refine=0), "diffusion": False, "history": rep is None,
                                "next_level": rep is None and g["kind"] == "fixed"})
    # dimension 4 (the generic n-d mass; finite- and infinite-variation margins), smallest grid
    for rep in ([None, "CENTER", "MIXED"] if thorough else [None, "MIXED"]):
        for exp in ((False, True) if thorough else (False,)):
            out.append({"sub": "copula", "model": {"margins": ["hem", "cgmy12", "vg", "cgmy05"], "copula": cops[0], "exp": exp},
                        "rep": rep, "grid": {"kind": "fixed", "h": 0.1, "n": 3, "refine": 0}, "diffusion": False,
                        "history": rep is None and not exp})
    triples = [("hem", "cgmy12", "vg"), ("cgmy12", "hem", "vg")] + ([("hem", "vg", "cgmy12"), ("hem", "vg", "cgmy05")] if thorough else [])
    grids3 = [{"kind": "fixed", "h": 0.1, "n": 3}, {"kind": "geometric-bounds", "h": 0.1, "bounds": [-0.7, 0.4], "n_side": 3},
              {"kind": "credit", "h": 0.1, "a_frac": [0.4, 0.5, 0.6], "symmetric": False}]
    for k in ((0, 1) if thorough else (0,)):
        for rep in REPS + ["MIXED"]:
            for exp in (False, True):
                for tr in triples:
                    for g in grids3:
                        out.append({"sub": "copula", "model": {"margins": list(tr), "copula": cops[0], "exp": exp}, "rep": rep,
                                    "grid": dict(g, refine=k), "diffusion": False, "history": True})
    # the real small-jump covariance of infinite-variation copula chains (slow: nquad of the library + reference)
    diff = [(("cgmy05", "cgmy12"), {"kind": "clayton", "theta": 0.7, "eta": 0.3}, {"kind": "fixed", "h": 0.1, "n": 3}, False)]
    if thorough:
        diff += [
            (("vg", "cgmy12"), {"kind": "clayton", "theta": 3.0, "eta": 1.0}, {"kind": "fixed", "h": 0.1, "n": 5}, True),
            (("cgmy12", "cgmy12"), {"kind": "clayton", "theta": 0.7, "eta": 0.3}, {"kind": "fixed", "h": 0.1, "n": 3}, False),
            (("cgmy12", "hem2"), {"kind": "clayton", "theta": 3.0, "eta": 0.0}, {"kind": "fixed", "h": 0.2, "n": 3}, False),
        ]
    # listed first only so that these few slow cases (5 - 30 s each) overlap with the rest of the sweep
    slow = [{"sub": "copula", "model": {"margins": list(pair), "copula": cop, "exp": exp}, "rep": None,
             "grid": dict(g, refine=0), "diffusion": True, "history": True} for pair, cop, g, exp in diff]
    return slow + out


# ----------------------------------------------------------------------------------------------------------------------
# labels
# ----------------------------------------------------------------------------------------------------------------------

def _mclass(spec):
    fam = spec["family"]
    p = spec["params"]
    if fam == "cgmy":
        s = f"cgmy:y={p['y']:g}"
        if p["g"] == p["m"]:
            s += ":g=m"
    else:
        s = fam + (":alt" if p else ":default")
    if spec.get("triplet_sigma") is not None:
        s += f":sigma={spec['triplet_sigma']:g}"
    if spec.get("via") == "reinit":
        s += ":reinit"
    if spec.get("reparam"):
        s += f":reparam={spec['reparam']['mode']}:{spec['reparam']['cross']}"
    if spec.get("form"):
        s += f":form={spec['form']}"
    if spec.get("copied"):
        s += f":copied={spec['copied']}"
    return ("exp-" if spec.get("exp") else "") + s


def _as_form(v, form):
    """the value v in another legal form of a constructor argument"""
    if form == "0d":
        return np.array(float(v))
    if form == "int":
        return int(v) if float(v).is_integer() else np.float64(v)
    raise ValueError(form)


def _copy_route(obj, route):
    import copy

    if route == "deepcopy":
        return copy.deepcopy(obj)
    if route == "copy":
        return copy.copy(obj)
    if route == "dill":
        import dill

        return dill.loads(dill.dumps(obj))
    raise ValueError(route)


def _disturb_model(model, truncations=(-0.05, 0.05)):
    """what a caller may do to ITS model object afterwards: declare another representation, write another drift and Brownian
    coefficient into the triplet, truncate the measure (and move the rate of an exponential model).  Whoever took a copy of
    the model before must not notice."""
    from rpylib.model.levymodel.levymodel import LevyRepresentation

    tr = model.levy_triplet
    other = "ONEONE" if tr.representation.name == "CENTER" else "CENTER"
    tr.set_representation(LevyRepresentation[other])
    tr.a = _real(tr.a) + 1.0
    tr.sigma = _real(tr.sigma) + 0.25
    model.truncate_levy_measure(truncations=truncations)
    if hasattr(model, "r") and hasattr(model, "d"):
        model.r = model.r + 0.01


def _make_model(spec):
    """mc.alphabets.make_model, plus
    * "form": the constructor arguments in another legal form (_as_form);
    * "triplet_sigma": a Brownian coefficient written into the triplet after construction (`model.levy_triplet.sigma = s`: the
      only way to get sigma > 0 together with infinite-variation jumps - no built-in model has both).  For the exponential
      classes the triplet is shared with the inner Levy model, and omega (hence model.drift()) was fixed at construction
      without the -sigma^2/2 of the new coefficient: the discounted spot is then no martingale, which this property does not
      speak about - the mean oracle takes model.drift() as it is, and sigma does not enter the mean of the simulated (log)
      process; the variance clauses read sigma from the triplet, as the chain does;
    * "copied": the model handed on is a copy (copy.deepcopy / dill round trip / copy.copy) of the one constructed; after a deep
      or dill copy the ORIGINAL is disturbed (_disturb_model): the copy must be independent of it."""
    extra = ("triplet_sigma", "form", "copied", "reparam")
    plain = {k: v for k, v in spec.items() if k not in extra}
    form = spec.get("form")
    if form:
        plain["params"] = {k: _as_form(v, form) for k, v in spec["params"].items()}
        for k in ("r", "d", "spot"):
            if k in plain:
                plain[k] = _as_form(plain[k], form)
    model = _reparametrised(plain, spec["reparam"]) if spec.get("reparam") else A.make_model(plain)
    if spec.get("triplet_sigma") is not None:
        model.levy_triplet.sigma = float(spec["triplet_sigma"])
    route = spec.get("copied")
    if route:
        original = model
        model = _copy_route(original, route)
        if route != "copy":
            _disturb_model(original)
    return model


def _crossing_donors(spec):
    """[(name of the regime boundary crossed, donor parameter set)]: parameter sets on the OTHER side of a regime boundary of
    the family from the spec's own - CGMY: the exponent y across 1 (finite / infinite variation) and across 0 (finite / infinite
    activity of the closed forms' branches), HEM / Merton: the Brownian coefficient 0 <-> positive, VG: the sign of theta (which
    tail is the heavy one).  Every other entry of the donor differs from the target's as well."""
    fam, p = spec["family"], spec["params"]
    d = dict(A.DONOR_PARAMS[fam])
    if fam == "cgmy":
        y = p["y"]
        if y >= 1.0:
            return [("y-up-across-1", dict(d, y=0.6))]
        if y >= 0.0:
            return [("y-down-across-1", dict(d, y=1.4)), ("y-up-across-0", dict(d, y=-0.5))]
        return [("y-down-across-0", dict(d, y=0.5)), ("y-down-across-1-and-0", dict(d, y=1.4))]
    if fam in ("hem", "merton"):
        sigma = p.get("sigma", 0.05)
        return [("sigma-positive-to-0", d)] if sigma == 0.0 else [("sigma-0-to-positive", dict(d, sigma=0.0))]
    if fam == "vg":
        theta = p.get("theta", 0.1)
        return [("theta-negative-to-positive", d)] if theta > 0 else [("theta-positive-to-negative", dict(d, theta=0.05))]
    raise ValueError(fam)


def _with_reparam(specs, modes=("params", "live"), first_only=False):
    """every spec re-parametrised across each regime boundary of its family (_crossing_donors), in each mode (_reparametrised)"""
    out = []
    for ms in specs:
        donors = _crossing_donors(ms)
        for cross, donor in (donors[:1] if first_only else donors):
            for mode in modes:
                out.append(dict(ms, reparam={"mode": mode, "cross": cross, "donor": donor}))
    return out


def _reparametrised(plain, rp):
    """the model of the spec `plain` reached through a RE-PARAMETRISATION that crosses a regime boundary (rp["donor"]: the
    parameter values before; setattr of every constructor argument + initialisation(), the mutation pattern of
    rpylib/model/utils.py):
      mode "params"  the parameter object is built with the donor values, re-set, then handed to the model constructor;
      mode "live"    the MODEL is built with the donor values and the parameter object it holds (shared with its measure and
                     cumulants) is re-set afterwards.  What the library fixes at construction stays what it was (triplet a and
                     sigma of HEM / Merton / VG, omega of the exponential models): the object is then the Levy model
                     (a_donor, sigma_donor, nu_final), which the statement covers like any other triplet - the reference
                     oracles read the live triplet; the comparison with a freshly built model is made when the two triplets
                     and drifts agree (CGMY: a = 0, sigma = 0 whatever the parameters)."""
    import copy
    import inspect

    target = A.make_model(plain)
    donor = A.make_model(dict(plain, params=rp["donor"]))
    exp = bool(plain.get("exp"))
    holder_t = target.levy_model if exp else target
    holder_d = donor.levy_model if exp else donor
    params = holder_d.parameters if rp["mode"] == "live" else copy.deepcopy(holder_d.parameters)
    for n in inspect.signature(type(params).__init__).parameters:
        if n != "self":
            setattr(params, n, getattr(holder_t.parameters, n))
    params.initialisation()
    if rp["mode"] == "live":
        return donor
    if exp:
        return type(target)(spot=plain.get("spot", 100.0), r=plain["r"], d=plain["d"], parameters=params)
    return type(target)(parameters=params)


def _label(spec):
    s = A.model_label(spec)
    rp = spec.get("reparam")
    s += (f"[{'model built' if rp['mode'] == 'live' else 'parameter object built'} with {rp['donor']}, then re-set "
          f"({rp['cross']}) + initialisation()]") if rp else ""
    s += f"[triplet sigma={spec['triplet_sigma']:g}]" if spec.get("triplet_sigma") is not None else ""
    s += f"[arguments as {spec['form']}]" if spec.get("form") else ""
    s += f"[{spec['copied']} of the model, original disturbed afterwards]" if spec.get("copied") else ""
    return s


# the margins of mc.alphabets plus the CGMY ties: Blumenthal-Getoor index exactly 1 and exactly 0
MARGINS = dict(A.MARGINS,
               cgmy10={"family": "cgmy", "exp": False, "params": {"c": 1.0, "g": 15.0, "m": 20.0, "y": 1.0}},
               cgmy00={"family": "cgmy", "exp": False, "params": {"c": 1.0, "g": 15.0, "m": 20.0, "y": 0.0}},
               # one heavy tail: the truncation of the model-based grids is asymmetric, narrower than 2 and reaches beyond -1
               cgmy12L={"family": "cgmy", "exp": False, "params": {"c": 0.1, "g": 4.0, "m": 30.0, "y": 1.2}})
# margins whose MODEL object was re-parametrised across y = 1 after construction (mode "live" of _reparametrised)
MARGINS["cgmy05<14"] = dict(MARGINS["cgmy05"], reparam={"mode": "live", "cross": "y-down-across-1",
                                                         "donor": {"c": 0.7, "g": 9.0, "m": 11.0, "y": 1.4}})
MARGINS["cgmy12<06"] = dict(MARGINS["cgmy12"], reparam={"mode": "live", "cross": "y-up-across-1",
                                                         "donor": {"c": 0.7, "g": 9.0, "m": 11.0, "y": 0.6}})


def _make_copula_model(spec):
    """mc.alphabets.make_copula_model over the local MARGINS; "copied": the model handed on is a deep / dill copy, the original
    (every margin) is disturbed afterwards"""
    from rpylib.model.utils import create_levy_copula_model

    models = []
    for name in spec["margins"]:
        ms = dict(MARGINS[name])
        if spec.get("exp"):
            ms = dict(ms, exp=True, r=0.02, d=0.0, spot=100.0)
        models.append(_make_model(ms) if ms.get("reparam") else A.make_model(ms))
    model = create_levy_copula_model(models=models, copula=A.make_copula(spec["copula"]))
    if spec.get("copied"):
        original = model
        model = _copy_route(original, spec["copied"])
        for mk in original.models:
            _disturb_model(mk)
    return model


def _cop_label(c):
    if c["kind"] == "clayton":
        return f"clayton({c['theta']:g},{c['eta']:g})"
    return c["kind"]


def _gclass(g):
    b = g.get("bounds")
    asym = bool(b) and (b[0] < -1.0) != (b[1] > 1.0)  # hand-given bounds with exactly one beyond the cut-off +-1
    return g["kind"] + (":one-bound-beyond-the-cut-off" if asym else "") + (":refined" if g.get("refine") else "")


# ----------------------------------------------------------------------------------------------------------------------
# quadrature of the model's own density (the x = +-t^8 substitution of checks/c10_exponent.py near the origin)
# ----------------------------------------------------------------------------------------------------------------------

_K = 8


def _quad(fn, a_, b_):
    """int_a^b fn(x) dx, fn possibly with an algebraic singularity |x|^(-p), p < 1, at 0 when the piece touches the origin
    (pieces never straddle it): there x = +-t^8 makes the integrand bounded and QUADPACK's error estimate trustworthy.
    Returns (value, error estimate); mpmath tanh-sinh when the estimate is poor."""
    if a_ == 0.0 and math.isfinite(b_):
        top = b_ ** (1.0 / _K)

        def g(t):
            x = t ** _K
            return fn(x) * _K * t ** (_K - 1) if x > 1e-100 else 0.0

        lo_, hi_ = 0.0, top
    elif b_ == 0.0 and math.isfinite(a_):
        top = (-a_) ** (1.0 / _K)

        def g(t):
            x = t ** _K
            return fn(-x) * _K * t ** (_K - 1) if x > 1e-100 else 0.0

        lo_, hi_ = 0.0, top
    else:
        g, lo_, hi_ = fn, a_, b_
    v, e = quad(g, lo_, hi_, epsabs=0.0, epsrel=1e-12, limit=400)
    if not math.isfinite(v) or e > 1e-9 * abs(v) + 1e-14:
        v2, e2 = O._mp_quad(g, lo_, hi_)
        if e2 < e or not math.isfinite(v):
            v, e = v2, e2
    if not (math.isfinite(v) and math.isfinite(e)):
        return v, INF
    return v, e


def _int(nu, a_, b_, n, extra=()):
    """int_a^b x^n nu(dx) by quadrature of the density nu.__call__: (value, error estimate); 0 for an empty interval."""
    a_, b_ = float(a_), float(b_)
    if not a_ < b_:
        return 0.0, 0.0

    def f(x):
        return (x ** n) * float(nu(x)) if n else float(nu(x))

    tot = err = 0.0
    with warnings.catch_warnings():
        warnings.simplefilter("ignore")
        for lo_, hi_ in O._pieces(a_, b_, extra):
            v, e = _quad(f, lo_, hi_)
            tot += v
            err += e
    if not (math.isfinite(tot) and math.isfinite(err)):
        return tot, INF
    return tot, err


_AB = {"ZERO": (0.0, 0.0), "CENTER": (1.0, 1.0), "ONEONE": (1.0, 0.0)}


def _ab(rep, fv):
    """c_R(x) = alpha 1{|x|<1} + beta 1{|x|>=1} (same table as mc.oracle.cutoff)"""
    if rep == "TILDE":
        return (0.0, 0.0) if fv else (1.0, 0.0)
    return _AB[rep]


def _x_in_out(nu, lo, hi, need_in):
    """(int over [lo,hi] ^ (-1,1) of x nu, its error, int over [lo,hi] \\ (-1,1) of x nu, its error)"""
    vin = ein = 0.0
    if need_in:
        vin, ein = _int(nu, max(lo, -1.0), min(hi, 1.0), 1)
    v1, e1 = _int(nu, lo, min(hi, -1.0), 1)
    v2, e2 = _int(nu, max(lo, 1.0), hi, 1)
    return vin, ein, v1 + v2, e1 + e2


def _real(x):
    """a library scalar as a Python float; nan when it carries a non-negligible imaginary part or is not a scalar"""
    try:
        arr = np.asarray(x).reshape(-1)
        if arr.size != 1:
            return math.nan
        z = complex(arr[0])
    except Exception:
        return math.nan
    if abs(z.imag) > 1e-14 * max(1.0, abs(z.real)):
        return math.nan
    return z.real


def _triplet(model):
    tr = model.levy_triplet
    rep = getattr(tr.representation, "name", str(tr.representation))
    return _real(tr.a), _real(tr.sigma), tr.nu, rep, bool(tr.nu.jump_of_finite_variation())


class _Obj:
    pass


def _product():
    """a product with deterministic payoff dates (the chain's initialisation only reads that flag)"""
    try:
        from rpylib.product.payoff import PayoffType, Vanilla
        from rpylib.product.product import Product
        from rpylib.product.underlying import Spot

        return Product(payoff_underlying=Spot(), payoff=Vanilla(strike=100.0, payoff_type=PayoffType.CALL), maturity=1.0)
    except Exception:
        from rpylib.product.payoff import PayoffDates

        prod = _Obj()
        prod.payoff = _Obj()
        prod.payoff.payoff_dates_type = PayoffDates.DETERMINISTIC
        prod.maturity = 1.0
        return prod


def _products():
    """the products of the history menu: what selects the simulator is payoff_dates_type (and max_step_epsilon); the time grid
    and the maturity come from the underlying.  {"vanilla-1": deterministic dates, one interval [0, 1];  "asian-2": deterministic
    dates, yearly averaging, two intervals, maturity 2;  "cds-1": stochastic payoff dates (credit payoff on a default time),
    maturity 1}"""
    from rpylib.product.payoff import PayoffDates, PayoffOnTheFly, Forward
    from rpylib.product.product import Product
    from rpylib.product.underlying import Asian, Discretisation, Spot

    out = {"vanilla-1": _product(),
           "asian-2": Product(payoff_underlying=Asian(Discretisation.YEARLY), payoff=Forward(strike=0.0), maturity=2.0)}
    try:
        from rpylib.product.payoff import CDS
        from rpylib.product.underlying import DefaultTime

        out["cds-1"] = Product(payoff_underlying=DefaultTime(default_level=-0.3),
                               payoff=CDS(recovery_rate=0.4, spread=0.01, maturity=1.0, discounting=lambda t: math.exp(-0.02 * t)),
                               maturity=1.0)
        if out["cds-1"].payoff.payoff_dates_type != PayoffDates.STOCHASTIC:
            raise ValueError("CDS payoff without stochastic dates")
    except Exception:
        pay = PayoffOnTheFly(lambda x: x)
        pay.payoff_dates_type = PayoffDates.STOCHASTIC
        out["cds-1"] = Product(payoff_underlying=Spot(), payoff=pay, maturity=1.0)
    return out


# the history menu: operations applied IN THIS ORDER to ONE process object after its first initialisation (an engine calls
# initialisation(product) at the start of every pricing, CouplingSDE / MarkovChainSDE pass max_step_epsilon, credit products
# have stochastic payoff dates).  (name, product, max_step_epsilon, what is done before the initialisation)
HISTORY = [
    ("simulate", None, None, None),  # no new initialisation: pre_computation + paths with the simulator of the first one
    ("init-again", "vanilla-1", None, None),
    ("init-other-product", "asian-2", None, None),
    ("init-stochastic-dates", "cds-1", None, None),
    # a copy used as it is (what Engine.price does with copy.deepcopy, what a pool worker does with the dill copy it receives)
    ("deepcopy-then-simulate", None, None, "deepcopy"),
    ("dill-then-simulate", None, None, "dill"),
    ("init-max-step", "vanilla-1", 0.3, None),
    ("init-max-step-beyond-maturity", "vanilla-1", 2.0, None),
    ("init-stochastic-dates-max-step", "cds-1", 0.3, None),
    ("reset-cost-then-init", "vanilla-1", None, "reset-cost"),
    ("other-object-then-init", "vanilla-1", None, "other-object"),
    ("deepcopy-then-init", "vanilla-1", None, "deepcopy"),
    ("dill-then-init", "vanilla-1", None, "dill"),  # what a pool worker receives
    # other legal forms of max_step_epsilon: a Python int equal to the maturity (tie), a numpy scalar passed positionally
    ("init-max-step-int-epsilon-at-maturity", "vanilla-1", 1, None),
    ("init-max-step-numpy-epsilon-positional", "cds-1", ("positional", 0.3), None),
]


def _initialise(target, product, eps):
    if isinstance(eps, tuple):
        target.initialisation(product, np.float64(eps[1]))
    else:
        target.initialisation(product, max_step_epsilon=eps)


def _mode(prod_key, eps):
    if eps is not None:
        return "maximum-step"
    return "jump-times" if prod_key == "cds-1" else "fixed-times"


def _well_formed(axis, origin):
    return (len(axis) >= 3 and 0 < origin < len(axis) - 1 and all(math.isfinite(x) for x in axis)
            and all(x < y for x, y in zip(axis, axis[1:])) and axis[origin] == 0.0)


def _set_rep(sh, triplet, rep, key_tail, label, with_copies=False):
    """set_representation(rep) on the caller's triplet and check the declared drift against the conversion integral.
    Returns False when the combination is outside the alphabet or the conversion failed (already reported)."""
    from rpylib.model.levymodel.levymodel import LevyRepresentation

    a0, nu, r0 = _real(triplet.a), triplet.nu, triplet.representation.name
    fv = bool(nu.jump_of_finite_variation())
    if rep is None:
        return True
    if rep == "ZERO" and not fv:
        sh.count("outside-alphabet:zero-needs-finite-variation")
        return False
    copies = []
    if with_copies:
        try:
            copies = [(route, _copy_route(triplet, route)) for route in ("deepcopy", "dill")]
        except Exception as e:  # noqa
            sh.violation(f"C04:copies:LevyTriplet:copy-raises-{type(e).__name__}:{key_tail}", f"{label}: {e!r}", None)
    try:
        with warnings.catch_warnings():
            warnings.simplefilter("ignore")
            triplet.set_representation(LevyRepresentation[rep])
    except Exception as e:  # noqa
        sh.violation(f"C04:conversion:LevyTriplet.set_representation:raises-{type(e).__name__}:{key_tail}:{r0}-to-{rep}",
                     f"{label}: set_representation({rep}) from {r0}: {e!r}", None)
        return False
    a1, r1 = _real(triplet.a), triplet.representation.name
    # a deep / dill copy of the triplet taken BEFORE the conversion still is what the original was, and converts to the same
    # drift (the same computation on equal inputs: exact)
    for route, t in copies:
        sh.count("evaluations")
        try:
            was = (repr(_real(t.a)), t.representation.name)
            with warnings.catch_warnings():
                warnings.simplefilter("ignore")
                t.set_representation(LevyRepresentation[rep])
            now = (repr(_real(t.a)), t.representation.name)
        except Exception as e:  # noqa
            sh.violation(f"C04:copies:LevyTriplet.set_representation:raises-{type(e).__name__}:{route}:{key_tail}:{r0}-to-{rep}",
                         f"{label}: {route} copy of the triplet: {e!r}", None)
            continue
        if was != (repr(a0), r0):
            sh.violation(f"C04:copies:LevyTriplet:copy-follows-the-original:{route}:{key_tail}:{r0}-to-{rep}",
                         f"{label}: the {route} copy taken before set_representation({rep}) of the original was ({a0!r}, {r0}), is "
                         f"{was} afterwards", None)
        elif now != (repr(a1), r1):
            sh.violation(f"C04:copies:LevyTriplet.set_representation:copy-converts-differently:{route}:{key_tail}:{r0}-to-{rep}",
                         f"{label}: set_representation({rep}) gives ({a1!r}, {r1}) on the original and {now} on its {route} copy",
                         None)
    if r1 != rep:
        sh.violation(f"C04:conversion:LevyTriplet.set_representation:representation-not-updated:{key_tail}:{r0}-to-{rep}",
                     f"{label}: representation is {r1} after set_representation({rep})", None)
        return False
    (al0, be0), (al1, be1) = _ab(r0, fv), _ab(rep, fv)
    vin, ein, vout, eout = _x_in_out(nu, -INF, INF, need_in=(al0 != al1))
    want = a0 + (al1 - al0) * vin + (be1 - be0) * vout
    err = abs(al1 - al0) * ein + abs(be1 - be0) * eout
    scale = max(abs(a0), abs(a1), abs(vin), abs(vout))
    rtol = 1e-9 if fv else 1e-8
    if not err <= ATOL + rtol * scale:
        sh.count("oracle_inconclusive")
        return True
    sh.count("evaluations")
    if not core.close(a1, want, rtol=rtol, atol=ATOL, scale=scale):
        sh.violation(f"C04:conversion:LevyTriplet.set_representation:drift-differs-from-cut-off-integral:{key_tail}:{r0}-to-{rep}",
                     f"{label}: drift {a0!r} in {r0} became {a1!r} in {rep}; a0 + int x (c_{rep} - c_{r0}) nu = {want!r}",
                     {"a0": a0, "a1": a1, "want": want, "int_inner": vin, "int_outer": vout})
    return True


# ----------------------------------------------------------------------------------------------------------------------
# one-dimensional chains
# ----------------------------------------------------------------------------------------------------------------------

def check_case(sh, case):
    with warnings.catch_warnings():
        warnings.simplefilter("ignore", RuntimeWarning)
        {"chain1d": _chain1d, "copula": _copula}[case["sub"]](sh, case)


def _sampler_rates(proc, grid, method, nstates):
    """{axis index: rate} of the sampler actually built, law recovered exactly through its single-uniform entry point."""
    import numpy.random as npr

    from mc import c04_util as C2

    orig = npr.choice
    npr.choice = lambda a, *args, **kw: list(a)[0]
    try:
        f, hi = C2.single_entry(proc, method)
        n0 = 1 << max(10, int(math.ceil(math.log2(16 * max(nstates, 1)))))
        extra = C2.alias_edges(len(grid.axes[0]), hi) + C2.alias_interior(proc.sampling, hi) if method == "ALIAS" else ()
        pieces, evals, hi = C2.recover_partition(f, n0, 0.0, hi, extra=extra)
    finally:
        npr.choice = orig
    lam = float(proc.intensity_of_jumps)
    o = int(grid.origin_coordinate.value)
    return {o + inc[0]: lam * length / hi for inc, length in C2.lengths(pieces, hi).items()}, len(pieces), evals


def _chain1d(sh, case):
    from rpylib.distribution.sampling import SamplingMethod
    from rpylib.process.markovchain.markovchain import MarkovChainProcess

    spec, gspec, rep_req = case["model"], case["grid"], case["rep"]
    mc, gc = _mclass(spec), _gclass(gspec)
    label = f"{_label(spec)} declared {rep_req or 'as constructed'} on {gspec}"
    model = _make_model(spec)
    if bool(model.levy_triplet.nu.jump_of_finite_variation()) != _spec_fv(spec):
        sh.count("outside-alphabet:finite-variation-flag-differs-from-spec")
        return
    hops = rep_req.split(">") if rep_req else [None]
    for hop in hops:
        if not _set_rep(sh, model.levy_triplet, hop, mc, label, with_copies=True):
            return
    a, sigma, nu, rep, fv = _triplet(model)
    drift = _real(model.drift())
    sh.cls("declared:" + rep + ((":converted-twice" if len(hops) > 1 else ":converted") if rep_req else ":as-constructed"))
    for what in ("form", "copied"):
        if spec.get(what):
            sh.cls(f"model-{what}:{spec[what]}")
    sh.cls("finite-variation" if fv else "infinite-variation")
    sh.cls("process-representation:" + ("log" if spec.get("exp") else "identity"))
    sh.cls("model:" + mc)
    sh.cls("grid:" + gc)
    try:
        grid = A.make_grid(gspec, model)
    except A.OutsideAlphabet:
        sh.count("outside-alphabet:grid")
        return
    axis = [float(x) for x in grid.axes[0]]
    o = int(getattr(grid.origin_coordinate, "value", grid.origin_coordinate))
    if not _well_formed(axis, o):
        sh.count("outside-alphabet:grid-not-well-formed")
        return
    lo, hi = axis[0], axis[-1]
    h_before = repr(grid.h)
    rtol = 1e-9 if fv else 1e-8
    tail = f"{mc}:{rep}{'-via-' + hops[0] if len(hops) > 1 else ''}:{gc}"
    product = _product()
    fp_points = [1.5 * lo, 0.25 * axis[o - 1], 0.25 * axis[o + 1], 1.5 * hi]
    fp0 = _fingerprint(model, fp_points)

    procs = {}
    for meth in case["methods"]:
        try:
            p = MarkovChainProcess(model=model, method=SamplingMethod[meth], grid=grid)
            p.initialisation(product)
        except Exception as e:  # noqa
            sh.violation(f"C04:mean:MarkovChainProcess:raises-{type(e).__name__}:{tail}",
                         f"{label}, method {meth}: constructor / initialisation: {e!r}", None)
            return
        procs[meth] = p
    a_after, _, _, rep_after, _ = _triplet(model)
    if (a_after, rep_after) != (a, rep):
        sh.violation(f"C04:mean:MarkovChainProcess:changes-the-callers-model:{mc}:{rep}",
                     f"{label}: triplet was ({a}, {rep}), is ({a_after}, {rep_after}) after building the chain", None)
    first = procs[case["methods"][0]]
    pd = _real(first.process_drift())
    sig_eq = _real(first.equivalent_diffusion_coefficient)
    for meth, p in procs.items():
        if _real(p.process_drift()) != pd and not (math.isnan(pd) and math.isnan(_real(p.process_drift()))):
            sh.violation(f"C04:mean:MarkovChainProcess.process_drift:depends-on-the-sampling-method:{tail}",
                         f"{label}: {pd!r} with {case['methods'][0]}, {_real(p.process_drift())!r} with {meth}", None)

    if spec.get("reparam"):
        _fresh_twin(sh, label, tail, vtail_of(mc, fv, gc), spec, hops, gspec, case["methods"][0], product,
                    (a, sigma, rep, drift), pd, sig_eq, axis)

    # ---- reference cells and the two notions of rate
    cells, central = O.ref_cells(axis, o, middle=grid.middle)
    cells = [None if c is None else (float(c[0]), float(c[1])) for c in cells]
    central = (float(central[0]), float(central[1]))
    rates_m = {}
    for k, cell in enumerate(cells):
        if cell is not None:
            rates_m[k] = max(_real(first.model.mass(cell[0], cell[1])), 0.0)
    sum_abs = sum(abs(axis[k]) * r for k, r in rates_m.items())
    lam = _real(first.intensity_of_jumps)
    _public_functions_1d(sh, label, tail, vtail_of(mc, fv, gc), first, grid, axis, o, rates_m, sum_abs, sig_eq)

    # ---- mean
    sampler_rates = {}
    alpha, beta = _ab(rep, fv)
    vin, ein, vout, eout = _x_in_out(nu, lo, hi, need_in=(alpha != 1.0))
    jump_mean = (1.0 - alpha) * vin + (1.0 - beta) * vout
    err = (1.0 - alpha) * ein + (1.0 - beta) * eout
    want = drift + a + jump_mean
    scale = max(abs(pd) if math.isfinite(pd) else 0.0, sum_abs, abs(a), abs(drift), abs(vin), abs(vout), 1e-300)
    conclusive = err <= ATOL + rtol * scale
    if not conclusive:
        sh.count("oracle_inconclusive")
    else:
        got = pd + sum(axis[k] * r for k, r in rates_m.items())
        sh.count("evaluations")
        sh.nontriv()
        if not core.close(got, want, rtol=rtol, atol=ATOL, scale=scale):
            sh.violation(
                f"C04:mean:MarkovChainProcess.process_drift:mean-differs-from-truncated-process:{tail}",
                f"{label}: process_drift {pd!r} + sum x_k mass(cell_k) = {got!r}; model.drift() + a + int_T x (1 - c_{rep}) nu = "
                f"{drift!r} + {a!r} + {jump_mean!r} = {want!r} (bias {got - want:.6g} per unit time, {len(axis)} points)",
                {"process_drift": pd, "chain_mean": got, "expected": want, "a": a, "model_drift": drift, "jump_mean": jump_mean,
                 "truncation": [lo, hi], "declared": rep, "quad_err": err})
        for meth, p in procs.items():
            if not lam > 0.0:
                # no mass outside the central cell in double precision (Merton on the h = 2 grid): the chain never jumps, its
                # sampler has no state to hand out (C02's subject); the identities above and below hold with an empty sum
                sh.count("outside-alphabet:sampler-of-a-chain-of-zero-intensity")
                continue
            try:
                rates_s, npieces, evals = _sampler_rates(p, grid, meth, len(rates_m))
            except Exception as e:  # noqa
                sh.violation(f"C04:sampler-mean:{meth.lower()}:single-uniform-entry-raises-{type(e).__name__}:{mc}:{gc}",
                             f"{label}: {e!r}", None)
                continue
            sh.count("evaluations")
            sh.count("sampler_probes", evals)
            # the origin carries x = 0 (no contribution whatever its length); a state off the axis on more than a few ulps of
            # [0,1) has no value to weight (C02 judges the law itself, with the same allowance)
            rates_s.pop(o, None)
            bad = [k for k in rates_s if not 0 <= k < len(axis)]
            if any(rates_s[k] > 4 * EPS * lam for k in bad):
                sh.violation(f"C04:sampler-mean:{meth.lower()}:state-outside-grid:{mc}:{gc}",
                             f"{label}: sampler returns axis indices {bad[:4]} of {len(axis)}", None)
                continue
            for k in bad:
                del rates_s[k]
            got_s = pd + sum(axis[k] * r for k, r in rates_s.items())
            atol_s = ATOL + 4 * EPS * lam * sum(abs(axis[k]) for k in rates_s)
            if not core.close(got_s, want, rtol=rtol, atol=atol_s, scale=scale):
                sh.violation(
                    f"C04:sampler-mean:{meth.lower()}:mean-differs-from-truncated-process:{tail}",
                    f"{label}: process_drift {pd!r} + intensity x sum x_k P_sampler(k) = {got_s!r}, expected {want!r} "
                    f"(with the cell masses: {got!r}; {npieces} pieces)",
                    {"chain_mean_sampler": got_s, "chain_mean_masses": got, "expected": want})
            sampler_rates[meth] = rates_s

    # ---- variance added for the small jumps
    q_c, e_c = _int(nu, max(central[0], -1.0), min(central[1], 1.0), 2)
    added = sig_eq ** 2 - sigma ** 2 if math.isfinite(sig_eq) else math.nan
    vtail = f"{mc}:{'finite' if fv else 'infinite'}-variation:{gc}"
    if fv:
        sh.count("evaluations")
        if not core.close(sig_eq ** 2, sigma ** 2, rtol=1e-12, atol=1e-300):
            sh.violation(f"C04:variance:equivalent_diffusion_coefficient:variance-added-for-a-finite-variation-model:{vtail}",
                         f"{label}: equivalent_diffusion_coefficient^2 = {sig_eq ** 2!r}, sigma^2 = {sigma ** 2!r} "
                         f"(int_central x^2 nu = {q_c!r})", None)
    elif e_c <= 1e-8 * abs(q_c) + 1e-300:
        sh.count("evaluations")
        if not core.close(added, q_c, rtol=1e-8, atol=1e-12 * sigma ** 2, scale=max(abs(q_c), sigma ** 2 * 1e-4)):
            sh.violation(
                f"C04:variance:equivalent_diffusion_coefficient:not-the-variance-of-the-central-cell-jumps:{vtail}",
                f"{label}: equivalent_diffusion_coefficient^2 - sigma^2 = {added!r}, int over the central cell {central} of x^2 nu "
                f"= {q_c!r}", {"sigma_eq": sig_eq, "sigma": sigma, "central": central, "expected_added": q_c})
    else:
        sh.count("oracle_inconclusive")

    # ---- variance of the approximation against the per-cell oscillation bound
    q_out = e_out = bound = e_b = 0.0
    for (lo_, hi_) in ((lo, central[0]), (central[1], hi)):
        v, e = _int(nu, lo_, hi_, 2)
        q_out += v
        e_out += e
    for k, cell in enumerate(cells):
        if cell is None:
            continue
        m, e = _int(nu, cell[0], cell[1], 0)
        osc = abs(cell[1] ** 2 - cell[0] ** 2)
        bound += osc * m
        e_b += osc * e
    if math.isfinite(e_out + e_b + e_c) and e_out + e_b + e_c <= 1e-6 * (bound + q_c) + 1e-300:
        variants = [("cell-masses", rates_m)] + list(sampler_rates.items())
        for name, rates in variants:
            s2 = sum(axis[k] ** 2 * r for k, r in rates.items())
            slack = e_out + e_b + e_c + 64 * EPS * (s2 + q_out + sigma ** 2 + q_c) + (0.0 if name == "cell-masses" else
                                                                                      4 * EPS * lam * sum(axis[k] ** 2 for k in rates))
            sh.count("evaluations")
            if abs(s2 - q_out) > bound + slack:
                sh.violation(
                    f"C04:variance-bound:{name.lower()}:jump-variance-outside-the-oscillation-bound:{vtail}",
                    f"{label}: sum x_k^2 rate_k = {s2!r}, int_(T minus central) x^2 nu = {q_out!r}, bound sum osc_k(x^2) mass_k = "
                    f"{bound!r}", {"s2": s2, "q_out": q_out, "bound": bound})
            total = sig_eq ** 2 + s2 - (sigma ** 2 + q_out + q_c)
            allowed = bound + (q_c if fv else 0.0)
            if not abs(total) <= allowed + slack:
                sh.violation(
                    f"C04:variance-bound:{name.lower()}:total-variance-outside-the-oscillation-bound:{vtail}",
                    f"{label}: sigma_eq^2 + sum x_k^2 rate_k - (sigma^2 + int_T x^2 nu) = {total!r}, allowed {allowed!r}",
                    {"sigma_eq": sig_eq, "sigma": sigma, "s2": s2, "q_out": q_out, "q_central": q_c, "bound": bound})
    else:
        sh.count("oracle_inconclusive")

    # ---- histories on the re-used process object, the simulators' Brownian scale, the coupling's route to the next level
    if case.get("history", True):
        var_want = sigma ** 2 if fv else (sigma ** 2 + q_c if e_c <= 1e-8 * abs(q_c) + 1e-300 else None)
        _history_1d(sh, label, tail, vtail, model, first, bool(spec.get("exp")), fv, pd, sig_eq, scale, var_want, fp0, fp_points,
                    never_jumps=not lam > 0.0)
    # ---- the caller's grid is as it was (the chains keep a reference to it by design, none may write into it)
    now = ([float(x) for x in grid.axes[0]], int(getattr(grid.origin_coordinate, "value", grid.origin_coordinate)), repr(grid.h))
    if now != (axis, o, h_before):
        sh.violation(f"C04:arguments:MarkovChainProcess:modifies-the-callers-grid:{tail}",
                     f"{label}: axis / origin / h were {(axis, o, h_before)}, are {now} after the chains and their histories", None)
    # ---- the caller disturbs ITS model object; the chain built from it before (own deep copy) answers as before
    _alias_1d(sh, label, tail, vtail, model, first, pd, sig_eq, scale, (0.5 * lo, 0.5 * hi))
    if case.get("next_level"):
        # (an equal model reached the same way: the caller's was disturbed just now; the grid OBJECT is the one used above)
        from rpylib.model.levymodel.levymodel import LevyRepresentation

        model = _make_model(spec)
        for hop in hops:
            if hop:
                model.levy_triplet.set_representation(LevyRepresentation[hop])
        _next_level_1d(sh, label, tail, vtail, model, grid, case["methods"][-1], a, sigma, nu, rep, fv, drift, jump_mean, err, lo, hi,
                       sig_eq, int(case["next_level"]))

    sh.outcome((round(pd, 9) if math.isfinite(pd) else repr(pd), round(want, 9), round(sig_eq, 9) if math.isfinite(sig_eq) else "nan"))
    if gspec["kind"] == "fixed" and gspec.get("n") == 5:
        sh.sample({"sub": "chain1d", "model": _label(spec), "declared": rep, "requested": rep_req, "grid": gspec,
                   "points": len(axis), "process_drift": pd, "sum_x_rate": sum(axis[k] * r for k, r in rates_m.items()),
                   "expected_mean": want, "a": a, "model_drift": drift, "int_T_x(1-c)nu": jump_mean,
                   "sigma_eq^2-sigma^2": added, "int_central_x^2_nu": q_c})


def _fresh_twin(sh, label, tail, vtail, spec, hops, gspec, method, product, declared, pd, sig_eq, axis):
    """a re-parametrised model (spec["reparam"]) against a FRESH model built directly with the final parameter values, declared
    through the same conversions, on a grid built from the same grid spec: same process_drift() and
    equivalent_diffusion_coefficient (the same computation on equal values: rtol 1e-12).  Judged only when the two models
    declare the same (a, sigma, representation) and the same drift() - what the library fixes at construction (a and sigma of
    HEM / Merton / VG, omega) legitimately stays the donor's when the model object is re-parametrised afterwards - and the two
    grids have the same axis; otherwise counted."""
    from rpylib.distribution.sampling import SamplingMethod
    from rpylib.model.levymodel.levymodel import LevyRepresentation
    from rpylib.process.markovchain.markovchain import MarkovChainProcess

    mode = spec["reparam"]["mode"]
    sh.cls(f"reparam:{mode}:{spec['reparam']['cross']}")
    try:
        with warnings.catch_warnings():
            warnings.simplefilter("ignore")
            fresh = _make_model({k: v for k, v in spec.items() if k != "reparam"})
            for hop in hops:
                if hop:
                    fresh.levy_triplet.set_representation(LevyRepresentation[hop])
            a2, sigma2, _, rep2, _ = _triplet(fresh)
            if (a2, sigma2, rep2, _real(fresh.drift())) != tuple(declared):
                sh.count(f"reparam-not-compared-with-fresh-model:{mode}:declared-triplet-or-drift-is-the-donors")
                return
            grid2 = A.make_grid(gspec, fresh)
            if [float(x) for x in grid2.axes[0]] != list(axis):
                sh.count(f"reparam-not-compared-with-fresh-model:{mode}:other-grid")
                return
            p2 = MarkovChainProcess(model=fresh, method=SamplingMethod[method], grid=grid2)
            p2.initialisation(product)
            pd2, sig2 = _real(p2.process_drift()), _real(p2.equivalent_diffusion_coefficient)
    except Exception as e:  # noqa
        sh.count(f"reparam-not-compared-with-fresh-model:{mode}:fresh-model-raises-{type(e).__name__}")
        return
    sh.count("evaluations", 2)
    sh.cls(f"reparam:{mode}:compared-with-fresh-model")
    scale = max(abs(pd2), abs(declared[0]), abs(declared[3]), 1e-300) if math.isfinite(pd2) else 1.0
    if not (core.close(pd, pd2, rtol=1e-12, atol=1e-15, scale=scale) or (math.isnan(pd) and math.isnan(pd2))):
        sh.violation(f"C04:reparam:MarkovChainProcess.process_drift:differs-from-that-of-a-fresh-model:{tail}",
                     f"{label}: process_drift() = {pd!r}; a model built directly with the final parameter values gives {pd2!r} "
                     f"(same declared triplet {declared}, same grid)", {"reparametrised": pd, "fresh": pd2})
    if not (core.close(sig_eq, sig2, rtol=1e-12, atol=1e-300) or (math.isnan(sig_eq) and math.isnan(sig2))):
        sh.violation(f"C04:reparam:equivalent_diffusion_coefficient:differs-from-that-of-a-fresh-model:{vtail}",
                     f"{label}: equivalent_diffusion_coefficient = {sig_eq!r}; a model built directly with the final parameter "
                     f"values gives {sig2!r}", {"reparametrised": sig_eq, "fresh": sig2})


def vtail_of(mc, fv, gc):
    return f"{mc}:{'finite' if fv else 'infinite'}-variation:{gc}"


def _public_functions_1d(sh, label, tail, vtail, proc, grid, axis, o, rates_m, sum_abs, sig_eq):
    """compute_mu_h and vol_adjustment called directly, with every legal form of their arguments (the axis as the grid's own
    array / list / tuple / fresh float array, the origin as int / numpy integer / 0-d array; h as float / numpy scalar / 0-d
    array / int when integral): the same answer for every form, the caller's arrays left as they were, and
    mu_h = sum_k x_k mass(cell_k) on the reference cells, sigma^2 + vol_adjustment^2 = equivalent_diffusion_coefficient^2."""
    from rpylib.process.markovchain.markovchain import compute_mu_h, vol_adjustment

    nu_t = proc.model.levy_triplet.nu
    own = grid.axes[0]
    arr = np.array(axis, dtype=float)
    lst = list(axis)
    forms = [("own-array", own, grid.origin_coordinate.value), ("list", lst, int(o)), ("tuple", tuple(axis), np.int64(o)),
             ("fresh-array", arr, np.array(o))]
    vals = {}
    for name, ax, org in forms:
        try:
            with warnings.catch_warnings():
                warnings.simplefilter("ignore")
                vals[name] = _real(compute_mu_h(levy_measure=nu_t, grid=grid, axis=ax, origin=org))
        except Exception as e:  # noqa
            sh.violation(f"C04:forms:compute_mu_h:raises-{type(e).__name__}:axis-as-{name}:{tail}", f"{label}: {e!r}", None)
    if [float(x) for x in own] != axis or lst != axis or [float(x) for x in arr] != axis:
        sh.violation(f"C04:arguments:compute_mu_h:modifies-the-callers-axis:{tail}",
                     f"{label}: axis was {axis}, the arrays handed to compute_mu_h are {[float(x) for x in own]} / {lst} / "
                     f"{[float(x) for x in arr]} afterwards", None)
    ref = vals.get("own-array")
    if ref is not None:
        sh.count("evaluations", len(vals))
        want = sum(axis[k] * r for k, r in rates_m.items())
        if not core.close(ref, want, rtol=1e-12, atol=1e-300, scale=max(sum_abs, 1e-300)):
            sh.violation(f"C04:mean:compute_mu_h:differs-from-the-states-weighted-by-the-cell-masses:{tail}",
                         f"{label}: compute_mu_h = {ref!r}, sum x_k mass(cell_k) over the reference cells = {want!r}", None)
        for name, v in vals.items():
            if not core.close(v, ref, rtol=4 * EPS, atol=1e-300, scale=max(sum_abs, 1e-300)):
                sh.violation(f"C04:forms:compute_mu_h:answer-depends-on-the-form-of-the-axis:{name}:{tail}",
                             f"{label}: {ref!r} with the grid's own axis, {v!r} with the axis as {name}", None)
    h = grid.h
    hf = float(h)
    hforms = [("as-given", h), ("float", hf), ("numpy-scalar", np.float64(hf)), ("0d-array", np.array(hf))]
    if hf.is_integer():
        hforms.append(("int", int(hf)))
    vols = {}
    for name, hh in hforms:
        try:
            vols[name] = _real(vol_adjustment(proc.model, hh))
        except Exception as e:  # noqa
            sh.violation(f"C04:forms:vol_adjustment:raises-{type(e).__name__}:h-as-{name}:{vtail}", f"{label}: {e!r}", None)
    ref = vols.get("as-given")
    if ref is not None:
        sh.count("evaluations", len(vols))
        sig_t = _real(proc.model.levy_triplet.sigma)
        if not core.close(sig_t ** 2 + ref ** 2, sig_eq ** 2, rtol=1e-12, atol=1e-300):
            sh.violation(f"C04:variance:vol_adjustment:sigma2-plus-its-square-is-not-the-equivalent-coefficient-squared:{vtail}",
                         f"{label}: sigma = {sig_t!r}, vol_adjustment = {ref!r}, equivalent_diffusion_coefficient = {sig_eq!r}", None)
        for name, v in vols.items():
            if not core.close(v, ref, rtol=4 * EPS, atol=1e-300):
                sh.violation(f"C04:forms:vol_adjustment:answer-depends-on-the-form-of-h:{name}:{vtail}",
                             f"{label}: {ref!r} with h = {h!r}, {v!r} with h as {name}", None)


# ----------------------------------------------------------------------------------------------------------------------
# histories on one process object; the Brownian scale the simulators really apply
# ----------------------------------------------------------------------------------------------------------------------

def _fingerprint(model, points):
    """what a chain must leave alone in the caller's model: declared drift, sigma, representation, model.drift(), and the
    density at a few points inside and OUTSIDE the grid's truncation (the chain truncates its own copy)"""
    tr = model.levy_triplet
    vals = [repr(_real(tr.a)), repr(_real(tr.sigma)), getattr(tr.representation, "name", str(tr.representation)),
            repr(_real(model.drift()))]
    for x in points:
        try:
            vals.append(repr(float(tr.nu(float(x)))))
        except Exception as e:  # noqa
            vals.append(type(e).__name__)
    return tuple(vals)


def _slope(proc, dim):
    """slope of deterministic_path (the deterministic part every simulated path is added to) over [0, 1] and [0, 2], the
    absolute accuracy of the subtraction, and the names of the legal forms of the argument (integer-dtype array, (1, n) array,
    Python / numpy scalars, 0-d array; lists and tuples are rejected by the library) whose answer is not that of the float
    array - or "modifies-the-callers-array" """
    t = np.array([0.0, 1.0, 2.0])
    raw = proc.deterministic_path(t)
    dp = np.array(raw, dtype=float).reshape(dim, 3)  # a copy: raw is written into below
    s1 = dp[:, 1] - dp[:, 0]
    s2 = 0.5 * (dp[:, 2] - dp[:, 0])
    acc = 16 * EPS * (np.abs(dp[:, 0]) + np.abs(dp[:, 2]))
    bad = []
    if t.tolist() != [0.0, 1.0, 2.0]:
        bad.append("modifies-the-callers-array")
    forms = [("integer-array", np.array([0, 1, 2]), dp), ("row-array", np.array([[0.0, 1.0, 2.0]]), dp)]
    for j, scalars in ((1, (1, 1.0, np.float64(1.0), np.array(1.0), np.int64(1))), (2, (2, np.float64(2.0)))):
        forms += [(f"scalar-{type(x).__name__}", x, dp[:, j]) for x in scalars]
    for name, arg, want in forms:
        try:
            got = np.asarray(proc.deterministic_path(arg), dtype=float)
            if got.size != want.size or not np.array_equal(got.reshape(want.shape), want, equal_nan=True):
                bad.append(name)
        except Exception:  # noqa
            bad.append(name + "-raises")
    # the array returned is the caller's: writing into it must not move the process
    try:
        if isinstance(raw, np.ndarray) and raw.flags.writeable:
            raw += 1.0
            again = np.asarray(proc.deterministic_path(t), dtype=float).reshape(dim, 3)
            if not np.array_equal(again, dp, equal_nan=True):
                bad.append("returns-a-reference-to-its-state")
    except Exception:  # noqa
        pass
    return s1, s2, acc, bad


def _disturbing_chain(fv, exp, products):
    """a second object of the same class built, initialised (other simulator) in between: another model of the OTHER variation
    class on another grid - state kept in class attributes, module-level caches or shared default arguments would leak"""
    from rpylib.distribution.sampling import SamplingMethod
    from rpylib.process.markovchain.markovchain import MarkovChainProcess

    donor = ({"family": "cgmy", "exp": False, "params": {"c": 0.7, "g": 9.0, "m": 11.0, "y": 1.5}} if fv else
             {"family": "hem", "exp": False, "params": dict(A.DONOR_PARAMS["hem"])})
    if exp:
        donor = dict(donor, exp=True, r=0.07, d=0.03, spot=50.0)
    m = A.make_model(donor)
    g = A.make_grid({"kind": "fixed", "h": 0.07, "n": 4}, m)
    other = MarkovChainProcess(model=m, method=SamplingMethod.INVERSION, grid=g)
    other.initialisation(products["cds-1"], max_step_epsilon=0.2)
    return other


def _history_1d(sh, label, tail, vtail, model, proc, exp, fv, pd0, sig0, scale, var_want, fp0, fp_points, never_jumps=False):
    """the HISTORY menu on one MarkovChainProcess; after every operation: process_drift(), equivalent_diffusion_coefficient,
    the slope of deterministic_path, the caller's model, and - through pre_computation + simulate_one_path under the scripted
    random source - the coefficient that really multiplies the Brownian variates."""
    import copy

    from mc.c04_util import JUMPS_PER_INTERVAL as JUMPS, ProtocolError, Rng, simulated_brownian_scale

    products = _products()
    rng = Rng()
    current = ("vanilla-1", None)
    flagged_modes = set()
    nojump_done = set()
    with rng.installed():
        for name, pk, eps, pre in HISTORY:
            targets = [proc]
            try:
                if pre == "reset-cost":
                    proc.reset_one_simulation_cost()
                elif pre == "other-object":
                    _disturbing_chain(fv, exp, products)
                elif pre in ("deepcopy", "dill"):
                    targets = [_copy_route(proc, pre), proc]
                if pk is not None:
                    _initialise(targets[0], products[pk], eps)
                    current = (pk, eps)
                mode = _mode(*current)
                sh.cls(f"history:{name}")
                for idx, target in enumerate(targets):
                    who = "" if idx == 0 and len(targets) == 1 else (" (the copy)" if idx == 0 else " (the original)")
                    pd = _real(target.process_drift())
                    sig = _real(target.equivalent_diffusion_coefficient)
                    sh.count("evaluations", 2)
                    if not core.close(pd, pd0, rtol=1e-12, atol=1e-15, scale=scale):
                        sh.violation(f"C04:history:MarkovChainProcess.process_drift:changes-after-{name}:{tail}",
                                     f"{label}: process_drift() was {pd0!r} after the first initialisation (mean identity checked), "
                                     f"is {pd!r} after {name}{who} ({pk}, max_step_epsilon={eps})", {"first": pd0, "now": pd})
                        return
                    if not core.close(sig, sig0, rtol=1e-12, atol=1e-300):
                        sh.violation(f"C04:history:equivalent_diffusion_coefficient:changes-after-{name}:{vtail}",
                                     f"{label}: equivalent_diffusion_coefficient was {sig0!r}, is {sig!r} after {name}{who}", None)
                        return
                    s1, s2, acc, bad_forms = _slope(target, 1)
                    sh.count("evaluations", 2)
                    if bad_forms:
                        sh.violation(f"C04:forms:Process.deterministic_path:{bad_forms[0]}:{tail}",
                                     f"{label}: after {name}{who}: {bad_forms}", None)
                        return
                    if not (abs(s1[0] - pd) <= acc[0] + 1e-15 and abs(s2[0] - pd) <= acc[0] + 1e-15):
                        sh.violation(f"C04:mean:Process.deterministic_path:slope-differs-from-process_drift:{tail}",
                                     f"{label}: after {name}{who} deterministic_path grows by {s1[0]!r} over [0,1] and {s2[0]!r} per unit "
                                     f"time over [0,2], process_drift() = {pd!r}", None)
                        return
                    fp = _fingerprint(model, fp_points)
                    if fp != fp0:
                        sh.violation(f"C04:history:MarkovChainProcess:changes-the-callers-model-after-{name}:{tail}",
                                     f"{label}: (a, sigma, representation, drift(), nu at {fp_points}) was {fp0}, is {fp} after {name}",
                                     None)
                        return
                    if idx > 0:
                        continue  # the original of a deep copy keeps its simulator: already simulated
                    # with 2 jumps per interval, then paths without any jump (the simulators' fallback branches)
                    # (the paths without jumps once per simulator class)
                    for njumps in ((0,) if never_jumps else (JUMPS,) if mode in nojump_done else (JUMPS, 0)):
                        nojump_done.add(mode)
                        rng.jumps = njumps
                        res = simulated_brownian_scale(target, products[current[0]], 1, rng)
                        rng.jumps = JUMPS
                        smode = mode + ("" if njumps else ":no-jump-paths")
                        if "unrecognised" in res:
                            sh.count("simulated-variance-not-observable")
                            sh.cap("C04: the Brownian scale of a simulator was not observable (protocol of the random draws not recognised)")
                            sh.note(f"C04 history {name}: {res['unrecognised']}")
                            continue
                        sh.cls(f"simulator:chain:{smode}")
                        sh.count("evaluations")
                        sh.count("simulated_steps", res["columns"])
                        d2 = float(res["D"][0, 0]) ** 2
                        ok = res["residual"] <= 1e-9 * max(res["scale"], 1e-300)
                        if ok:
                            ok = core.close(d2, sig0 ** 2, rtol=1e-9, atol=1e-30)
                            if ok and var_want is not None:
                                ok = core.close(d2, var_want, rtol=1e-7, atol=1e-30)
                        if not ok and smode not in flagged_modes:
                            flagged_modes.add(smode)
                            sh.violation(
                                f"C04:simulated-variance:chain:{smode}:brownian-scale-differs-from-equivalent-diffusion-coefficient:{vtail}",
                                f"{label}: after {name} ({pk}, max_step_epsilon={eps}; {njumps} jumps per interval) the simulated "
                                f"diffusion increments are {float(res['D'][0, 0])!r} x sqrt(dt) x normal (fit residual "
                                f"{res['residual']:.3g} over {res['columns']} steps); equivalent_diffusion_coefficient = {sig0!r}, "
                                f"sigma^2 + variance of the central-cell jumps = {var_want!r}",
                                {"simulated_coefficient": float(res["D"][0, 0]), "sigma_eq": sig0, "mode": smode})
            except ProtocolError as e:
                sh.count("history-not-scriptable")
                sh.cap("C04: a history was cut short (a random draw the script does not foresee)")
                sh.note(f"C04 history {name}: {e!r}")
                return
            except Exception as e:  # noqa
                sh.violation(f"C04:history:MarkovChainProcess:raises-{type(e).__name__}:after-{name}:{tail}",
                             f"{label}: {name} ({pk}, max_step_epsilon={eps}): {e!r}", None)
                return


def _alias_1d(sh, label, tail, vtail, model, proc, pd0, sig0, scale, truncations):
    """the callee keeps no reference to the caller's model: after the caller re-declared, re-parametrised and truncated ITS
    object (_disturb_model), a new initialisation of the chain built before gives the drift and the coefficient of before"""
    try:
        _disturb_model(model, truncations)
        proc.initialisation(_product())
        pd = _real(proc.process_drift())
        sig = _real(proc.equivalent_diffusion_coefficient)
    except Exception as e:  # noqa
        sh.violation(f"C04:arguments:MarkovChainProcess:raises-{type(e).__name__}:after-the-caller-disturbed-its-model:{tail}",
                     f"{label}: {e!r}", None)
        return
    sh.cls("history:caller-disturbs-its-model-then-init")
    sh.count("evaluations", 2)
    if not core.close(pd, pd0, rtol=1e-12, atol=1e-15, scale=scale):
        sh.violation(f"C04:arguments:MarkovChainProcess.process_drift:follows-the-callers-model-object:{tail}",
                     f"{label}: process_drift() was {pd0!r}; after the caller re-declared / truncated its own model object and the "
                     f"chain was initialised again it is {pd!r}", None)
    if not core.close(sig, sig0, rtol=1e-12, atol=1e-300):
        sh.violation(f"C04:arguments:equivalent_diffusion_coefficient:follows-the-callers-model-object:{vtail}",
                     f"{label}: equivalent_diffusion_coefficient was {sig0!r}, is {sig!r} after the caller changed its model object", None)


def _next_level_1d(sh, label, tail, vtail, model, grid, method, a, sigma, nu, rep, fv, drift, jump_mean, jm_err, lo, hi, sig0,
                   depth=1):
    """the route the multilevel engine takes to a refinement level: ONE grid object used by a chain, refined in place by
    CouplingMarkovChain.next_level, used by the next chain.  Mean identity (cell masses) and added variance of that chain.
    Levels beyond the first are reached as Engine.price reaches them: copy.deepcopy of the coupling of the level before, then
    next_level WITH path managers - the deterministic path of the new manager is [fine, coarse]: the fine one grows by the
    drift of the new chain, the coarse one by the drift of the chain of the level before; the coupling that was copied is
    left as it was."""
    import copy

    from rpylib.distribution.sampling import SamplingMethod
    from rpylib.process.coupling.couplingmarkovchain import CouplingMarkovChain

    product = _product()
    try:
        cp = CouplingMarkovChain(model=model, method=SamplingMethod[method], grid=grid)
        cp.initialisation(product)
        pd_prev = _real(cp.fine_process.process_drift())
    except Exception as e:  # noqa
        sh.violation(f"C04:mean:CouplingMarkovChain.next_level:raises-{type(e).__name__}:{tail}", f"{label}: {e!r}", None)
        return
    sig_prev = sig0
    for level in range(1, depth + 1):
        stage = ":after-next-level" + (":deep" if level > 1 else "")
        engine = level > 1
        try:
            pms = None
            if engine:
                from rpylib.montecarlo.path import MLMCPath

                before = cp
                n_before = len(before.grid.axes[0])
                cp = copy.deepcopy(before)
                pms = [MLMCPath(cp.fine_process.deterministic_path, False)]
            cp.next_level(mc_paths=0, path_managers=pms, product=product)
            fine, g = cp.fine_process, cp.grid
            pd = _real(fine.process_drift())
            sig_eq = _real(fine.equivalent_diffusion_coefficient)
            axis = [float(x) for x in g.axes[0]]
            o = int(getattr(g.origin_coordinate, "value", g.origin_coordinate))
            if engine:
                dp = np.asarray(pms[-1].deterministic_path(np.array([0.0, 1.0, 2.0])), dtype=float).reshape(2, 3)
                left_alone = (len(before.grid.axes[0]) == n_before and _real(before.fine_process.process_drift()) == pd_prev)
        except Exception as e:  # noqa
            sh.violation(f"C04:mean:CouplingMarkovChain.next_level:raises-{type(e).__name__}:{tail}{stage[17:]}", f"{label}: {e!r}", None)
            return
        if not _well_formed(axis, o) or (axis[0], axis[-1]) != (lo, hi):
            sh.count("outside-alphabet:next-level-grid")
            return
        sh.cls("route:coupling-next-level" + (":engine-deepcopy-with-path-managers" if engine else ""))
        if engine:
            sh.count("evaluations", 3)
            if not left_alone:
                sh.violation(f"C04:copies:CouplingMarkovChain:next_level-of-a-deepcopy-changes-the-original:{tail}",
                             f"{label}: level {level}: the coupling that was deep-copied had {n_before} points and drift {pd_prev!r}; "
                             f"it has {len(before.grid.axes[0])} points and drift {_real(before.fine_process.process_drift())!r} "
                             f"after next_level of its copy", None)
            acc = 16 * EPS * (np.abs(dp[:, 0]) + np.abs(dp[:, 2])) + 1e-15
            for row, ref, what in ((0, pd, "fine"), (1, pd_prev, "coarse")):
                s1, s2 = dp[row, 1] - dp[row, 0], 0.5 * (dp[row, 2] - dp[row, 0])
                if not (abs(s1 - ref) <= acc[row] and abs(s2 - ref) <= acc[row]):
                    sh.violation(
                        f"C04:mean:CouplingMarkovChain.next_level:{what}-deterministic-path-slope-differs-from-the-drift-of-its-level:{tail}",
                        f"{label}: level {level}: the {what} deterministic path of the new path manager grows by {s1!r} over [0,1] "
                        f"and {s2!r} per unit time over [0,2]; process_drift() of the chain of that level = {ref!r}", None)
        # the Brownian scales the coupling simulators apply to the fine and to the coarse path: those of the chain of this
        # level and of the chain of the level before (level 1: the chain of this case, built on the same grid before)
        for attr, ref, what in (("equivalent_diffusion_coefficient_fine", sig_eq, "the new fine chain"),
                                ("equivalent_diffusion_coefficient_coarse", sig_prev, "the chain of the level before")):
            val = getattr(cp, attr, None)
            if val is None:
                sh.count("coupling-coefficient-not-observable")
                continue
            sh.count("evaluations")
            if not core.close(_real(val), ref, rtol=1e-12, atol=1e-300):
                sh.violation(f"C04:variance:CouplingMarkovChain.{attr}:differs-from-the-chain-of-its-level:{vtail}{stage[17:]}",
                             f"{label}: after next_level (level {level}) {attr} = {_real(val)!r}, "
                             f"equivalent_diffusion_coefficient of {what} = {ref!r}", None)
        cells, central = O.ref_cells(axis, o, middle=g.middle)
        s1 = s_abs = 0.0
        for x, cell in zip(axis, cells):
            if cell is not None:
                m = max(_real(fine.model.mass(float(cell[0]), float(cell[1]))), 0.0)
                s1 += x * m
                s_abs += abs(x) * m
        rtol = 1e-9 if fv else 1e-8
        want = drift + a + jump_mean
        scale = max(abs(pd) if math.isfinite(pd) else 0.0, s_abs, abs(a), abs(drift), abs(jump_mean), 1e-300)
        if jm_err <= ATOL + rtol * scale:
            sh.count("evaluations")
            if not core.close(pd + s1, want, rtol=rtol, atol=ATOL, scale=scale):
                sh.violation(
                    f"C04:mean:MarkovChainProcess.process_drift:mean-differs-from-truncated-process:{tail}{stage}",
                    f"{label}: fine process of CouplingMarkovChain after next_level (level {level}, {len(axis)} points): "
                    f"process_drift {pd!r} + sum x_k mass(cell_k) = {pd + s1!r}, expected {want!r}",
                    {"process_drift": pd, "expected": want})
        else:
            sh.count("oracle_inconclusive")
        central = (float(central[0]), float(central[1]))
        if fv:
            sh.count("evaluations")
            if not core.close(sig_eq ** 2, sigma ** 2, rtol=1e-12, atol=1e-300):
                sh.violation(f"C04:variance:equivalent_diffusion_coefficient:variance-added-for-a-finite-variation-model:{vtail}{stage}",
                             f"{label}: after next_level (level {level}) equivalent_diffusion_coefficient^2 = {sig_eq ** 2!r}, "
                             f"sigma^2 = {sigma ** 2!r}", None)
        else:
            q_c, e_c = _int(nu, max(central[0], -1.0), min(central[1], 1.0), 2)
            if e_c <= 1e-8 * abs(q_c) + 1e-300:
                sh.count("evaluations")
                if not core.close(sig_eq ** 2 - sigma ** 2, q_c, rtol=1e-8, atol=1e-12 * sigma ** 2, scale=max(abs(q_c), sigma ** 2 * 1e-4)):
                    sh.violation(
                        f"C04:variance:equivalent_diffusion_coefficient:not-the-variance-of-the-central-cell-jumps:{vtail}{stage}",
                        f"{label}: after next_level (level {level}) equivalent_diffusion_coefficient^2 - sigma^2 = "
                        f"{sig_eq ** 2 - sigma ** 2!r}, int over the central cell {central} of x^2 nu = {q_c!r}", None)
            else:
                sh.count("oracle_inconclusive")
        pd_prev, sig_prev = pd, sig_eq


# ----------------------------------------------------------------------------------------------------------------------
# copula chains
# ----------------------------------------------------------------------------------------------------------------------

class _Result:
    def __init__(self, v):
        self.v = v

    def get(self, timeout=None):
        return self.v


def _scripted_covariance(i, j):
    """the answers of the stand-in pool: a fixed symmetric, strictly diagonally dominant (hence positive definite) matrix of
    small-jump (co)variances, NOT zero, so that what the library does with the answers is visible in the diffusion matrix"""
    i, j = min(i, j), max(i, j)
    return 0.03 + 0.01 * i if i == j else 0.004 * (1 + i + j)


class _StandInPool:
    """stand-in for pathos' Pool inside MCLevyCopulaSimulation: `real` runs the function in-process, else the answer for
    vol_adjustment_ij(i, j, ...) is _scripted_covariance(i, j) (0.0 when the arguments are not recognised); what was handed
    out is recorded in `handed` {(i, j): value}"""
    real = False
    handed = {}

    def __init__(self, *a, **k):
        pass

    def __enter__(self):
        return self

    def __exit__(self, *a):
        return False

    def apply_async(self, func, args=(), kwds=None):
        if self.real:
            return _Result(func(*args, **(kwds or {})))
        v = 0.0
        if len(args) >= 2 and all(isinstance(x, (int, np.integer)) for x in args[:2]):
            i, j = int(args[0]), int(args[1])
            v = _scripted_covariance(i, j)
            type(self).handed[(min(i, j), max(i, j))] = v
        else:
            type(self).handed[None] = 0.0
        return _Result(v)


class _SyncPool(_StandInPool):
    real = True


@contextlib.contextmanager
def _pool(real):
    import rpylib.process.markovchain.markovchainlevycopula as M

    old = getattr(M, "mp", None)
    ns = _Obj()
    ns.Pool = _SyncPool if real else _StandInPool
    _StandInPool.handed = {}
    M.mp = ns
    try:
        yield
    finally:
        M.mp = old


def _handed_matrix(dim):
    """the matrix of the answers the stand-in pool gave (None when it was not asked or did not recognise the question)"""
    h = _StandInPool.handed
    if not h or None in h:
        return None
    f = np.zeros((dim, dim))
    for i in range(dim):
        for j in range(i, dim):
            if (i, j) not in h:
                return None
            f[i, j] = f[j, i] = h[(i, j)]
    return f


def _central_covariance(copula, nus, h2, i, j):
    """C_ij = int over the central box [-h2, h2]^2 of x_i x_j nu(dx), from the definition: for x > 0, x = int_0^x ds, hence
    C_ii = sum over the two signs of int_0^{h2} 2 s nu({sign x_i in (s, h2]} x [-h2, h2]) ds and
    C_ij = sum over the four sign pairs of sign_i sign_j int int nu({sign_i x_i in (s, h2]} x {sign_j x_j in (t, h2]}) ds dt,
    with the rectangle masses of mc.oracle.ref_rectangle_mass (their closure never contains the origin). (value, error)"""
    tot = err = 0.0
    if i == j:
        o = 1 - i
        for sgn in (1.0, -1.0):
            def f(s, sgn=sgn):
                a, b = [0.0, 0.0], [0.0, 0.0]
                a[i], b[i] = (s, h2) if sgn > 0 else (-h2, -s)
                a[o], b[o] = -h2, h2
                return 2.0 * s * O.ref_rectangle_mass(copula, nus, a, b)

            top = h2 ** 0.25  # s = t^4 flattens the |s|^(1-y) behaviour at the origin
            v, e = quad(lambda t: f(t ** 4) * 4 * t ** 3 if t > 0 else 0.0, 0.0, top, epsabs=0.0, epsrel=1e-8, limit=200)
            tot += v
            err += e
        return tot, err
    for si in (1.0, -1.0):
        for sj in (1.0, -1.0):
            def f(t, s, si=si, sj=sj):
                a, b = [0.0, 0.0], [0.0, 0.0]
                a[i], b[i] = (s, h2) if si > 0 else (-h2, -s)
                a[j], b[j] = (t, h2) if sj > 0 else (-h2, -t)
                return O.ref_rectangle_mass(copula, nus, a, b)

            top = h2 ** 0.25
            v, e = dblquad(lambda v_, u_: (f(v_ ** 4, u_ ** 4) * 16 * (u_ * v_) ** 3 if u_ > 0 and v_ > 0 else 0.0),
                           0.0, top, 0.0, top, epsabs=1e-9, epsrel=1e-6)
            tot += si * sj * v
            err += e
    return tot, err


def _history_copula(sh, label, spec, gspec, model, margins, grid, proc, dim, pd0, var0, scales, fp0, fp_points, real_pool):
    """the HISTORY menu on one MarkovChainLevyCopula (with the real small-jump covariance, whose every initialisation costs
    5 - 30 s, only the simulation after the first initialisation)."""
    import copy

    from mc.c04_util import JUMPS_PER_INTERVAL as JUMPS, ProtocolError, Rng, simulated_brownian_scale
    from rpylib.distribution.sampling import SamplingMethod
    from rpylib.process.markovchain.markovchainlevycopula import MarkovChainLevyCopula

    names = spec["margins"]
    pair = ("exp-" if spec.get("exp") else "") + "+".join(names) + (f":copied={spec['copied']}" if spec.get("copied") else "")
    gc = _gclass(gspec)
    products = _products()
    rng = Rng()
    current = ("vanilla-1", None)
    flagged_modes = set()
    nojump_done = set()
    vscale = max(float(np.max(np.abs(var0))), 1e-300)
    menu = HISTORY[:1] if real_pool else HISTORY
    with _pool(False), rng.installed():
        for name, pk, eps, pre in menu:
            targets = [proc]
            try:
                if pre == "reset-cost":
                    proc.reset_one_simulation_cost()
                elif pre == "other-object":
                    # the same model on the same grid object with the other n-d sampling method (its drift must be the same),
                    # and a chain of the margins in reverse order on another grid
                    twin = MarkovChainLevyCopula(levy_copula_model=model, grid=grid, method=SamplingMethod.BINARYSEARCHTREEADAPTED)
                    twin.initialisation(products["cds-1"], max_step_epsilon=0.2)
                    targets = [proc, twin]
                    rev = _make_copula_model({k: v for k, v in dict(spec, margins=list(reversed(names))).items() if k != 'copied'})
                    other = MarkovChainLevyCopula(levy_copula_model=rev, method=SamplingMethod.INVERSION,
                                                  grid=A.make_grid({"kind": "fixed", "h": 0.07, "n": 3}, rev, dim))
                    other.initialisation(products["asian-2"])
                elif pre in ("deepcopy", "dill"):
                    targets = [_copy_route(proc, pre), proc]
                if pk is not None:
                    _initialise(targets[0], products[pk], eps)
                    current = (pk, eps)
                mode = _mode(*current)
                sh.cls(f"copula-history:{name}")
                for idx, target in enumerate(targets):
                    who = "" if len(targets) == 1 else f" (object {idx} of {len(targets)})"
                    pd = np.asarray(target.process_drift(), dtype=complex).reshape(-1)
                    sh.count("evaluations", 2)
                    bad = [k for k in range(dim) if pd.size != dim or not core.close(_real(pd[k]), pd0[k], rtol=1e-12, atol=1e-15,
                                                                                    scale=scales[k])]
                    if bad:
                        sh.violation(f"C04:history:MarkovChainLevyCopula.process_drift:changes-after-{name}:{pair}:{gc}",
                                     f"{label}: process_drift() was {pd0} after the first initialisation (mean identity checked per "
                                     f"margin), is {[_real(x) for x in pd]} after {name}{who} ({pk}, max_step_epsilon={eps})",
                                     {"first": list(pd0), "now": [_real(x) for x in pd], "margins": bad})
                        return
                    dm = np.asarray(target._path_simulation.diffusion_matrix, dtype=complex)
                    var = (dm @ dm.T).real
                    if not np.allclose(var, var0, rtol=0.0, atol=1e-10 * vscale + 1e-300):
                        sh.violation(f"C04:history:MCLevyCopulaSimulation.diffusion_matrix:changes-after-{name}:{pair}",
                                     f"{label}: D D^T was {var0.tolist()}, is {var.tolist()} after {name}{who}", None)
                        return
                    s1, s2, acc, bad_forms = _slope(target, dim)
                    sh.count("evaluations", 2)
                    if bad_forms:
                        sh.violation(f"C04:forms:Process.deterministic_path:{bad_forms[0]}:copula:{pair}",
                                     f"{label}: after {name}{who}: {bad_forms}", None)
                        return
                    pdr = np.array([_real(x) for x in pd])
                    if not (np.all(np.abs(s1 - pdr) <= acc + 1e-15) and np.all(np.abs(s2 - pdr) <= acc + 1e-15)):
                        sh.violation(f"C04:mean:Process.deterministic_path:slope-differs-from-process_drift:copula:{pair}",
                                     f"{label}: after {name}{who} deterministic_path grows by {s1.tolist()} over [0,1] and "
                                     f"{s2.tolist()} per unit time over [0,2], process_drift() = {pdr.tolist()}", None)
                        return
                    fp = [_fingerprint(m, pts) for m, pts in zip(margins, fp_points)]
                    if fp != fp0:
                        sh.violation(f"C04:history:MarkovChainLevyCopula:changes-the-callers-model-after-{name}:{pair}",
                                     f"{label}: per margin (a, sigma, representation, drift(), nu at {fp_points}) was {fp0}, is {fp} "
                                     f"after {name}", None)
                        return
                    if idx > 0:
                        continue
                    if dim > 3:
                        # the identifiable normals (a golden-ratio sequence) do not span R^4: the matrix is not recoverable
                        sh.count("simulated-variance-not-observed-beyond-dimension-3")
                        continue
                    for njumps in ((JUMPS,) if mode in nojump_done else (JUMPS, 0)):
                        nojump_done.add(mode)
                        rng.jumps = njumps
                        res = simulated_brownian_scale(target, products[current[0]], dim, rng)
                        rng.jumps = JUMPS
                        smode = mode + ("" if njumps else ":no-jump-paths")
                        if "unrecognised" in res:
                            sh.count("simulated-variance-not-observable")
                            sh.cap("C04: the Brownian scale of a simulator was not observable (protocol of the random draws not recognised)")
                            sh.note(f"C04 copula history {name}: {res['unrecognised']}")
                            continue
                        sh.cls(f"simulator:copula-chain:{smode}")
                        sh.count("evaluations")
                        sh.count("simulated_steps", res["columns"])
                        svar = res["D"] @ res["D"].T
                        ok = res["residual"] <= 1e-9 * max(res["scale"], 1e-300)
                        ok = ok and np.allclose(svar, var0, rtol=0.0, atol=1e-8 * vscale + 1e-30)
                        if not ok and smode not in flagged_modes:
                            flagged_modes.add(smode)
                            sh.violation(
                                f"C04:simulated-variance:copula-chain:{smode}:brownian-covariance-differs-from-diffusion-matrix:{pair}",
                                f"{label}: after {name} ({pk}, max_step_epsilon={eps}; {njumps} jumps per interval) the simulated "
                                f"diffusion increments are D z sqrt(dt) with D D^T = {svar.tolist()} (fit residual "
                                f"{res['residual']:.3g} over {res['columns']} steps); the diffusion matrix gives {var0.tolist()}",
                                {"simulated": svar.tolist(), "expected": var0.tolist()})
            except ProtocolError as e:
                sh.count("history-not-scriptable")
                sh.cap("C04: a history was cut short (a random draw the script does not foresee)")
                sh.note(f"C04 copula history {name}: {e!r}")
                return
            except Exception as e:  # noqa
                sh.violation(f"C04:history:MarkovChainLevyCopula:raises-{type(e).__name__}:after-{name}:{pair}:{gc}",
                             f"{label}: {name} ({pk}, max_step_epsilon={eps}): {e!r}", None)
                return


def _copula(sh, case):
    from rpylib.distribution.sampling import SamplingMethod
    from rpylib.process.markovchain.markovchainlevycopula import MarkovChainLevyCopula

    spec, gspec, rep_req = case["model"], case["grid"], case["rep"]
    names = spec["margins"]
    exp = bool(spec.get("exp"))
    label = (f"{'exp-' if exp else ''}{'+'.join(names)} {_cop_label(spec['copula'])} declared {rep_req or 'as constructed'} "
             f"on {gspec}" + (f" [{spec['copied']} of the model, original disturbed afterwards]" if spec.get("copied") else ""))
    gc = _gclass(gspec)
    model = _make_copula_model(spec)
    margins = list(model.models)
    dim = len(margins)
    sh.cls(f"copula-dimension:{dim}")
    applied = []
    for k, mk in enumerate(margins):
        fvk = bool(mk.levy_triplet.nu.jump_of_finite_variation())
        rep_k = MIXED[k % len(MIXED)] if rep_req == "MIXED" else rep_req  # MIXED: another representation for every margin
        if rep_k == "ZERO" and not fvk:
            applied.append(None)  # not admissible for that margin: left as constructed
            continue
        mspec = dict(MARGINS[names[k]], exp=exp)
        if not _set_rep(sh, mk.levy_triplet, rep_k, _mclass(mspec), label + f" margin {k}"):
            return
        applied.append(rep_k)
    # finite variation of the copula model = of every margin, by the margins' OWN measures (at a Blumenthal-Getoor index of
    # exactly 1 the index alone does not tell)
    fv_margins = [bool(mk.levy_triplet.nu.jump_of_finite_variation()) for mk in margins]
    fv_all = all(fv_margins)
    sh.cls("copula:" + ("finite" if fv_all else "infinite") + "-variation")
    if bool(model.jump_of_finite_variation()) != fv_all:
        sh.cls("copula:variation-flag-of-the-model-differs-from-that-of-its-margins")
    if spec.get("copied"):
        sh.cls(f"copula-model-copied:{spec['copied']}")
    sh.cls("copula-grid:" + gc)
    sh.cls("copula-process-representation:" + ("log" if exp else "identity"))
    try:
        grid = A.make_grid(gspec, model, dim)
    except A.OutsideAlphabet:
        sh.count("outside-alphabet:grid")
        return
    axes = [[float(x) for x in ax] for ax in grid.axes]
    origin = [int(c) for c in grid.origin_coordinate]
    if not all(_well_formed(ax, o) for ax, o in zip(axes, origin)):
        sh.count("outside-alphabet:grid-not-well-formed")
        return
    before = [(_real(m.levy_triplet.a), m.levy_triplet.representation.name) for m in margins]
    fp_points = [[1.5 * ax[0], 0.25 * ax[o - 1], 0.25 * ax[o + 1], 1.5 * ax[-1]] for ax, o in zip(axes, origin)]
    fp0 = [_fingerprint(m, pts) for m, pts in zip(margins, fp_points)]
    real_pool = bool(case.get("diffusion"))
    try:
        with _pool(real_pool):
            proc = MarkovChainLevyCopula(levy_copula_model=model, grid=grid, method=SamplingMethod.INVERSION)
            proc.initialisation(_product())
            handed = _handed_matrix(dim)
    except Exception as e:  # noqa
        sh.violation(f"C04:copula-mean:MarkovChainLevyCopula:raises-{type(e).__name__}:{'+'.join(names)}:{gc}",
                     f"{label}: constructor / initialisation: {e!r}", None)
        return
    after = [(_real(m.levy_triplet.a), m.levy_triplet.representation.name) for m in margins]
    if after != before:
        sh.violation(f"C04:copula-mean:MarkovChainLevyCopula:changes-the-callers-model:{'+'.join(names)}",
                     f"{label}: margins were {before}, are {after}", None)
    pd = np.asarray(proc.process_drift(), dtype=complex).reshape(-1)
    if pd.size != len(margins):
        sh.violation(f"C04:copula-mean:MarkovChainLevyCopula.process_drift:wrong-shape:{'+'.join(names)}",
                     f"{label}: process_drift() has {pd.size} entries for {len(margins)} margins", None)
        return
    obs = []
    scales = []

    def judge(pd, axes, origin, stage):
        """the mean identity per margin for the drift vector pd of a chain on these axes (stage "" = the chain of the case,
        otherwise a later chain on the re-used, refined grid object)"""
        for k, mk in enumerate(margins):
            a, sigma, nu, rep, fv = _triplet(mk)
            drift = _real(mk.drift())
            pdk = _real(pd[k])
            axis, o = axes[k], origin[k]
            lo, hi = axis[0], axis[-1]
            cells, central = O.ref_cells(axis, o)
            s1 = s_abs = e1 = 0.0
            for x, cell in zip(axis, cells):
                if cell is None:
                    continue
                m, e = _int(nu, cell[0], cell[1], 0)
                s1 += x * m
                s_abs += abs(x) * m
                e1 += abs(x) * e
            alpha, beta = _ab(rep, fv)
            vin, ein, vout, eout = _x_in_out(nu, lo, hi, need_in=(alpha != 1.0))
            jump_mean = (1.0 - alpha) * vin + (1.0 - beta) * vout
            err = e1 + (1.0 - alpha) * ein + (1.0 - beta) * eout
            want = drift + a + jump_mean
            got = pdk + s1
            scale = max(abs(pdk) if math.isfinite(pdk) else 0.0, s_abs, abs(a), abs(drift), abs(vin), abs(vout), 1e-300)
            rtol = 1e-9 if fv else 1e-8
            if not stage:
                scales.append(scale)
                obs.append((round(pdk, 9) if math.isfinite(pdk) else repr(pdk), round(want, 9)))
            mix = ("finite" if fv else "infinite") + "-variation-margin-in-" + ("finite" if fv_all else "infinite") + "-variation-copula"
            mix += ":axis-equals-axis-0" if axes[k] == axes[0] else ":axis-differs-from-axis-0"
            sh.cls("margin:" + mix)
            sh.cls("margin-declared:" + rep)
            if not err <= ATOL + rtol * scale:
                sh.count("oracle_inconclusive")
                continue
            sh.count("evaluations")
            if not stage:
                sh.nontriv()
            if not core.close(got, want, rtol=rtol, atol=ATOL, scale=scale):
                sh.violation(
                    f"C04:copula-mean:MarkovChainLevyCopula.process_drift:margin-mean-differs-from-truncated-margin:{mix}:"
                    f"{_mclass(dict(MARGINS[names[k]], exp=exp))}:{rep}{stage}",
                    f"{label}{stage}: margin {k} ({names[k]}, {rep}): _process_drift[{k}] {pdk!r} + sum x_i nu_k(cell_i) = {got!r}; "
                    f"margin.drift() + a + int_T x (1 - c_{rep}) nu_k = {want!r} (bias {got - want:.6g} per unit time)",
                    {"margin": k, "process_drift": pdk, "chain_mean": got, "expected": want, "a": a, "model_drift": drift,
                     "jump_mean": jump_mean, "truncation": [lo, hi], "quad_err": err})

    judge(pd, axes, origin, "")
    # ---- measured, not judged: the jump part weighted by the joint rates (leak through the other coordinate's truncation)
    leak = None
    if dim == 2 and len(axes[0]) * len(axes[1]) <= 400:
        from mc import c04_util as C2

        law = C2.target_law(proc, grid, 2)
        lam = float(proc.intensity_of_jumps)
        leak = []
        for k in range(2):
            joint = sum(axes[k][origin[k] + inc[k]] * lam * p for inc, p in law.items())
            cells, _ = O.ref_cells(axes[k], origin[k])
            marg = sum(x * _int(margins[k].levy_triplet.nu, c[0], c[1], 0)[0] for x, c in zip(axes[k], cells) if c is not None)
            leak.append(marg - joint)
        sh.count("copula_leak_measured")

    # ---- diffusion matrix
    dm = getattr(getattr(proc, "_path_simulation", None), "diffusion_matrix", None)
    sig2 = np.diag([_real(m.levy_triplet.sigma) ** 2 for m in margins])
    pair = "+".join(names) + (f":copied={spec['copied']}" if spec.get("copied") else "")
    if dm is None:
        sh.count("diffusion-matrix-not-observable")
    else:
        dmc = np.asarray(dm, dtype=complex)
        var = (dmc @ dmc.T)
        if np.max(np.abs(var.imag)) > 1e-12 * max(1.0, float(np.max(np.abs(var.real)))):
            sh.violation(f"C04:copula-variance:MCLevyCopulaSimulation.diffusion_matrix:not-real:{pair}", f"{label}: {dm!r}", None)
        var = var.real
        if fv_all:
            sh.count("evaluations")
            if not np.allclose(var, sig2, rtol=1e-12, atol=1e-300 + 1e-14 * float(np.max(sig2))):
                sh.violation(f"C04:copula-variance:MCLevyCopulaSimulation.diffusion_matrix:variance-added-for-a-finite-variation-model:{pair}",
                             f"{label}: D D^T = {var.tolist()}, diag(sigma^2) = {sig2.tolist()}", None)
        elif not real_pool and handed is not None:
            # the stand-in pool answered with known small-jump (co)variances F: the variance per unit time of the Brownian part
            # must be diag(sigma^2) + F - added once, as (co)variances
            sh.count("evaluations")
            want_var = sig2 + handed
            if not np.allclose(var, want_var, rtol=0.0, atol=1e-10 * float(np.max(want_var))):
                sh.violation(f"C04:copula-variance:MCLevyCopulaSimulation.diffusion_matrix:not-sigma2-plus-small-jump-covariance:{pair}",
                             f"{label}: D D^T = {var.tolist()}; diag(sigma^2) + (co)variances returned for the small jumps = "
                             f"{want_var.tolist()} (scripted answers of the pool: {handed.tolist()})", None)
            sh.cls("copula-diffusion:scripted-small-jump-covariance")
        elif not real_pool:
            # the small-jump covariance was not even asked for although a margin has jumps of infinite variation: nothing can
            # have been added for it
            sh.count("evaluations")
            nothing = [k for k in range(dim) if not fv_margins[k] and not var[k, k] > sig2[k, k] * (1 + 1e-12)]
            if nothing:
                sh.violation(
                    f"C04:copula-variance:MCLevyCopulaSimulation.diffusion_matrix:nothing-added-for-an-infinite-variation-margin:{pair}",
                    f"{label}: margins {nothing} have jumps of infinite variation (their own measure says so, their central cell is "
                    f"removed and their drift uses the cut-off 1), but (D D^T)[k,k] = {[float(var[k, k]) for k in nothing]} = "
                    f"sigma_k^2: no variance of the jumps inside the central cell was added (LevyCopulaModel."
                    f"jump_of_finite_variation() = {bool(model.jump_of_finite_variation())})",
                    {"variance": var.tolist(), "sigma2": sig2.tolist(), "finite_variation_per_margin": fv_margins})
            else:
                sh.count("copula-variance-not-judged")
        elif real_pool and dim == 2:
            h2 = 0.5 * float(grid.h)
            nus = [m.levy_triplet.nu for m in margins]
            cop = model.copula
            h = float(grid.h)
            worst = 0.0
            exp_var = np.array(sig2, dtype=float)
            for i in range(2):
                for j in range(i, 2):
                    c, e = _central_covariance(cop, nus, h2, i, j)
                    exp_var[i, j] += c
                    if i != j:
                        exp_var[j, i] += c
                    tol = (2.2e-3 / h if i == j else 1.1e-3) + e
                    sh.count("evaluations")
                    worst = max(worst, abs(var[i, j] - exp_var[i, j]))
                    if not abs(var[i, j] - exp_var[i, j]) <= tol:
                        sh.violation(
                            f"C04:copula-variance:MCLevyCopulaSimulation.diffusion_matrix:not-sigma2-plus-central-box-covariance:"
                            f"{pair}:{'diagonal' if i == j else 'off-diagonal'}",
                            f"{label}: (D D^T)[{i},{j}] = {var[i, j]!r}; sigma^2 delta_ij + int over the central box of x_{i} x_{j} nu "
                            f"= {exp_var[i, j]!r} (tolerance {tol:.3g}: nquad epsabs 1e-3 propagated); D = {np.asarray(dm).tolist()}",
                            {"variance": var.tolist(), "expected_entry": float(exp_var[i, j]), "sigma2": sig2.tolist()})
            sh.sample({"sub": "copula-diffusion", "case": case, "D": np.asarray(dm).real.tolist(), "D_DT": var.tolist(),
                       "expected": exp_var.tolist(), "max_abs_diff": worst})
            sh.cls("copula-diffusion:real-small-jump-covariance")
    if case.get("history", True) and dm is not None:
        pd0 = [_real(x) for x in pd]
        _history_copula(sh, label, spec, gspec, model, margins, grid, proc, dim, pd0, var, scales, fp0, fp_points, real_pool)
    # ---- the route the multilevel engine takes to the next level: the grid object of this case, used, refined in place by
    # CouplingProcessLevyCopula.next_level, used by the next chain
    if case.get("next_level"):
        from rpylib.process.coupling.couplinglevycopula import CouplingProcessLevyCopula

        try:
            with _pool(False):
                cp = CouplingProcessLevyCopula(levy_copula_model=model, grid=grid, method=SamplingMethod.INVERSION)
                cp.initialisation(_product())
                cp.next_level(mc_paths=0, path_managers=None, product=_product())
                pd2 = np.asarray(cp.fine_process.process_drift(), dtype=complex).reshape(-1)
                axes2 = [[float(x) for x in ax] for ax in cp.grid.axes]
                origin2 = [int(c) for c in cp.grid.origin_coordinate]
        except Exception as e:  # noqa
            sh.violation(f"C04:copula-mean:CouplingProcessLevyCopula.next_level:raises-{type(e).__name__}:{'+'.join(names)}:{gc}",
                         f"{label}: {e!r}", None)
        else:
            if (pd2.size == dim and all(_well_formed(ax, o) for ax, o in zip(axes2, origin2))
                    and all((x[0], x[-1]) == (y[0], y[-1]) and len(x) > len(y) for x, y in zip(axes2, axes))):
                sh.cls("copula-route:coupling-next-level")
                judge(pd2, axes2, origin2, ":after-next-level")
            else:
                sh.count("outside-alphabet:next-level-grid")
    elif dm is not None and not real_pool:
        # ---- last (the grid object not refined): the caller disturbs ITS margins; the chain built before answers as before
        try:
            for mk, ax in zip(margins, axes):
                _disturb_model(mk, (0.5 * ax[0], 0.5 * ax[-1]))
            with _pool(False):
                proc.initialisation(_product())
            pd3 = np.asarray(proc.process_drift(), dtype=complex).reshape(-1)
            dm3 = np.asarray(proc._path_simulation.diffusion_matrix, dtype=complex)
            var3 = (dm3 @ dm3.T).real
        except Exception as e:  # noqa
            sh.violation(f"C04:arguments:MarkovChainLevyCopula:raises-{type(e).__name__}:after-the-caller-disturbed-its-model:{pair}:{gc}",
                         f"{label}: {e!r}", None)
        else:
            sh.cls("copula-history:caller-disturbs-its-model-then-init")
            sh.count("evaluations", 2)
            bad = [k for k in range(dim) if pd3.size != dim or not core.close(_real(pd3[k]), _real(pd[k]), rtol=1e-12, atol=1e-15,
                                                                               scale=scales[k])]
            if bad:
                sh.violation(f"C04:arguments:MarkovChainLevyCopula.process_drift:follows-the-callers-model-object:{pair}:{gc}",
                             f"{label}: process_drift() was {[_real(x) for x in pd]}; after the caller re-declared / truncated its own "
                             f"margin objects and the chain was initialised again it is {[_real(x) for x in pd3]}", None)
            if not np.allclose(var3, var, rtol=0.0, atol=1e-10 * max(float(np.max(np.abs(var))), 1e-300) + 1e-300):
                sh.violation(f"C04:arguments:MCLevyCopulaSimulation.diffusion_matrix:follows-the-callers-model-object:{pair}",
                             f"{label}: D D^T was {var.tolist()}, is {var3.tolist()} after the caller changed its margin objects", None)
    sh.outcome((obs, gc))
    if gspec["kind"] == "fixed" and gspec.get("n") == 5 and not gspec.get("refine"):
        sh.sample({"sub": "copula", "model": spec, "declared": [r for _, r in after], "grid": gspec,
                   "process_drift": [_real(x) for x in pd], "expected_margin_means": [w for _, w in obs],
                   "leak_of_joint_rates_per_margin": leak})
