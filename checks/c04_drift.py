"""C04 - drift compensation: the chain reproduces the mean of the process it replaces; small-jump variance.

Mode: lattice sweep (complete products, nothing sampled). Sub-checks ("sub" of a case):

 chain1d   one case per (1-d model spec of mc.alphabets.model_specs, Levy and exponential, plus CGMY y in {1, 1.2, 1.5, 0.5}
           with the Brownian coefficient 0.2 written into the triplet after construction - sigma > 0 together with
           infinite-variation jumps, which no built-in model has; see _make_model for what is asserted on the exponential
           versions  x  declared representation in
           {as constructed, ZERO, CENTER, ONEONE, TILDE}, set with model.levy_triplet.set_representation(R) BEFORE the chain
           is built  x  grid spec of mc.alphabets.grid_specs  x  0..k refinements).  The real MarkovChainProcess is built
           (once per sampling method of the case), initialisation(product) is called, and these are observed:
           process_drift(); the per-state rates in two independent ways - (m) the process's own truncated model mass() on
           reference cells re-derived from the axis with the grid's middle(), (s) the law of the sampler actually built,
           recovered exactly by bisection of its single-uniform entry point (checks.c02_samplers.recover_partition) times
           intensity_of_jumps; equivalent_diffusion_coefficient; the caller's model before and after.
 copula    one case per (pair of margins in both orders of finite / infinite variation, or triple with the infinite-variation
           margin first, in the middle or last; Levy and exponential, copula, representation applied to every margin that
           admits it, 2-d / 3-d grid, refinements): MarkovChainLevyCopula, initialisation(product), _process_drift per margin,
           and _path_simulation.diffusion_matrix.

Oracles (T = [axis[0], axis[-1]] the truncation of the grid, (a, sigma, nu) the caller's triplet in its declared representation
R with cut-off c_R of mc.oracle.cutoff, all integrals by quadrature of the model's OWN density nu.__call__):

 mean          process_drift + sum_k x_k rate_k  =  model.drift() + a + int_T x (1 - c_R(x)) nu(dx)
               The chain replaces nu by its restriction to T and keeps the compensator of the declared representation; a Levy
               process with exponent i u a + int (e^{iux} - 1 - i u x c_R(x)) nu_T(dx) has mean a + int_T x (1 - c_R) nu per unit
               time; model.drift() is the (r - d + omega) of exponential models, 0 for Levy models. With c_R = alpha 1{|x|<1} +
               beta 1{|x|>=1}: ZERO (0,0), CENTER (1,1), ONEONE (1,0), TILDE = ZERO for finite variation else ONEONE.
               Asserted for the rates (m) [key C04:mean] and for each sampler law (s) [key C04:sampler-mean:<method>].
 conversion    the drift declared after set_representation(R) = a0 + int_R x (c_R - c_R0)(x) nu(dx), (a0, R0) as constructed
               (full measure: the conversion happens on the caller's un-truncated model).
 variance      equivalent_diffusion_coefficient^2 - sigma^2 = int_{central cell ^ [-1,1]} x^2 nu for infinite-variation models,
               = 0 for finite-variation models (central cell = between the two cell boundaries next to the origin).
 variance-bound  |sum_{k != 0} x_k^2 rate_k - int_{T \\ central} x^2 nu| <= sum_{k != 0} osc_k(x^2) mass_k, and the statement's total
               |sigma_eq^2 + sum_k x_k^2 rate_k - (sigma^2 + int_T x^2 nu)| <= sum_{k != 0} osc_k(x^2) mass_k + (finite variation:
               int_central x^2 nu, which is <= osc_0 mass_0 and finite even when mass_0 is not), mass_k by quadrature.
 copula-mean   per margin k: _process_drift[k] + sum_i x_i nu_k(cell_i)  =  margin.drift() + a_k + int_{T_k} x (1 - c_{R_k}) nu_k
               (cells of axis k, arithmetic middles, nu_k the margin's own density): the deterministic drift of margin k
               compensates the states of axis k weighted by the MARGINAL cell masses, exactly as the 1-d chain of that margin.
 copula-variance  D = _path_simulation.diffusion_matrix:  D D^T = diag(sigma_k^2) for finite-variation copula models (exact);
               for infinite-variation ones D D^T = diag(sigma_k^2) + C, C_ij = int_{central box} x_i x_j nu(dx) computed from the
               definition (integration by parts against mc.oracle.ref_rectangle_mass), within the library's own requested
               quadrature accuracy (nquad epsabs 1e-3 propagated: 2.2e-3/h on the diagonal, 1.1e-3 off it, d = 2).

Outside the alphabet (statement silent or quantity does not exist), never an alarm:
 * ZERO for an infinite-variation model (int |x| nu diverges at the origin; the library raises or returns inf);
 * Black-Scholes / pure diffusions (no jumps, the model-based grids cannot be built);
 * grids that are not well formed (C13) and credit thresholds not strictly inside (l, -h) (OutsideAlphabet);
 * the table sampler (approximate by construction: 2^-20 per state, C02) - the exact samplers are INVERSION,
   BINARYSEARCHTREEADAPTED1D (quick) + ALIAS, BINARYSEARCHTREE, HUFFMANNTREE (thorough);
 * copula chains: the jump part weighted by the JOINT rates differs from the marginal sum by the mass of jumps whose OTHER
   coordinate leaves the box (a truncation effect: which process "the truncated process" is for a margin of a box-truncated
   copula model is not fixed by the statement); it is measured and written to the evidence samples ("leak"), not judged.
   In dimension 3 only the drift (and the diffusion matrix of finite-variation triples) is observed: the small-jump
   covariance of an infinite-variation triple takes > 200 s.
 * infinite-variation copula chains are constructed with the pathos pool of MCLevyCopulaSimulation replaced by a stand-in:
   zero results where only the drift is observed, an in-process synchronous pool (the real vol_adjustment_ij) in the
   "diffusion" cases (1 quick, 4 thorough).
"""
from __future__ import annotations

import contextlib
import math
import warnings

import numpy as np
from scipy.integrate import dblquad, quad

from mc import alphabets as A
from mc import core
from mc import oracle as O

PID = "C04"
LEVEL = "exploration"
RULE = (
    "complete product (1-d model spec x declared representation x grid spec x refinements; margin pair x copula x "
    "representation x 2-d grid x refinements); a case is non-trivial when process_drift plus the rate-weighted states was "
    "compared with a quadrature mean whose own error estimate was below the tolerance; distinct = distinct case dict"
)
ASSUMPTIONS = [
    "oracle integrals are scipy QUADPACK (mpmath tanh-sinh fallback) quadratures of the model's own density nu.__call__, split "
    "at 0, +-1, with the substitution x = +-t^8 on pieces touching the origin; a comparison is made only when the quadrature's "
    "error estimate is below the tolerance, otherwise oracle_inconclusive is counted",
    "nu.jump_of_finite_variation() is trusted to define the TILDE cut-off and which variance rule applies",
    "tolerances: mean rtol 1e-9 (finite variation) / 1e-8 (infinite variation) of the largest term, atol 1e-13; sampler laws add "
    "4 ulp(1) x intensity x sum|x_k| (break points are located to 1 ulp of the uniform)",
    "sampler law: no piece of the map u -> state lies strictly between two agreeing probes of the initial dyadic sweep "
    "(n0 >= 16 x number of states), as in C02; the inversion sampler's hidden numpy.random.choice is scripted (first element)",
    "infinite-variation copula chains: pathos pool of MCLevyCopulaSimulation replaced by a zero stand-in (drift cases) or an "
    "in-process synchronous pool running the real vol_adjustment_ij (diffusion cases); the reference central-box covariance "
    "shares the copula function and the margins' integrate with the library (checked in C09/C11/C12)",
]
CHUNK = 4

INF = math.inf
EPS = float(np.finfo(float).eps)
ATOL = 1e-13
REPS = [None, "ZERO", "CENTER", "ONEONE", "TILDE"]
METHODS_QUICK = ["INVERSION", "BINARYSEARCHTREEADAPTED1D"]
METHODS_THOROUGH = ["INVERSION", "BINARYSEARCHTREEADAPTED1D", "ALIAS", "BINARYSEARCHTREE", "HUFFMANNTREE"]


# ----------------------------------------------------------------------------------------------------------------------
# alphabet
# ----------------------------------------------------------------------------------------------------------------------

def _spec_fv(spec):
    """finite variation of the jumps, from the spec alone (used to keep ZERO out of the lattice where it does not exist);
    re-checked against the library's own flag in check_case"""
    return not (spec["family"] == "cgmy" and spec["params"]["y"] >= 1.0)


def _warm():
    """import the library once in the parent so that the forked workers do not each pay the import"""
    import rpylib.distribution.samplingfactory  # noqa: F401
    import rpylib.grid.spatial  # noqa: F401
    import rpylib.process.markovchain.markovchain  # noqa: F401
    import rpylib.process.markovchain.markovchainlevycopula  # noqa: F401
    import rpylib.product.payoff  # noqa: F401
    import rpylib.product.product  # noqa: F401


COPULA_GRIDS = [
    {"kind": "fixed", "h": 0.1, "n": 3},
    {"kind": "fixed", "h": 0.1, "n": 5},
    {"kind": "geometric-bounds", "h": 0.1, "bounds": [-0.7, 0.4], "n_side": 3},
    {"kind": "uniform", "h": 0.2, "p": 0.99999},
    {"kind": "credit", "h": 0.1, "a_frac": 0.5, "symmetric": True},
    {"kind": "credit", "h": 0.1, "a_frac": [0.4, 0.6], "symmetric": False},
]


def cases(tier):
    _warm()
    thorough = tier == "thorough"
    out = []
    methods = METHODS_THOROUGH if thorough else METHODS_QUICK
    ks = (0, 1, 2)
    specs = A.model_specs(tier, families=("hem", "merton", "vg", "cgmy"))
    # sigma > 0 together with infinite-variation jumps (and, for contrast, with finite-variation infinite-activity jumps):
    # a legal triplet that no built-in model has; both tiers
    for y in (1.0, 1.2, 1.5, 0.5):
        for exp in (False, True):
            ms = {"family": "cgmy", "exp": exp, "params": {"c": 1.0, "g": 15.0, "m": 20.0, "y": y}, "triplet_sigma": 0.2}
            specs.append(dict(ms, r=0.02, d=0.0, spot=100.0) if exp else ms)
    grids = A.grid_specs(tier, dimension=1)
    # simplest first: as constructed on un-refined grids
    for k in ks:
        for rep in REPS:
            for ms in specs:
                if rep == "ZERO" and not _spec_fv(ms):
                    continue
                for g in grids:
                    if k == 2 and not thorough and g["kind"] in ("uniform", "probability"):
                        continue  # quick: the second refinement only on the small grids
                    out.append({"sub": "chain1d", "model": ms, "rep": rep, "grid": dict(g, refine=k), "methods": methods})
    # copula chains, d = 2 (both orders of a finite- and an infinite-variation margin) and d = 3 (drift only)
    pairs = [("hem", "vg"), ("cgmy05", "cgmy12"), ("cgmy12", "vg"), ("cgmy12", "hem")]
    cops = [{"kind": "clayton", "theta": 0.7, "eta": 0.3}, {"kind": "independent"}]
    if thorough:
        pairs += [("hem", "hem2"), ("vg", "cgmy12"), ("merton", "cgmy05"), ("cgmy12", "cgmy12"), ("cgmy12", "hem2")]
        cops = A.copula_specs(tier)
    for k in (0, 1):
        for rep in REPS:
            for exp in (False, True):
                for pair in pairs:
                    for cop in cops:
                        for g in COPULA_GRIDS:
                            if k == 1 and not thorough and g["kind"] not in ("fixed", "credit"):
                                continue
                            out.append({"sub": "copula", "model": {"margins": list(pair), "copula": cop, "exp": exp}, "rep": rep,
                                        "grid": dict(g, refine=k), "diffusion": False})
    triples = [("hem", "cgmy12", "vg"), ("cgmy12", "hem", "vg")] + ([("hem", "vg", "cgmy12"), ("hem", "vg", "cgmy05")] if thorough else [])
    grids3 = [{"kind": "fixed", "h": 0.1, "n": 3}, {"kind": "geometric-bounds", "h": 0.1, "bounds": [-0.7, 0.4], "n_side": 3},
              {"kind": "credit", "h": 0.1, "a_frac": [0.4, 0.5, 0.6], "symmetric": False}]
    for k in ((0, 1) if thorough else (0,)):
        for rep in REPS:
            for exp in (False, True):
                for tr in triples:
                    for g in grids3:
                        out.append({"sub": "copula", "model": {"margins": list(tr), "copula": cops[0], "exp": exp}, "rep": rep,
                                    "grid": dict(g, refine=k), "diffusion": False})
    # the real small-jump covariance of infinite-variation copula chains (slow: nquad of the library + reference)
    diff = [(("cgmy05", "cgmy12"), {"kind": "clayton", "theta": 0.7, "eta": 0.3}, {"kind": "fixed", "h": 0.1, "n": 3}, False)]
    if thorough:
        diff += [
            (("vg", "cgmy12"), {"kind": "clayton", "theta": 3.0, "eta": 1.0}, {"kind": "fixed", "h": 0.1, "n": 5}, True),
            (("cgmy12", "cgmy12"), {"kind": "clayton", "theta": 0.7, "eta": 0.3}, {"kind": "fixed", "h": 0.1, "n": 3}, False),
            (("cgmy12", "hem2"), {"kind": "clayton", "theta": 3.0, "eta": 0.0}, {"kind": "fixed", "h": 0.2, "n": 3}, False),
        ]
    # listed first only so that these few slow cases (5 - 30 s each) overlap with the rest of the sweep
    slow = [{"sub": "copula", "model": {"margins": list(pair), "copula": cop, "exp": exp}, "rep": None,
             "grid": dict(g, refine=0), "diffusion": True} for pair, cop, g, exp in diff]
    return slow + out


# ----------------------------------------------------------------------------------------------------------------------
# labels
# ----------------------------------------------------------------------------------------------------------------------

def _mclass(spec):
    fam = spec["family"]
    p = spec["params"]
    if fam == "cgmy":
        s = f"cgmy:y={p['y']:g}"
        if p["g"] == p["m"]:
            s += ":g=m"
    else:
        s = fam + (":alt" if p else ":default")
    if spec.get("triplet_sigma") is not None:
        s += f":sigma={spec['triplet_sigma']:g}"
    return ("exp-" if spec.get("exp") else "") + s


def _make_model(spec):
    """mc.alphabets.make_model, plus an optional Brownian coefficient written into the triplet after construction
    (`model.levy_triplet.sigma = s`: the only way to get sigma > 0 together with infinite-variation jumps - no built-in
    model has both).  For the exponential classes the triplet is shared with the inner Levy model, and omega (hence
    model.drift()) was fixed at construction without the -sigma^2/2 of the new coefficient: the discounted spot is then no
    martingale, which this property does not speak about - the mean oracle takes model.drift() as it is, and sigma does not
    enter the mean of the simulated (log) process; the variance clauses read sigma from the triplet, as the chain does."""
    model = A.make_model({k: v for k, v in spec.items() if k != "triplet_sigma"})
    if spec.get("triplet_sigma") is not None:
        model.levy_triplet.sigma = float(spec["triplet_sigma"])
    return model


def _label(spec):
    s = A.model_label(spec)
    return s + (f"[triplet sigma={spec['triplet_sigma']:g}]" if spec.get("triplet_sigma") is not None else "")


def _cop_label(c):
    if c["kind"] == "clayton":
        return f"clayton({c['theta']:g},{c['eta']:g})"
    return c["kind"]


def _gclass(g):
    return g["kind"] + (":refined" if g.get("refine") else "")


# ----------------------------------------------------------------------------------------------------------------------
# quadrature of the model's own density (the x = +-t^8 substitution of checks/c10_exponent.py near the origin)
# ----------------------------------------------------------------------------------------------------------------------

_K = 8


def _quad(fn, a_, b_):
    """int_a^b fn(x) dx, fn possibly with an algebraic singularity |x|^(-p), p < 1, at 0 when the piece touches the origin
    (pieces never straddle it): there x = +-t^8 makes the integrand bounded and QUADPACK's error estimate trustworthy.
    Returns (value, error estimate); mpmath tanh-sinh when the estimate is poor."""
    if a_ == 0.0 and math.isfinite(b_):
        top = b_ ** (1.0 / _K)

        def g(t):
            x = t ** _K
            return fn(x) * _K * t ** (_K - 1) if x > 1e-100 else 0.0

        lo_, hi_ = 0.0, top
    elif b_ == 0.0 and math.isfinite(a_):
        top = (-a_) ** (1.0 / _K)

        def g(t):
            x = t ** _K
            return fn(-x) * _K * t ** (_K - 1) if x > 1e-100 else 0.0

        lo_, hi_ = 0.0, top
    else:
        g, lo_, hi_ = fn, a_, b_
    v, e = quad(g, lo_, hi_, epsabs=0.0, epsrel=1e-12, limit=400)
    if not math.isfinite(v) or e > 1e-9 * abs(v) + 1e-14:
        v2, e2 = O._mp_quad(g, lo_, hi_)
        if e2 < e or not math.isfinite(v):
            v, e = v2, e2
    if not (math.isfinite(v) and math.isfinite(e)):
        return v, INF
    return v, e


def _int(nu, a_, b_, n, extra=()):
    """int_a^b x^n nu(dx) by quadrature of the density nu.__call__: (value, error estimate); 0 for an empty interval."""
    a_, b_ = float(a_), float(b_)
    if not a_ < b_:
        return 0.0, 0.0

    def f(x):
        return (x ** n) * float(nu(x)) if n else float(nu(x))

    tot = err = 0.0
    with warnings.catch_warnings():
        warnings.simplefilter("ignore")
        for lo_, hi_ in O._pieces(a_, b_, extra):
            v, e = _quad(f, lo_, hi_)
            tot += v
            err += e
    if not (math.isfinite(tot) and math.isfinite(err)):
        return tot, INF
    return tot, err


_AB = {"ZERO": (0.0, 0.0), "CENTER": (1.0, 1.0), "ONEONE": (1.0, 0.0)}


def _ab(rep, fv):
    """c_R(x) = alpha 1{|x|<1} + beta 1{|x|>=1} (same table as mc.oracle.cutoff)"""
    if rep == "TILDE":
        return (0.0, 0.0) if fv else (1.0, 0.0)
    return _AB[rep]


def _x_in_out(nu, lo, hi, need_in):
    """(int over [lo,hi] ^ (-1,1) of x nu, its error, int over [lo,hi] \\ (-1,1) of x nu, its error)"""
    vin = ein = 0.0
    if need_in:
        vin, ein = _int(nu, max(lo, -1.0), min(hi, 1.0), 1)
    v1, e1 = _int(nu, lo, min(hi, -1.0), 1)
    v2, e2 = _int(nu, max(lo, 1.0), hi, 1)
    return vin, ein, v1 + v2, e1 + e2


def _real(x):
    """a library scalar as a Python float; nan when it carries a non-negligible imaginary part or is not a scalar"""
    try:
        arr = np.asarray(x).reshape(-1)
        if arr.size != 1:
            return math.nan
        z = complex(arr[0])
    except Exception:
        return math.nan
    if abs(z.imag) > 1e-14 * max(1.0, abs(z.real)):
        return math.nan
    return z.real


def _triplet(model):
    tr = model.levy_triplet
    rep = getattr(tr.representation, "name", str(tr.representation))
    return _real(tr.a), _real(tr.sigma), tr.nu, rep, bool(tr.nu.jump_of_finite_variation())


class _Obj:
    pass


def _product():
    """a product with deterministic payoff dates (the chain's initialisation only reads that flag)"""
    try:
        from rpylib.product.payoff import PayoffType, Vanilla
        from rpylib.product.product import Product
        from rpylib.product.underlying import Spot

        return Product(payoff_underlying=Spot(), payoff=Vanilla(strike=100.0, payoff_type=PayoffType.CALL), maturity=1.0)
    except Exception:
        from rpylib.product.payoff import PayoffDates

        prod = _Obj()
        prod.payoff = _Obj()
        prod.payoff.payoff_dates_type = PayoffDates.DETERMINISTIC
        prod.maturity = 1.0
        return prod


def _well_formed(axis, origin):
    return (len(axis) >= 3 and 0 < origin < len(axis) - 1 and all(math.isfinite(x) for x in axis)
            and all(x < y for x, y in zip(axis, axis[1:])) and axis[origin] == 0.0)


def _set_rep(sh, triplet, rep, key_tail, label):
    """set_representation(rep) on the caller's triplet and check the declared drift against the conversion integral.
    Returns False when the combination is outside the alphabet or the conversion failed (already reported)."""
    from rpylib.model.levymodel.levymodel import LevyRepresentation

    a0, nu, r0 = _real(triplet.a), triplet.nu, triplet.representation.name
    fv = bool(nu.jump_of_finite_variation())
    if rep is None:
        return True
    if rep == "ZERO" and not fv:
        sh.count("outside-alphabet:zero-needs-finite-variation")
        return False
    try:
        with warnings.catch_warnings():
            warnings.simplefilter("ignore")
            triplet.set_representation(LevyRepresentation[rep])
    except Exception as e:  # noqa
        sh.violation(f"C04:conversion:LevyTriplet.set_representation:raises-{type(e).__name__}:{key_tail}:{r0}-to-{rep}",
                     f"{label}: set_representation({rep}) from {r0}: {e!r}", None)
        return False
    a1, r1 = _real(triplet.a), triplet.representation.name
    if r1 != rep:
        sh.violation(f"C04:conversion:LevyTriplet.set_representation:representation-not-updated:{key_tail}:{r0}-to-{rep}",
                     f"{label}: representation is {r1} after set_representation({rep})", None)
        return False
    (al0, be0), (al1, be1) = _ab(r0, fv), _ab(rep, fv)
    vin, ein, vout, eout = _x_in_out(nu, -INF, INF, need_in=(al0 != al1))
    want = a0 + (al1 - al0) * vin + (be1 - be0) * vout
    err = abs(al1 - al0) * ein + abs(be1 - be0) * eout
    scale = max(abs(a0), abs(a1), abs(vin), abs(vout))
    rtol = 1e-9 if fv else 1e-8
    if not err <= ATOL + rtol * scale:
        sh.count("oracle_inconclusive")
        return True
    sh.count("evaluations")
    if not core.close(a1, want, rtol=rtol, atol=ATOL, scale=scale):
        sh.violation(f"C04:conversion:LevyTriplet.set_representation:drift-differs-from-cut-off-integral:{key_tail}:{r0}-to-{rep}",
                     f"{label}: drift {a0!r} in {r0} became {a1!r} in {rep}; a0 + int x (c_{rep} - c_{r0}) nu = {want!r}",
                     {"a0": a0, "a1": a1, "want": want, "int_inner": vin, "int_outer": vout})
    return True


# ----------------------------------------------------------------------------------------------------------------------
# one-dimensional chains
# ----------------------------------------------------------------------------------------------------------------------

def check_case(sh, case):
    with warnings.catch_warnings():
        warnings.simplefilter("ignore", RuntimeWarning)
        {"chain1d": _chain1d, "copula": _copula}[case["sub"]](sh, case)


def _sampler_rates(proc, grid, method, nstates):
    """{axis index: rate} of the sampler actually built, law recovered exactly through its single-uniform entry point."""
    import numpy.random as npr

    from checks import c02_samplers as C2

    orig = npr.choice
    npr.choice = lambda a, *args, **kw: list(a)[0]
    try:
        f, hi = C2.single_entry(proc, {"method": method})
        n0 = 1 << max(10, int(math.ceil(math.log2(16 * max(nstates, 1)))))
        extra = C2.alias_edges(len(grid.axes[0]), hi) if method == "ALIAS" else ()
        pieces, evals, hi = C2.recover_partition(f, n0, 0.0, hi, extra=extra)
    finally:
        npr.choice = orig
    lam = float(proc.intensity_of_jumps)
    o = int(grid.origin_coordinate.value)
    return {o + inc[0]: lam * length / hi for inc, length in C2.lengths(pieces, hi).items()}, len(pieces), evals


def _chain1d(sh, case):
    from rpylib.distribution.sampling import SamplingMethod
    from rpylib.process.markovchain.markovchain import MarkovChainProcess

    spec, gspec, rep_req = case["model"], case["grid"], case["rep"]
    mc, gc = _mclass(spec), _gclass(gspec)
    label = f"{_label(spec)} declared {rep_req or 'as constructed'} on {gspec}"
    model = _make_model(spec)
    if bool(model.levy_triplet.nu.jump_of_finite_variation()) != _spec_fv(spec):
        sh.count("outside-alphabet:finite-variation-flag-differs-from-spec")
        return
    if not _set_rep(sh, model.levy_triplet, rep_req, mc, label):
        return
    a, sigma, nu, rep, fv = _triplet(model)
    drift = _real(model.drift())
    sh.cls("declared:" + rep + (":converted" if rep_req else ":as-constructed"))
    sh.cls("finite-variation" if fv else "infinite-variation")
    sh.cls("process-representation:" + ("log" if spec.get("exp") else "identity"))
    sh.cls("model:" + mc)
    sh.cls("grid:" + gc)
    try:
        grid = A.make_grid(gspec, model)
    except A.OutsideAlphabet:
        sh.count("outside-alphabet:grid")
        return
    axis = [float(x) for x in grid.axes[0]]
    o = int(getattr(grid.origin_coordinate, "value", grid.origin_coordinate))
    if not _well_formed(axis, o):
        sh.count("outside-alphabet:grid-not-well-formed")
        return
    lo, hi = axis[0], axis[-1]
    rtol = 1e-9 if fv else 1e-8
    tail = f"{mc}:{rep}:{gc}"
    product = _product()

    procs = {}
    for meth in case["methods"]:
        try:
            p = MarkovChainProcess(model=model, method=SamplingMethod[meth], grid=grid)
            p.initialisation(product)
        except Exception as e:  # noqa
            sh.violation(f"C04:mean:MarkovChainProcess:raises-{type(e).__name__}:{tail}",
                         f"{label}, method {meth}: constructor / initialisation: {e!r}", None)
            return
        procs[meth] = p
    a_after, _, _, rep_after, _ = _triplet(model)
    if (a_after, rep_after) != (a, rep):
        sh.violation(f"C04:mean:MarkovChainProcess:changes-the-callers-model:{mc}:{rep}",
                     f"{label}: triplet was ({a}, {rep}), is ({a_after}, {rep_after}) after building the chain", None)
    first = procs[case["methods"][0]]
    pd = _real(first.process_drift())
    sig_eq = _real(first.equivalent_diffusion_coefficient)
    for meth, p in procs.items():
        if _real(p.process_drift()) != pd and not (math.isnan(pd) and math.isnan(_real(p.process_drift()))):
            sh.violation(f"C04:mean:MarkovChainProcess.process_drift:depends-on-the-sampling-method:{tail}",
                         f"{label}: {pd!r} with {case['methods'][0]}, {_real(p.process_drift())!r} with {meth}", None)

    # ---- reference cells and the two notions of rate
    cells, central = O.ref_cells(axis, o, middle=grid.middle)
    cells = [None if c is None else (float(c[0]), float(c[1])) for c in cells]
    central = (float(central[0]), float(central[1]))
    rates_m = {}
    for k, cell in enumerate(cells):
        if cell is not None:
            rates_m[k] = max(_real(first.model.mass(cell[0], cell[1])), 0.0)
    sum_abs = sum(abs(axis[k]) * r for k, r in rates_m.items())
    lam = _real(first.intensity_of_jumps)

    # ---- mean
    sampler_rates = {}
    alpha, beta = _ab(rep, fv)
    vin, ein, vout, eout = _x_in_out(nu, lo, hi, need_in=(alpha != 1.0))
    jump_mean = (1.0 - alpha) * vin + (1.0 - beta) * vout
    err = (1.0 - alpha) * ein + (1.0 - beta) * eout
    want = drift + a + jump_mean
    scale = max(abs(pd) if math.isfinite(pd) else 0.0, sum_abs, abs(a), abs(drift), abs(vin), abs(vout), 1e-300)
    conclusive = err <= ATOL + rtol * scale
    if not conclusive:
        sh.count("oracle_inconclusive")
    else:
        got = pd + sum(axis[k] * r for k, r in rates_m.items())
        sh.count("evaluations")
        sh.nontriv()
        if not core.close(got, want, rtol=rtol, atol=ATOL, scale=scale):
            sh.violation(
                f"C04:mean:MarkovChainProcess.process_drift:mean-differs-from-truncated-process:{tail}",
                f"{label}: process_drift {pd!r} + sum x_k mass(cell_k) = {got!r}; model.drift() + a + int_T x (1 - c_{rep}) nu = "
                f"{drift!r} + {a!r} + {jump_mean!r} = {want!r} (bias {got - want:.6g} per unit time, {len(axis)} points)",
                {"process_drift": pd, "chain_mean": got, "expected": want, "a": a, "model_drift": drift, "jump_mean": jump_mean,
                 "truncation": [lo, hi], "declared": rep, "quad_err": err})
        for meth, p in procs.items():
            try:
                rates_s, npieces, evals = _sampler_rates(p, grid, meth, len(rates_m))
            except Exception as e:  # noqa
                sh.violation(f"C04:sampler-mean:{meth.lower()}:single-uniform-entry-raises-{type(e).__name__}:{mc}:{gc}",
                             f"{label}: {e!r}", None)
                continue
            sh.count("evaluations")
            sh.count("sampler_probes", evals)
            # the origin carries x = 0 (no contribution whatever its length); a state off the axis on more than a few ulps of
            # [0,1) has no value to weight (C02 judges the law itself, with the same allowance)
            rates_s.pop(o, None)
            bad = [k for k in rates_s if not 0 <= k < len(axis)]
            if any(rates_s[k] > 4 * EPS * lam for k in bad):
                sh.violation(f"C04:sampler-mean:{meth.lower()}:state-outside-grid:{mc}:{gc}",
                             f"{label}: sampler returns axis indices {bad[:4]} of {len(axis)}", None)
                continue
            for k in bad:
                del rates_s[k]
            got_s = pd + sum(axis[k] * r for k, r in rates_s.items())
            atol_s = ATOL + 4 * EPS * lam * sum(abs(axis[k]) for k in rates_s)
            if not core.close(got_s, want, rtol=rtol, atol=atol_s, scale=scale):
                sh.violation(
                    f"C04:sampler-mean:{meth.lower()}:mean-differs-from-truncated-process:{tail}",
                    f"{label}: process_drift {pd!r} + intensity x sum x_k P_sampler(k) = {got_s!r}, expected {want!r} "
                    f"(with the cell masses: {got!r}; {npieces} pieces)",
                    {"chain_mean_sampler": got_s, "chain_mean_masses": got, "expected": want})
            sampler_rates[meth] = rates_s

    # ---- variance added for the small jumps
    q_c, e_c = _int(nu, max(central[0], -1.0), min(central[1], 1.0), 2)
    added = sig_eq ** 2 - sigma ** 2 if math.isfinite(sig_eq) else math.nan
    vtail = f"{mc}:{'finite' if fv else 'infinite'}-variation:{gc}"
    if fv:
        sh.count("evaluations")
        if not core.close(sig_eq ** 2, sigma ** 2, rtol=1e-12, atol=1e-300):
            sh.violation(f"C04:variance:equivalent_diffusion_coefficient:variance-added-for-a-finite-variation-model:{vtail}",
                         f"{label}: equivalent_diffusion_coefficient^2 = {sig_eq ** 2!r}, sigma^2 = {sigma ** 2!r} "
                         f"(int_central x^2 nu = {q_c!r})", None)
    elif e_c <= 1e-8 * abs(q_c) + 1e-300:
        sh.count("evaluations")
        if not core.close(added, q_c, rtol=1e-8, atol=1e-12 * sigma ** 2, scale=max(abs(q_c), sigma ** 2 * 1e-4)):
            sh.violation(
                f"C04:variance:equivalent_diffusion_coefficient:not-the-variance-of-the-central-cell-jumps:{vtail}",
                f"{label}: equivalent_diffusion_coefficient^2 - sigma^2 = {added!r}, int over the central cell {central} of x^2 nu "
                f"= {q_c!r}", {"sigma_eq": sig_eq, "sigma": sigma, "central": central, "expected_added": q_c})
    else:
        sh.count("oracle_inconclusive")

    # ---- variance of the approximation against the per-cell oscillation bound
    q_out = e_out = bound = e_b = 0.0
    for (lo_, hi_) in ((lo, central[0]), (central[1], hi)):
        v, e = _int(nu, lo_, hi_, 2)
        q_out += v
        e_out += e
    for k, cell in enumerate(cells):
        if cell is None:
            continue
        m, e = _int(nu, cell[0], cell[1], 0)
        osc = abs(cell[1] ** 2 - cell[0] ** 2)
        bound += osc * m
        e_b += osc * e
    if math.isfinite(e_out + e_b + e_c) and e_out + e_b + e_c <= 1e-6 * (bound + q_c) + 1e-300:
        variants = [("cell-masses", rates_m)] + list(sampler_rates.items())
        for name, rates in variants:
            s2 = sum(axis[k] ** 2 * r for k, r in rates.items())
            slack = e_out + e_b + e_c + 64 * EPS * (s2 + q_out + sigma ** 2 + q_c) + (0.0 if name == "cell-masses" else
                                                                                      4 * EPS * lam * sum(axis[k] ** 2 for k in rates))
            sh.count("evaluations")
            if abs(s2 - q_out) > bound + slack:
                sh.violation(
                    f"C04:variance-bound:{name.lower()}:jump-variance-outside-the-oscillation-bound:{vtail}",
                    f"{label}: sum x_k^2 rate_k = {s2!r}, int_(T minus central) x^2 nu = {q_out!r}, bound sum osc_k(x^2) mass_k = "
                    f"{bound!r}", {"s2": s2, "q_out": q_out, "bound": bound})
            total = sig_eq ** 2 + s2 - (sigma ** 2 + q_out + q_c)
            allowed = bound + (q_c if fv else 0.0)
            if not abs(total) <= allowed + slack:
                sh.violation(
                    f"C04:variance-bound:{name.lower()}:total-variance-outside-the-oscillation-bound:{vtail}",
                    f"{label}: sigma_eq^2 + sum x_k^2 rate_k - (sigma^2 + int_T x^2 nu) = {total!r}, allowed {allowed!r}",
                    {"sigma_eq": sig_eq, "sigma": sigma, "s2": s2, "q_out": q_out, "q_central": q_c, "bound": bound})
    else:
        sh.count("oracle_inconclusive")

    sh.outcome((round(pd, 9) if math.isfinite(pd) else repr(pd), round(want, 9), round(sig_eq, 9) if math.isfinite(sig_eq) else "nan"))
    if gspec["kind"] == "fixed" and gspec.get("n") == 5:
        sh.sample({"sub": "chain1d", "model": _label(spec), "declared": rep, "requested": rep_req, "grid": gspec,
                   "points": len(axis), "process_drift": pd, "sum_x_rate": sum(axis[k] * r for k, r in rates_m.items()),
                   "expected_mean": want, "a": a, "model_drift": drift, "int_T_x(1-c)nu": jump_mean,
                   "sigma_eq^2-sigma^2": added, "int_central_x^2_nu": q_c})


# ----------------------------------------------------------------------------------------------------------------------
# copula chains
# ----------------------------------------------------------------------------------------------------------------------

class _Result:
    def __init__(self, v):
        self.v = v

    def get(self, timeout=None):
        return self.v


class _StandInPool:
    """stand-in for pathos' Pool inside MCLevyCopulaSimulation: `real` runs the function in-process, else returns 0.0"""
    real = False

    def __init__(self, *a, **k):
        pass

    def __enter__(self):
        return self

    def __exit__(self, *a):
        return False

    def apply_async(self, func, args=(), kwds=None):
        return _Result(func(*args, **(kwds or {})) if self.real else 0.0)


class _SyncPool(_StandInPool):
    real = True


@contextlib.contextmanager
def _pool(real):
    import rpylib.process.markovchain.markovchainlevycopula as M

    old = getattr(M, "mp", None)
    ns = _Obj()
    ns.Pool = _SyncPool if real else _StandInPool
    M.mp = ns
    try:
        yield
    finally:
        M.mp = old


def _central_covariance(copula, nus, h2, i, j):
    """C_ij = int over the central box [-h2, h2]^2 of x_i x_j nu(dx), from the definition: for x > 0, x = int_0^x ds, hence
    C_ii = sum over the two signs of int_0^{h2} 2 s nu({sign x_i in (s, h2]} x [-h2, h2]) ds and
    C_ij = sum over the four sign pairs of sign_i sign_j int int nu({sign_i x_i in (s, h2]} x {sign_j x_j in (t, h2]}) ds dt,
    with the rectangle masses of mc.oracle.ref_rectangle_mass (their closure never contains the origin). (value, error)"""
    tot = err = 0.0
    if i == j:
        o = 1 - i
        for sgn in (1.0, -1.0):
            def f(s, sgn=sgn):
                a, b = [0.0, 0.0], [0.0, 0.0]
                a[i], b[i] = (s, h2) if sgn > 0 else (-h2, -s)
                a[o], b[o] = -h2, h2
                return 2.0 * s * O.ref_rectangle_mass(copula, nus, a, b)

            top = h2 ** 0.25  # s = t^4 flattens the |s|^(1-y) behaviour at the origin
            v, e = quad(lambda t: f(t ** 4) * 4 * t ** 3 if t > 0 else 0.0, 0.0, top, epsabs=0.0, epsrel=1e-8, limit=200)
            tot += v
            err += e
        return tot, err
    for si in (1.0, -1.0):
        for sj in (1.0, -1.0):
            def f(t, s, si=si, sj=sj):
                a, b = [0.0, 0.0], [0.0, 0.0]
                a[i], b[i] = (s, h2) if si > 0 else (-h2, -s)
                a[j], b[j] = (t, h2) if sj > 0 else (-h2, -t)
                return O.ref_rectangle_mass(copula, nus, a, b)

            top = h2 ** 0.25
            v, e = dblquad(lambda v_, u_: (f(v_ ** 4, u_ ** 4) * 16 * (u_ * v_) ** 3 if u_ > 0 and v_ > 0 else 0.0),
                           0.0, top, 0.0, top, epsabs=1e-9, epsrel=1e-6)
            tot += si * sj * v
            err += e
    return tot, err


def _copula(sh, case):
    from rpylib.distribution.sampling import SamplingMethod
    from rpylib.process.markovchain.markovchainlevycopula import MarkovChainLevyCopula

    spec, gspec, rep_req = case["model"], case["grid"], case["rep"]
    names = spec["margins"]
    exp = bool(spec.get("exp"))
    label = (f"{'exp-' if exp else ''}{'+'.join(names)} {_cop_label(spec['copula'])} declared {rep_req or 'as constructed'} "
             f"on {gspec}")
    gc = _gclass(gspec)
    model = A.make_copula_model(spec)
    margins = list(model.models)
    dim = len(margins)
    sh.cls(f"copula-dimension:{dim}")
    applied = []
    for k, mk in enumerate(margins):
        fvk = bool(mk.levy_triplet.nu.jump_of_finite_variation())
        if rep_req == "ZERO" and not fvk:
            applied.append(None)  # not admissible for that margin: left as constructed
            continue
        mspec = dict(A.MARGINS[names[k]], exp=exp)
        if not _set_rep(sh, mk.levy_triplet, rep_req, _mclass(mspec), label + f" margin {k}"):
            return
        applied.append(rep_req)
    fv_all = bool(model.jump_of_finite_variation())
    sh.cls("copula:" + ("finite" if fv_all else "infinite") + "-variation")
    sh.cls("copula-grid:" + gc)
    sh.cls("copula-process-representation:" + ("log" if exp else "identity"))
    try:
        grid = A.make_grid(gspec, model, dim)
    except A.OutsideAlphabet:
        sh.count("outside-alphabet:grid")
        return
    axes = [[float(x) for x in ax] for ax in grid.axes]
    origin = [int(c) for c in grid.origin_coordinate]
    if not all(_well_formed(ax, o) for ax, o in zip(axes, origin)):
        sh.count("outside-alphabet:grid-not-well-formed")
        return
    before = [(_real(m.levy_triplet.a), m.levy_triplet.representation.name) for m in margins]
    real_pool = bool(case.get("diffusion"))
    try:
        with _pool(real_pool):
            proc = MarkovChainLevyCopula(levy_copula_model=model, grid=grid, method=SamplingMethod.INVERSION)
            proc.initialisation(_product())
    except Exception as e:  # noqa
        sh.violation(f"C04:copula-mean:MarkovChainLevyCopula:raises-{type(e).__name__}:{'+'.join(names)}:{gc}",
                     f"{label}: constructor / initialisation: {e!r}", None)
        return
    after = [(_real(m.levy_triplet.a), m.levy_triplet.representation.name) for m in margins]
    if after != before:
        sh.violation(f"C04:copula-mean:MarkovChainLevyCopula:changes-the-callers-model:{'+'.join(names)}",
                     f"{label}: margins were {before}, are {after}", None)
    pd = np.asarray(proc.process_drift(), dtype=complex).reshape(-1)
    if pd.size != len(margins):
        sh.violation(f"C04:copula-mean:MarkovChainLevyCopula.process_drift:wrong-shape:{'+'.join(names)}",
                     f"{label}: process_drift() has {pd.size} entries for {len(margins)} margins", None)
        return
    obs = []
    for k, mk in enumerate(margins):
        a, sigma, nu, rep, fv = _triplet(mk)
        drift = _real(mk.drift())
        pdk = _real(pd[k])
        axis, o = axes[k], origin[k]
        lo, hi = axis[0], axis[-1]
        cells, central = O.ref_cells(axis, o)
        s1 = s_abs = e1 = 0.0
        for x, cell in zip(axis, cells):
            if cell is None:
                continue
            m, e = _int(nu, cell[0], cell[1], 0)
            s1 += x * m
            s_abs += abs(x) * m
            e1 += abs(x) * e
        alpha, beta = _ab(rep, fv)
        vin, ein, vout, eout = _x_in_out(nu, lo, hi, need_in=(alpha != 1.0))
        jump_mean = (1.0 - alpha) * vin + (1.0 - beta) * vout
        err = e1 + (1.0 - alpha) * ein + (1.0 - beta) * eout
        want = drift + a + jump_mean
        got = pdk + s1
        scale = max(abs(pdk) if math.isfinite(pdk) else 0.0, s_abs, abs(a), abs(drift), abs(vin), abs(vout), 1e-300)
        rtol = 1e-9 if fv else 1e-8
        obs.append((round(pdk, 9) if math.isfinite(pdk) else repr(pdk), round(want, 9)))
        mix = ("finite" if fv else "infinite") + "-variation-margin-in-" + ("finite" if fv_all else "infinite") + "-variation-copula"
        mix += ":axis-equals-axis-0" if axes[k] == axes[0] else ":axis-differs-from-axis-0"
        sh.cls("margin:" + mix)
        sh.cls("margin-declared:" + rep)
        if not err <= ATOL + rtol * scale:
            sh.count("oracle_inconclusive")
            continue
        sh.count("evaluations")
        sh.nontriv()
        if not core.close(got, want, rtol=rtol, atol=ATOL, scale=scale):
            sh.violation(
                f"C04:copula-mean:MarkovChainLevyCopula.process_drift:margin-mean-differs-from-truncated-margin:{mix}:"
                f"{_mclass(dict(A.MARGINS[names[k]], exp=exp))}:{rep}",
                f"{label}: margin {k} ({names[k]}, {rep}): _process_drift[{k}] {pdk!r} + sum x_i nu_k(cell_i) = {got!r}; "
                f"margin.drift() + a + int_T x (1 - c_{rep}) nu_k = {want!r} (bias {got - want:.6g} per unit time)",
                {"margin": k, "process_drift": pdk, "chain_mean": got, "expected": want, "a": a, "model_drift": drift,
                 "jump_mean": jump_mean, "truncation": [lo, hi], "quad_err": err})
    # ---- measured, not judged: the jump part weighted by the joint rates (leak through the other coordinate's truncation)
    leak = None
    if dim == 2 and len(axes[0]) * len(axes[1]) <= 400:
        from checks import c02_samplers as C2

        law = C2.target_law(proc, grid, 2)
        lam = float(proc.intensity_of_jumps)
        leak = []
        for k in range(2):
            joint = sum(axes[k][origin[k] + inc[k]] * lam * p for inc, p in law.items())
            cells, _ = O.ref_cells(axes[k], origin[k])
            marg = sum(x * _int(margins[k].levy_triplet.nu, c[0], c[1], 0)[0] for x, c in zip(axes[k], cells) if c is not None)
            leak.append(marg - joint)
        sh.count("copula_leak_measured")

    # ---- diffusion matrix
    dm = getattr(getattr(proc, "_path_simulation", None), "diffusion_matrix", None)
    sig2 = np.diag([_real(m.levy_triplet.sigma) ** 2 for m in margins])
    pair = "+".join(names)
    if dm is None:
        sh.count("diffusion-matrix-not-observable")
    else:
        dmc = np.asarray(dm, dtype=complex)
        var = (dmc @ dmc.T)
        if np.max(np.abs(var.imag)) > 1e-12 * max(1.0, float(np.max(np.abs(var.real)))):
            sh.violation(f"C04:copula-variance:MCLevyCopulaSimulation.diffusion_matrix:not-real:{pair}", f"{label}: {dm!r}", None)
        var = var.real
        if fv_all:
            sh.count("evaluations")
            if not np.allclose(var, sig2, rtol=1e-12, atol=1e-300 + 1e-14 * float(np.max(sig2))):
                sh.violation(f"C04:copula-variance:MCLevyCopulaSimulation.diffusion_matrix:variance-added-for-a-finite-variation-model:{pair}",
                             f"{label}: D D^T = {var.tolist()}, diag(sigma^2) = {sig2.tolist()}", None)
        elif real_pool and dim == 2:
            h2 = 0.5 * float(grid.h)
            nus = [m.levy_triplet.nu for m in margins]
            cop = model.copula
            h = float(grid.h)
            worst = 0.0
            exp_var = np.array(sig2, dtype=float)
            for i in range(2):
                for j in range(i, 2):
                    c, e = _central_covariance(cop, nus, h2, i, j)
                    exp_var[i, j] += c
                    if i != j:
                        exp_var[j, i] += c
                    tol = (2.2e-3 / h if i == j else 1.1e-3) + e
                    sh.count("evaluations")
                    worst = max(worst, abs(var[i, j] - exp_var[i, j]))
                    if not abs(var[i, j] - exp_var[i, j]) <= tol:
                        sh.violation(
                            f"C04:copula-variance:MCLevyCopulaSimulation.diffusion_matrix:not-sigma2-plus-central-box-covariance:"
                            f"{pair}:{'diagonal' if i == j else 'off-diagonal'}",
                            f"{label}: (D D^T)[{i},{j}] = {var[i, j]!r}; sigma^2 delta_ij + int over the central box of x_{i} x_{j} nu "
                            f"= {exp_var[i, j]!r} (tolerance {tol:.3g}: nquad epsabs 1e-3 propagated); D = {np.asarray(dm).tolist()}",
                            {"variance": var.tolist(), "expected_entry": float(exp_var[i, j]), "sigma2": sig2.tolist()})
            sh.sample({"sub": "copula-diffusion", "case": case, "D": np.asarray(dm).real.tolist(), "D_DT": var.tolist(),
                       "expected": exp_var.tolist(), "max_abs_diff": worst})
            sh.cls("copula-diffusion:real-small-jump-covariance")
    sh.outcome((obs, gc))
    if gspec["kind"] == "fixed" and gspec.get("n") == 5 and not gspec.get("refine"):
        sh.sample({"sub": "copula", "model": spec, "declared": [r for _, r in after], "grid": gspec,
                   "process_drift": [_real(x) for x in pd], "expected_margin_means": [w for _, w in obs],
                   "leak_of_joint_rates_per_margin": leak})
