"""C10 - exponent, triplet, cumulants and simulation drifts describe one same process.

Everything below is a complete enumeration of a stated finite space; the oracle is always the Levy-Khintchine integral
of the model's OWN density (`levy_triplet.nu.__call__`), drift `levy_triplet.a`, `levy_triplet.sigma` and declared
`levy_triplet.representation`, evaluated by quadrature, never one of the library's closed forms.

Model lattice.  quick: the full 1-d lattice of DESIGN section 5 (HEM 2, Merton 2, VG 2, CGMY y in {-0.5,0,0.5,1,1.2,1.5} x
3 (c,g,m)) plus the EXTRA points below (y = -1.5 finite activity, 0.2, 0.8, 1.8; g > m; heavy right tail m = 1.5; one-sided
HEM p = 1; symmetric VG; the ties y = -1, HEM sigma = 0, Merton mu_j = 0), pure diffusions, Black-Scholes; every exponential
model with (r,d) in {(0.02,0),(0.05,0.02)}.
thorough: in addition the full parameter products of `_product_lattice` (54 HEM, 36 Merton, 36 VG, 50 CGMY).

 sub-check   space                                                      oracle
 ----------  ---------------------------------------------------------  -------------------------------------------------
 exponent    Levy models x arguments U                                  levy_exponent(u) = i u a - sigma^2 u^2/2
             U = {+-0.4, +-1.3, +-4} real, {-i, -2i, 0.7-0.5i,           + int (e^{iux} - 1 - i u x c_R(x)) nu(dx);
             -1.1+0.3i} where the exponential moment is finite          characteristic_function(t,u) = exp(t psi(u)), t in {0.5, 2}
                                                                        (a mismatch that is exactly linear in the argument
                                                                        is classified as such in the key)
 exponent    exponential models x U x t in {0.5, 1}                     log_characteristic_function(t,u,log_spot=0) =
                                                                        exp(t (i u (r-d+w) + psi(u))), w = -psi(-i), psi from
                                                                        the triplet by quadrature
 cumulant    Levy models x n in 1..6 (those stated) x t in {1, 0.5}     k1 = a + int x (1 - c_R(x)) nu, k2 = sigma^2 + int x^2 nu,
                                                                        kn = int x^n nu; and k1, k2 against finite differences
                                                                        (Richardson) of the library's own exponent at zero
 repr        models x truncation {none, (-0.5,0.7), (-2,1.5)}           explicit-state search (core.bfs): state = (representation,
             x histories of set_representation(R), R admissible         drift), BFS until no new state (depth bound 6); every
             (ZERO only for finite variation)                           transition R1->R2 changes the drift by
                                                                        int x (c_R2 - c_R1) nu (quadrature); the reachable set has
                                                                        ONE drift per representation (=> path independence and
                                                                        reversibility for histories of any length, within
                                                                        rounding); levy_exponent is unchanged by any history
 mart-cf     exponential models x t in {0.25, 1, 2}                     log_characteristic_function(t,-i) = S0 e^{(r-d)t}, mean(t) =
                                                                        e^{(r-d)t}; omega = -psi(-i) with psi from the triplet
                                                                        ("under the exact jump law")
 mart-direct exponential BS / HEM / Merton;  Levy HEM / Merton / pure   LevyProcess(model).deterministic_path = x0 + pd t with
             diffusion                                                  pd + sigma^2/2 + int (e^x - 1) nu = r - d   (exponential)
                                                                        pd = drift of the triplet in the ZERO representation (Levy)
                                                                        intensity() = int nu
 mart-chain  exponential models x small grids (fixed 5 / 3 / 8 points,  b := process_drift() + mu_h* - mu~*  (mu_h*, mu~* recomputed by
             model-truncated uniform, geometric with bounds; 0 or 1     quadrature over the cells of the axis) satisfies
             refinement)  through the real MarkovChainProcess;          b + sigma^2/2 + int_T (e^x-1-x c~(x)) nu =
             x representation history of the caller's model BEFORE      (r-d) - int_{R\\T} (e^x-1-x c_R(x)) nu   (T = grid truncation,
             the chain is built, CHAIN_PRE_REPS = {ZERO, CENTER,        R = the representation declared when the chain is built);
             ONEONE, TILDE, TILDE>CENTER, ONEONE>TILDE} (direct         then the history initialisation again / for stochastic
             models, first grid)                                        payoff dates / with a maximum step / after a chain for
                                                                        another model was built / again: process_drift() unchanged
 mart-direct (the same models) x CHAIN_PRE_REPS: set_representation     exponential models: same identity (their simulation drift is
             before and after LevyProcess(model) is constructed         written in the representation of construction). Levy
                                                                        models: NOTE only (LEVY_DIRECT_AFTER_REPR_IS_VIOLATION)
 route       every spec reached through a construction route other      every public quantity entering the property (triplet,
             than the direct one (see "Construction routes")            density at 8 points, exponent / characteristic function on
                                                                        U, cumulants 1..6, omega, x0, drift, process_drift,
                                                                        intensity) equals that of the directly constructed model
 path-       directly constructed models x {LevyProcess,                ONE process object asked for deterministic_path on the
 history     MarkovChainProcess (exponential, fixed 5-point grid)}      history g_i, g_j for EVERY ordered pair of the 12 grids of
                                                                        TIME_GRIDS (equal length and end points but other dates,
                                                                        other maturity, late start, 1/2/3 dates, zeros(1)/ones(1),
                                                                        empty); the same grids with a second object of the class
                                                                        (another model) asked just before; the caller's array
                                                                        overwritten in place between two requests: every answer is
                                                                        x0 + process_drift * (its own) times
 coupling-   exponential models (direct; quick: first rate pair) x      the real CouplingMarkovChain driven as the multilevel engine
 levels      fixed 3-point grid x 4 levels (thorough: + uniform x 3)    does (initialisation, path manager, next_level 4 times): after
                                                                        every step every path manager built so far answers
                                                                        x0 + b_l t (fine) and x0 + b_{l-1} t (coarse) on 8 colliding
                                                                        grids, b_l = drift of a chain built afresh on a fresh grid
                                                                        refined l times (the object mart-chain judges)

In addition: repr - besides levy_exponent(1.3), cumulant1 and for exponential models log_characteristic_function(1,-i), omega,
drift() and (BS/HEM/Merton) process_drift() are unchanged by every history; the truncation handed over as list / array / numpy
scalars / 0-d arrays / Python ints gives the drifts of the tuple of floats.  Ties: levy_exponent(0) = 0,
log_characteristic_function(t, 0) = 1, t = 0 in mart-cf.

Argument forms and purity (`_contract`; the property quantifies over "all arguments of the exponent" and over histories: the
caller's own arrays are part of both).  EVERY public function of the anchored files that takes an array-like argument is called,
for every model of the exponent / cumulant / path-history sub-checks (all construction routes), with its values in every form
of `_arg_forms`: float64 / complex128 1-d array, (1,n), (n,1), one element, empty, strided view into a larger buffer of the
caller, read-only array, 0-d array, numpy scalar, and for integral values int64 array / Python int / numpy int; one array of
70 001 (quick: first direct spec of each family) / 262 145 (thorough: every direct spec) points. Entry points:
  levy_exponent(.), levy_exponent(x=.), characteristic_function(0.5, .), levy_exponent_pure_jump(.) on the real, complex and
  integral argument lists; characteristic_function(., 1.3), characteristic_function(t=., x=..) on arrays of maturities;
  log_characteristic_function(1, ., log_spot=0), (t=2, x=.), (0.5, .) [default log-spot]; (., -1j), (t=., x=0.7, log_spot=0);
  mean(.); cumulant1..6(.); LevyProcess / MarkovChainProcess.deterministic_path(.), (times=.) (also Python / numpy scalars).
Oracle per form: (value) equals the scalar calls element by element (1e-10 of max(|value|, 1e-3): vector and scalar
evaluations of the CGMY powers cancel differently) and has the shape of the argument; (pure) the caller's buffer holds the same
bits after the call; (kept) a second call with the kept array is bit-identical to the first; (no alias) the first answer does
not move when the caller overwrites its array afterwards; (no memo) the overwritten array is answered for its NEW values, bit
for bit like a fresh array, and like the first call once the old values are written back. mart-cf repeats the kept-array
history against the forward itself: ONE complex grid [-i, -i, 0] for the maturities 0.25, 1, 2, 1, 0.25 (positional and
keywords), -i as numpy scalar / 0-d array.  The density nu(.) answers the same for float / int / numpy scalars / 0-d array and
for +-0.0.  mart-direct, path-history (every request) and coupling-levels compare the caller's array of dates with the list it
was built from after every call.

Construction routes (the properties quantify over models, not over how they were built; key suffix `@route`).  Every spec of
both tiers is followed by its "reinit" twin (mc.alphabets.with_reinit: a parameter object built with the DONOR values,
every attribute re-assigned, initialisation(), model constructor - what model/utils.py's calibration helpers do). The first
spec of each family (quick) / every spec of the base lattice and of EXTRA (thorough) is also reached through
  reinit-one:<p>  for every constructor parameter p: ONE parameter object, p moved to the donor value, initialisation(), a model
                  built and used, p moved back, initialisation(), model built (the loop of calibrate_model_parameter);
  deepcopy, dill  a used model copied / pickled (what MarkovChainProcess and every pool chunk of the engines do);
  after-donor     a second model of the same class with other parameters built and used just before (class-level leaks);
  calibration     the model returned by the library's run_default_calibration (maturity 1, bs_sigma 0.25), whose calibrated
                  parameter value is whatever the root finder returns - all oracles are parameter-agnostic; for a Levy spec the
                  `.levy_model` of the calibrated exponential model.
Every sub-check that takes models takes all of these (path-history / coupling-levels / the representation pre-histories:
direct models only - the route does not enter that code).  Judged by the `route` sub-check only (all public quantities against
the directly constructed model; for exponential models of the first spec of each family / thorough: every spec, also the drift
and deterministic path of a MarkovChainProcess on the fixed 5-point grid and of LevyProcess):
  copy                                  copy.copy of a used model;
  deepcopy- / dill-then-original-changed  a used model copied, then the ORIGINAL re-parametrised (every attribute of its parameter
                                        object moved to the donor values + initialisation(), representation changed, spot / r / d
                                        re-assigned) and used: the copy still is the model of the spec;
  original-after-its-deepcopy-changed   the same with the COPY re-parametrised: the original still is the model of the spec;
  args-int, args-numpy, args-0d         the constructor arguments (parameters, spot, r, d) as Python ints where integral, as
                                        numpy float scalars, as 0-d arrays - for EVERY direct spec of the tier.
path-history also asks a deepcopy, a copy.copy and a dill round trip of the process object (3 grids each, the original and the
second object asked in between); coupling-levels runs 4 levels deep (thorough, uniform grid: 3).

Not in the alphabet (the statement is silent or the quantity does not exist): arguments outside the strip of finite
exponential moments (margin 0.4) and exponential models whose E[S_t] is infinite or ill-conditioned (right decay of the
density <= 1.4); conversion to ZERO of an infinite-variation model (diverges; the library raises); the exponent of a model
after `truncate_levy_measure` (the closed forms ignore the truncation; the chain only uses the truncated copy for its
drift); `ExponentialOfLevyModel.levy_exponent` (not defined on the exponential classes except Black-Scholes - recorded
as a note, the exponential models are observed through `log_characteristic_function`, as the property's observe_at
says); the law of `jump_increment` (C02/C15 territory); Levy VG/CGMY direct simulation (infinite intensity: not simulable
directly); grids that are not well formed (origin at an end, non-finite points: C13); the mean of a Levy model (any drift
is a legitimate model as long as exponent, triplet, cumulants and simulation drift agree on it); calibrations without
solution (CGMY y = -0.5: counted `route_outside_alphabet`); routes for PureDiffusiveModel other than deepcopy / dill (it has no
parameter object); mutation of a model's attributes (spot, r, d, parameters) AFTER the model was constructed (the library
itself rebuilds the model); in-place modification of an array RETURNED by deterministic_path.
Argument forms not in the alphabet: lists / tuples of arguments or dates (the unchanged tree raises TypeError); float32 /
complex64 arrays (answered in reduced precision: the statement promises no accuracy there); arrays of points for the density
nu (HEM / VG / CGMY compare `x < 0` and raise); numpy INTEGER scalars as constructor arguments and CGMY with an integral negative
y as Python ints (np.power(20, -1) raises "Integers to negative integer powers": counted `route_outside_alphabet`); arrays of
maturities together with arrays of arguments (broadcast grids); a list / array truncation overwritten by the caller after
truncate_levy_measure (TruncatedLevyMeasure keeps the caller's object; the declared type is a tuple and the library only hands
tuples).

Quadrature.  QUADPACK on pieces split at 0, +-1 and the truncation points; on pieces touching the origin the substitution
x = +-t^8 is applied first, because with the raw integrand |x|^(-0.8) (CGMY y = 1.8) QUADPACK's error estimate was found
optimistic by two orders of magnitude (2.5e-8 actual vs 1e-10 claimed, checked against the closed form in 40-digit
arithmetic) - that produced a false alarm during development and is why oracle.lk_integral is not used directly. With
the substitution the quadrature reproduces Gamma-function closed forms to <= 7e-11 relative for every y in the lattice.
"""
from __future__ import annotations

import cmath
import copy
import inspect
import json
import math
import os
import warnings

import numpy as np
from scipy.integrate import quad

from mc import alphabets as A
from mc import core
from mc import oracle as O

PID = "C10"
LEVEL = "model_checking"
RULE = (
    "complete product of the model lattice (every spec also through its construction routes: re-initialised parameter objects, "
    "copies, calibration helper) with the argument list / time list / grid menu of each sub-check, plus BFS to closure over "
    "histories of set_representation on fresh models, every ordered pair of the time-grid menu as consecutive requests on one "
    "process object, the initialisation / next_level histories of the chain and of its coupling, and every array-taking public "
    "function called with each form of its argument (1-d / (1,n) / (n,1) / one / empty / strided view / read-only / 0-d / numpy "
    "and Python scalars / integers / one array beyond 2^16 points) followed by the history call - call again - caller overwrites "
    "its array - call - write back - call; a case is non-trivial "
    "when at least one library value was compared with a reference (quadrature value whose own error estimate was below the "
    "tolerance, or x0 + drift * t); distinct = distinct case dict"
)
ASSUMPTIONS = [
    "the oracle is scipy QUADPACK / mpmath tanh-sinh quadrature of the model's own density nu.__call__, split at 0 and +-1 "
    "(and at truncation points); a comparison is made only when the quadrature's error estimate is below the tolerance",
    "the finite-variation flag nu.jump_of_finite_variation() is trusted to define the TILDE cut-off (it is the library's "
    "definition of that representation)",
    "tolerances: rtol 1e-9 (finite variation) / 1e-8 (infinite variation) of the largest term, atol 1e-13; finite-difference "
    "cumulants 1e-6",
    "representation search: states merged when the representation agrees and the drifts agree to 1e-9 relative (rounding "
    "of one conversion is 1e-16); merged states have equal futures because set_representation reads only (a, representation, nu)",
]
CHUNK = 1

INF = math.inf
REPS = ["ZERO", "CENTER", "ONEONE", "TILDE"]
REAL_U = [0.4, -0.4, 1.3, -1.3, 4.0, -4.0]
COMPLEX_U = [(0.0, -1.0), (0.0, -2.0), (0.7, -0.5), (-1.1, 0.3)]
MARGIN = 0.4
ATOL = 1e-13


# ----------------------------------------------------------------------------------------------------------------------
# model lattice
# ----------------------------------------------------------------------------------------------------------------------

EXTRA = {
    "hem": [
        {"sigma": 0.3, "p": 0.6, "eta1": 3.0, "eta2": 2.0, "intensity": 1.0},
        {"sigma": 0.1, "p": 1.0, "eta1": 20.0, "eta2": 25.0, "intensity": 3.0},
        {"sigma": 0.05, "p": 0.5, "eta1": 50.0, "eta2": 50.0, "intensity": 10.0},
        {"sigma": 0.0, "p": 0.3, "eta1": 10.0, "eta2": 40.0, "intensity": 5.0},   # tie: no diffusion
    ],
    "merton": [
        {"sigma": 0.2, "sigma_j": 0.3, "mu_j": 0.1, "intensity": 0.5},
        {"sigma": 0.05, "sigma_j": 0.02, "mu_j": 0.03, "intensity": 10.0},
        {"sigma": 0.1, "sigma_j": 0.1, "mu_j": 0.0, "intensity": 1.0},            # tie: centred jumps
    ],
    "vg": [
        {"sigma": 0.12, "nu": 0.5, "theta": 0.0},
        {"sigma": 0.3, "nu": 1.0, "theta": -0.3},
    ],
    "cgmy": [
        {"c": 1.0, "g": 15.0, "m": 20.0, "y": -1.5},
        {"c": 0.1, "g": 5.0, "m": 7.0, "y": -1.5},
        {"c": 1.0, "g": 15.0, "m": 20.0, "y": -1.0},                               # tie: y = -1 (finite / infinite activity flag)
        {"c": 1.0, "g": 15.0, "m": 20.0, "y": 0.2},
        {"c": 1.0, "g": 15.0, "m": 20.0, "y": 0.8},
        {"c": 0.1, "g": 5.0, "m": 7.0, "y": 1.8},
        {"c": 2.0, "g": 20.0, "m": 15.0, "y": 0.0},
        {"c": 2.0, "g": 20.0, "m": 15.0, "y": 1.0},
        {"c": 2.0, "g": 20.0, "m": 15.0, "y": -0.5},
        {"c": 0.3, "g": 2.5, "m": 1.5, "y": 0.5},
        {"c": 0.3, "g": 2.5, "m": 1.5, "y": 1.0},
        {"c": 0.3, "g": 2.5, "m": 1.5, "y": 1.3},
    ],
}


def _product_lattice():
    """Thorough tier: full products of parameter menus per family (every branch class of the anchored code several times)."""
    out = {"hem": [], "merton": [], "vg": [], "cgmy": []}
    for sigma in (0.0, 0.05, 0.3):
        for p in (0.3, 0.6, 1.0):
            for eta1, eta2 in ((20.0, 25.0), (10.0, 40.0), (3.0, 2.0)):
                for lam in (1.0, 5.0):
                    out["hem"].append({"sigma": sigma, "p": p, "eta1": eta1, "eta2": eta2, "intensity": lam})
    for sigma in (0.0, 0.05, 0.2):
        for sigma_j in (0.05, 0.3):
            for mu_j in (0.0, 0.03, 0.1):
                for lam in (0.5, 3.0):
                    out["merton"].append({"sigma": sigma, "sigma_j": sigma_j, "mu_j": mu_j, "intensity": lam})
    for sigma in (0.1, 0.2, 0.3):
        for nu in (0.06, 0.2, 1.0):
            for theta in (-0.3, -0.15, 0.0, 0.1):
                out["vg"].append({"sigma": sigma, "nu": nu, "theta": theta})
    for y in (-1.5, -0.5, 0.0, 0.2, 0.5, 0.8, 1.0, 1.2, 1.5, 1.8):
        for c, g, m in ((1.0, 15.0, 20.0), (0.1, 5.0, 7.0), (0.5, 6.0, 6.0), (2.0, 20.0, 15.0), (0.3, 2.5, 1.5)):
            out["cgmy"].append({"c": c, "g": g, "m": m, "y": y})
    return out


ROUTES_RICH = ("deepcopy", "dill", "after-donor", "calibration")
# routes judged by the `route` sub-check only (every public quantity against the directly constructed model)
ROUTES_COPIES = ("copy", "deepcopy-then-original-changed", "dill-then-original-changed", "original-after-its-deepcopy-changed")
ROUTES_ARGS = ("args-int", "args-numpy", "args-0d")  # the constructor arguments in their other legal forms
CALIBRATION = {"maturity": 1.0, "bs_sigma": 0.25}  # the library default bs_sigma = 0.10 is below the jump volatility of HEM


class _Outside(Exception):
    """The construction route does not exist for that model (e.g. the root finder of the calibration has no solution)."""


def _param_names(fam):
    return {"hem": ["sigma", "p", "eta1", "eta2", "intensity"], "merton": ["sigma", "mu_j", "sigma_j", "intensity"],
            "vg": ["sigma", "nu", "theta"], "cgmy": ["c", "g", "m", "y"], "bs": ["sigma"]}.get(fam, [])


def _routes(fam, rich):
    """Construction routes of one model spec besides the direct one (see the module docstring)."""
    if fam == "pdiff":  # PureDiffusiveModel(mu, sigma) has no public parameter object
        return ["deepcopy", "dill"] if rich else []
    out = ["reinit"]
    if rich:
        out += ["reinit-one:" + n for n in _param_names(fam)]
        out += [r for r in ROUTES_RICH if not (r == "calibration" and fam == "bs")]
    return out


def _specs(tier, exp, families=("hem", "merton", "vg", "cgmy"), routes=True):
    """Model specs. quick = the complete 1-d lattice of DESIGN section 5 plus the EXTRA points (every branch class of the
    CGMY activity index, one-sided HEM, symmetric / skewed VG, heavy right tail m = 1.5); thorough = in addition the full
    parameter products of `_product_lattice`. Exponential models whose E[S_t] is infinite or ill-conditioned (right decay
    of the density <= 1 + MARGIN) are not in the alphabet.

    With routes=True every spec is followed by its construction-route twins: the "reinit" twin of mc.alphabets.with_reinit
    for EVERY spec of both tiers, and the rich menu of `_routes` for the first spec of each family (quick) / for every spec
    of the base lattice and of EXTRA (thorough)."""
    out = [(sp, True) for sp in A.model_specs("thorough", families=tuple(f for f in families if f != "pdiff"), exp=(exp,))]
    lat = [(EXTRA, True)]
    if tier == "thorough":
        lat.append((_product_lattice(), False))
    for table, rich in lat:
        for fam in families:
            for params in table.get(fam, []):
                if exp:
                    for r, d in A.RATES:
                        out.append(({"family": fam, "exp": True, "params": params, "r": r, "d": d, "spot": 100.0}, rich))
                else:
                    out.append(({"family": fam, "exp": False, "params": params}, rich))
    if exp and "bs" in families and tier == "thorough":
        for r, d in A.RATES:
            out.append(({"family": "bs", "exp": True, "params": {"sigma": 0.0}, "r": r, "d": d, "spot": 100.0}, True))
    if not exp and "pdiff" in families:
        out.append(({"family": "pdiff", "exp": False, "params": {"mu": 0.03, "sigma": 0.2}}, True))
        out.append(({"family": "pdiff", "exp": False, "params": {"mu": -0.1, "sigma": 0.0}}, True))
    seen, res, fams = set(), [], set()
    for sp, rich in out:
        k = json.dumps(sp, sort_keys=True)
        if k in seen:
            continue
        seen.add(k)
        if exp and sp["family"] != "bs":
            if not _admissible(complex(0.0, -1.0), _decays(sp, _make({**sp, "exp": False}))):
                continue
        res.append(sp)
        if not routes:
            continue
        first = sp["family"] not in fams
        fams.add(sp["family"])
        twins = A.with_reinit([sp], families=("hem", "merton", "vg", "cgmy", "bs"))[1:]  # the shared "reinit" twin
        twins += [dict(sp, via=v) for v in _routes(sp["family"], rich and (first or tier == "thorough")) if v != "reinit"]
        res.extend(twins)
    return res


def _make_direct(spec):
    if spec["family"] == "pdiff":
        from rpylib.model.levymodel.mixed.blackscholes import PureDiffusiveModel

        return PureDiffusiveModel(mu=spec["params"]["mu"], sigma=spec["params"]["sigma"])
    return A.make_model(spec)


def _touch(model):
    """Use a model once (density, exponent / characteristic function, first cumulant), as the root finder of the
    calibration does with every intermediate model: whatever the library caches is cached after that."""
    try:
        nu = model.levy_triplet.nu
        nu(0.3), nu(-0.3)
        if hasattr(model, "log_characteristic_function") and hasattr(model, "levy_model"):
            model.log_characteristic_function(1.0, 0.4)
        else:
            model.levy_exponent(0.4)
        model.cumulant.cumulant1(1.0)
    except Exception:
        pass


def _make(spec):
    """The model of a spec, reached through the construction route spec["via"] (None = the library's helper called with the
    parameter values). Raises _Outside when the route does not exist for that model."""
    via = spec.get("via")
    if not via:
        return _make_direct(spec)
    fam = spec["family"]
    direct = {k: v for k, v in spec.items() if k != "via"}
    if via == "reinit" and fam != "bs":
        return A.make_model(spec)  # the shared twin of mc.alphabets.with_reinit
    if via == "deepcopy":
        m = _make_direct(direct)
        _touch(m)
        return copy.deepcopy(m)
    if via == "copy":
        m = _make_direct(direct)
        _touch(m)
        return copy.copy(m)
    if via in ("deepcopy-then-original-changed", "dill-then-original-changed", "original-after-its-deepcopy-changed"):
        # the copy is independent of the original: whichever of the two is re-parametrised afterwards, the other one still is
        # the model of the spec
        m = _make_direct(direct)
        _touch(m)
        if via.startswith("dill"):
            import dill

            c = dill.loads(dill.dumps(m))
        else:
            c = copy.deepcopy(m)
        keep, change = (m, c) if via.startswith("original") else (c, m)
        _reparametrise(change, fam)
        _touch(change)
        return keep
    if via in ROUTES_ARGS:
        conv = {"args-int": lambda v: int(v) if float(v).is_integer() else v, "args-numpy": np.float64,
                "args-0d": lambda v: np.array(float(v))}[via]
        d = dict(direct, params={k: conv(v) for k, v in direct["params"].items()})
        for k in ("spot", "r", "d"):
            if k in d:
                d[k] = conv(d[k])
        try:
            return _make_direct(d)
        except (TypeError, ValueError) as err:
            # a form the library rejects loudly is outside the alphabet (CGMY with an integral negative y handed over as
            # Python ints: np.power(20, -1) "Integers to negative integer powers are not allowed")
            raise _Outside(str(err)) from err
    if via == "dill":  # what every pool chunk of the Monte-Carlo engines receives
        import dill

        m = _make_direct(direct)
        _touch(m)
        return dill.loads(dill.dumps(m))
    donor_spec = dict(direct, params=A.DONOR_PARAMS[fam])
    if via == "after-donor":  # a second object of the same class, used in between
        _touch(_make_direct(donor_spec))
        return _make_direct(direct)
    if via == "calibration":
        from rpylib.model.utils import run_default_calibration

        e = direct if spec.get("exp") else dict(direct, exp=True, r=A.RATES[0][0], d=A.RATES[0][1], spot=100.0)
        try:
            with warnings.catch_warnings():
                warnings.simplefilter("ignore")
                cal = run_default_calibration(_make_direct(e), **CALIBRATION)
        except ValueError as err:  # "Parameter cannot be calibrated given the market data and its range constraints"
            raise _Outside(str(err)) from err
        return cal if spec.get("exp") else cal.levy_model
    target = _make_direct(direct)
    cls = type(target)

    def build(p):
        if spec.get("exp"):
            return cls(spot=spec.get("spot", 100.0), r=spec["r"], d=spec["d"], parameters=p)
        return cls(parameters=p)

    names = [n for n in inspect.signature(type(_params(target)).__init__).parameters if n != "self"]
    if via == "reinit":  # Black-Scholes: the parameter object sits on the exponential model itself
        params = copy.deepcopy(_params(_make_direct(donor_spec)))
        for n in names:
            setattr(params, n, getattr(_params(target), n))
        params.initialisation()
        return build(params)
    if via.startswith("reinit-one:"):
        # the loop of calibrate_model_parameter: ONE parameter object, one attribute moved away and back, initialisation()
        # and a model built (and used) at every step
        name = via.split(":", 1)[1]
        params = copy.deepcopy(_params(target))
        setattr(params, name, A.DONOR_PARAMS[fam][name])
        params.initialisation()
        _touch(build(params))
        setattr(params, name, getattr(_params(target), name))
        params.initialisation()
        return build(params)
    raise ValueError(via)


def _reparametrise(model, fam):
    """Change everything a caller can change on a model object it owns: the attributes of its parameter object (donor values,
    initialisation()), the representation of its triplet, and spot / rates of an exponential model."""
    from rpylib.model.levymodel.levymodel import LevyRepresentation

    p = _params(model)
    if p is not None and fam in A.DONOR_PARAMS:
        for n, v in A.DONOR_PARAMS[fam].items():
            if hasattr(p, n):
                setattr(p, n, v)
        if hasattr(p, "initialisation"):
            p.initialisation()
    tr = model.levy_triplet
    now = getattr(tr.representation, "name", str(tr.representation))
    tr.set_representation(LevyRepresentation["ONEONE" if now != "ONEONE" else "CENTER"])
    for n, v in (("spot", 80.0), ("r", 0.04), ("d", 0.015)):
        if hasattr(model, n):
            try:
                setattr(model, n, v)
            except Exception:
                pass


def _build(sh, spec):
    """The model of the spec, or None when it is outside the alphabet (route without solution; exponential model reached by
    calibration whose E[S_t] is infinite or ill-conditioned)."""
    try:
        model = _make(spec)
    except _Outside:
        sh.count("route_outside_alphabet")
        sh.cls("route:" + str(spec.get("via")) + ":no-solution")
        return None
    sh.cls("route:" + str(spec.get("via") or "direct").split(":")[0])
    if spec.get("via") == "calibration" and spec.get("exp"):
        if not _admissible(complex(0.0, -1.0), _decays(spec, model)):
            sh.count("route_outside_alphabet")
            return None
    return model


def _params(model):
    base = getattr(model, "levy_model", model)
    return getattr(base, "parameters", None) or getattr(model, "parameters", None)


def _klass(spec, model):
    """Input class used in violation keys: family, and for CGMY the branch of the activity index."""
    fam = spec["family"]
    via = "@" + spec["via"].replace(":", "-") if spec.get("via") else ""  # construction route, when not the direct one
    if fam != "cgmy":
        return fam + via
    y = float(_params(model).y)
    if y < -1:
        return "cgmy-y<-1" + via
    if y < 0:
        return "cgmy--1<=y<0" + via
    if y == 0:
        return "cgmy-y=0" + via
    if y < 1:
        return "cgmy-0<y<1" + via
    if y == 1:
        return "cgmy-y=1" + via
    return "cgmy-1<y<2" + via


def _decays(spec, model):
    """(left, right) exponential decay rates of the density: E[e^{sL}] is finite for -left < s < right."""
    fam = spec["family"]
    p = _params(model)
    if fam == "hem":
        right = float(p.eta1)
        left = float(p.eta2)
        if float(p.p) >= 1.0:
            left = INF
        return left, right
    if fam == "cgmy":
        return float(p.g), float(p.m)
    if fam == "vg":
        s2 = float(p.sigma) ** 2
        lp = math.sqrt(float(p.theta) ** 2 + 2 * s2 / float(p.nu)) / s2 - float(p.theta) / s2
        lm = lp + 2 * float(p.theta) / s2
        return lm, lp
    return INF, INF  # merton (gaussian tails), diffusions


def _admissible(u, decays):
    left, right = decays
    s = -u.imag  # e^{iux} = e^{(i Re u - Im u) x}: growth rate s = -Im u
    if s > 0:
        return s < right - MARGIN
    if s < 0:
        return -s < left - MARGIN
    return True


def _re(x):
    """Real part of a library scalar that may have been computed in complex arithmetic (e.g. a drift built from
    -psi(-i) without `.real`): a zero imaginary part is not a defect of this property. A non-negligible one gives nan,
    which fails every comparison it enters."""
    z = complex(np.asarray(x).reshape(-1)[0]) if not isinstance(x, (int, float, complex)) else complex(x)
    if abs(z.imag) > 1e-14 * max(1.0, abs(z.real)):
        return math.nan
    return z.real


def _triplet(model):
    tr = model.levy_triplet
    nu = tr.nu
    rep = getattr(tr.representation, "name", str(tr.representation))
    return float(tr.a), float(tr.sigma), nu, rep, bool(nu.jump_of_finite_variation())


def _rtol(fv):
    return 1e-9 if fv else 1e-8


_K = 8  # substitution x = +-t^8 on pieces that touch the origin


def _quad(fn, a_, b_):
    """int_a^b fn(x) dx for a real-valued fn that may have an algebraic singularity |x|^(-p), p < 1, at x = 0 when the piece
    touches the origin (a = 0 or b = 0; pieces never straddle it). There the substitution x = +-t^8 turns |x|^(-p) dx into
    8 t^(7-8p) dt (bounded for p <= 0.875, and still only t^(-0.2) for p = 0.9), so that QUADPACK's error estimate can be
    trusted: with the raw integrand its estimate was found optimistic by 2 orders of magnitude for p = 0.8 (CGMY y = 1.8).
    Falls back to mpmath tanh-sinh when the estimate is poor. Returns (value, error estimate)."""
    if a_ == 0.0 and math.isfinite(b_):
        top = b_ ** (1.0 / _K)

        def g(t):
            x = t ** _K
            return fn(x) * _K * t ** (_K - 1) if x > 1e-100 else 0.0

        lo_, hi_ = 0.0, top
    elif b_ == 0.0 and math.isfinite(a_):
        top = (-a_) ** (1.0 / _K)

        def g(t):
            x = t ** _K
            return fn(-x) * _K * t ** (_K - 1) if x > 1e-100 else 0.0

        lo_, hi_ = 0.0, top
    else:
        g, lo_, hi_ = fn, a_, b_
    v, e = quad(g, lo_, hi_, epsabs=0.0, epsrel=1e-12, limit=400)
    if not math.isfinite(v) or e > 1e-9 * abs(v) + 1e-14:
        v2, e2 = O._mp_quad(g, lo_, hi_)
        if e2 < e or not math.isfinite(v):
            v, e = v2, e2
    if not (math.isfinite(v) and math.isfinite(e)):
        return v, INF
    return v, e


def _lk(nu, u, rep, fv, lo=-INF, hi=INF):
    """int_{lo}^{hi} (e^{iux} - 1 - i u x c_R(x)) nu(dx), u real or complex: (complex value, error estimate).

    Same definition as oracle.lk_integral (small-x Taylor form of the integrand, split at 0 and +-1), with the guards needed
    for arguments off the real axis on unbounded ranges (where the density has underflowed to 0 the integrand is 0 instead
    of inf*0 = nan when e^{iux} overflows) and the origin substitution of `_quad`."""
    c = O.cutoff(rep, fv)
    iu = 1j * u

    def integrand(x):
        dens = float(nu(x))
        if dens == 0.0:
            return 0j
        z = iu * x
        cx = c(x)
        if abs(z) < 0.02:
            # e^z - 1 - z cx = z (1 - cx) + z^2/2 + ... + z^9/9!  (truncation 3e-24 relative; the direct form would lose
            # 1e-16/|z|^2 to cancellation)
            val = z * (1.0 - cx) + z * z * (0.5 + z * (1 / 6 + z * (1 / 24 + z * (1 / 120 + z * (1 / 720 + z * (
                1 / 5040 + z * (1 / 40320 + z / 362880)))))))
        else:
            val = cmath.exp(z) - 1.0 - z * cx
        return val * dens

    re_tot = im_tot = err = 0.0
    lo, hi = float(lo), float(hi)
    if not lo < hi:
        return 0j, 0.0
    with warnings.catch_warnings():
        warnings.simplefilter("ignore")
        for a_, b_ in O._pieces(lo, hi):
            v, e = _quad(lambda x: integrand(x).real, a_, b_)
            re_tot += v
            err += e
            v, e = _quad(lambda x: integrand(x).imag, a_, b_)
            im_tot += v
            err += e
    if not math.isfinite(err):
        err = INF
    return complex(re_tot, im_tot), err


def _int(nu, a_, b_, n):
    """int_a^b x^n nu(dx) by quadrature of the density nu.__call__: (value, error estimate)."""
    a_, b_ = float(a_), float(b_)
    if not a_ < b_:
        return 0.0, 0.0

    def f(x):
        return (x ** n) * float(nu(x)) if n else float(nu(x))

    tot = err = 0.0
    with warnings.catch_warnings():
        warnings.simplefilter("ignore")
        for lo_, hi_ in O._pieces(a_, b_):
            v, e = _quad(f, lo_, hi_)
            tot += v
            err += e
    if not (math.isfinite(tot) and math.isfinite(err)):
        return tot, INF
    return tot, err


def _psi_ref(a, sigma, nu, rep, fv, u):
    """Levy-Khintchine exponent from the triplet by quadrature: (value, error estimate)."""
    lk, err = _lk(nu, u, rep, fv)
    return 1j * u * a - 0.5 * (u * sigma) ** 2 + lk, err


def _cclose(x, y, rtol, scale=None):
    s = max(abs(x), abs(y)) if scale is None else scale
    d = abs(complex(x) - complex(y))
    return (not math.isnan(d)) and d <= ATOL + rtol * s


def _u_list():
    return [complex(u, 0.0) for u in REAL_U] + [complex(re, im) for re, im in COMPLEX_U]


def _ulabel(u):
    return f"{u.real:g}{u.imag:+g}i" if u.imag else f"{u.real:g}"


# ----------------------------------------------------------------------------------------------------------------------
# cases
# ----------------------------------------------------------------------------------------------------------------------

# LevyModel.process_drift() of a (non-exponential) Levy model follows the declared representation; the statement only speaks of
# the direct-simulation drift of exponential models, so after a representation change this is recorded as a note, not judged
LEVY_DIRECT_AFTER_REPR_IS_VIOLATION = os.environ.get("VERIF_C10_JUDGE_LEVY_DIRECT") == "1"
CHAIN_PRE_REPS = [["ZERO"], ["CENTER"], ["ONEONE"], ["TILDE"], ["TILDE", "CENTER"], ["ONEONE", "TILDE"]]


def _chain_grids(tier):
    gs = [{"kind": "fixed", "h": 0.1, "n": 5}, {"kind": "uniform", "h": 0.1, "p": 0.99999},
          {"kind": "fixed", "h": 0.1, "n": 5, "refine": 1}]
    if tier == "thorough":
        gs += [
            {"kind": "fixed", "h": 0.2, "n": 3},
            {"kind": "fixed", "h": 0.05, "n": 8},
            {"kind": "uniform", "h": 0.05, "p": 0.99},
            {"kind": "uniform", "h": 0.2, "p": 0.99999, "refine": 1},
            {"kind": "geometric-bounds", "h": 0.1, "bounds": [-0.7, 0.4], "n_side": 3},
            {"kind": "geometric-bounds", "h": 0.1, "bounds": [-1.5, 1.2], "n_side": 4},
        ]
    return gs


def cases(tier):
    out = []
    levy = _specs(tier, exp=False, families=("pdiff", "hem", "merton", "vg", "cgmy"))
    expo = _specs(tier, exp=True, families=("bs", "hem", "merton", "vg", "cgmy"))
    big = set()  # one array beyond 2^16 points for the first directly constructed spec of each family (quick) / every one (thorough)

    def large(s):
        k = (s["family"], bool(s.get("exp")))
        if s.get("via") or (tier == "quick" and k in big):
            return {}
        big.add(k)
        return {"large": tier}

    for s in levy:
        out.append({"sub": "exponent", "model": s, **large(s)})
    for s in levy:
        out.append({"sub": "cumulant", "model": s})
    truncs = [None, [-0.5, 0.7], [-2.0, 1.5]]
    for s in levy + [e for e in expo if (e["r"], e["d"]) == A.RATES[0]]:  # the rates do not enter the triplet
        for tr in truncs:
            out.append({"sub": "repr", "model": s, "trunc": tr, "depth": 6})
    for s in expo:
        out.append({"sub": "mart-cf", "model": s})
    for s in expo:
        if s["family"] in ("bs", "hem", "merton"):
            out.append({"sub": "mart-direct", "model": s})
    for s in levy:
        if s["family"] in ("pdiff", "hem", "merton"):
            out.append({"sub": "mart-direct", "model": s})
    for s in expo + levy:
        if s["family"] in ("bs", "pdiff", "hem", "merton") and not s.get("via"):
            for pre in CHAIN_PRE_REPS:
                out.append({"sub": "mart-direct", "model": s, "pre_reps": pre})
    for s in expo:
        out.append({"sub": "exponent", "model": s, **large(s)})
    for s in expo:
        if s["family"] == "bs":
            continue
        for g in _chain_grids(tier):
            out.append({"sub": "mart-chain", "model": s, "grid": g})
        if not s.get("via"):
            for pre in CHAIN_PRE_REPS:
                for g in _chain_grids(tier)[:2 if tier == "thorough" else 1]:
                    out.append({"sub": "mart-chain", "model": s, "grid": g, "pre_reps": pre})
    # construction routes against the directly constructed model
    for s in levy + expo:
        if s.get("via") and s["via"] != "calibration":
            out.append({"sub": "route", "model": s})
    # ... the routes judged only there: copies one side of which is re-parametrised afterwards (first spec of each family in
    # quick), constructor arguments in their other legal forms (every direct spec)
    fams = set()
    for s in levy + expo:
        if s.get("via"):
            continue
        first = (s["family"], bool(s.get("exp"))) not in fams
        fams.add((s["family"], bool(s.get("exp"))))
        if first or tier == "thorough":
            for v in ROUTES_COPIES:
                out.append({"sub": "route", "model": dict(s, via=v), "chain": bool(s.get("exp")) and s["family"] != "bs"})
        for v in ROUTES_ARGS:
            out.append({"sub": "route", "model": dict(s, via=v),
                        "chain": (first or tier == "thorough") and bool(s.get("exp")) and s["family"] != "bs"})
    # the drifts kept by the multilevel coupling over next_level histories
    for s in expo:
        if s.get("via") or s["family"] == "bs" or (tier == "quick" and (s["r"], s["d"]) != A.RATES[0]):
            continue
        out.append({"sub": "coupling-levels", "model": s, "grid": {"kind": "fixed", "h": 0.2, "n": 3}, "depth": 4})
        if tier == "thorough":
            out.append({"sub": "coupling-levels", "model": s, "grid": {"kind": "uniform", "h": 0.2, "p": 0.99999}, "depth": 3})
    # histories of deterministic_path requests on ONE process object (directly constructed models: the construction route
    # does not enter Process.deterministic_path)
    for s in levy + expo:
        if s.get("via"):
            continue
        lg = {"large": tier} if tier == "thorough" or (s["family"], bool(s.get("exp")), "path") not in big else {}
        big.add((s["family"], bool(s.get("exp")), "path"))
        out.append({"sub": "path-history", "model": s, "proc": "levy", **lg})
        if s.get("exp") and s["family"] != "bs":
            out.append({"sub": "path-history", "model": s, "proc": "chain", "grid": {"kind": "fixed", "h": 0.1, "n": 5}, **lg})
    return out


def check_case(sh, case):
    sub = case["sub"]
    with warnings.catch_warnings():
        # the library's closed forms emit RuntimeWarnings (0 * inf at interval end points) while grids are built
        warnings.simplefilter("ignore", RuntimeWarning)
        globals()["_sub_" + sub.replace("-", "_")](sh, case)


def _common_classes(sh, spec, model, rep, fv):
    sh.cls("family:" + spec["family"] + (":exp" if spec.get("exp") else ""))
    sh.cls("class:" + _klass(spec, model).split("@")[0])
    sh.cls("declared:" + rep)
    sh.cls("finite-variation" if fv else "infinite-variation")


# ----------------------------------------------------------------------------------------------------------------------
# (a) exponent
# ----------------------------------------------------------------------------------------------------------------------

def _sub_exponent(sh, case):
    spec = case["model"]
    if spec.get("exp"):
        return _exponent_exp(sh, case)
    model = _build(sh, spec)
    if model is None:
        return
    twin = _make(spec)  # determinism self-check: a second fresh object must give bit-identical observations
    a, sigma, nu, rep, fv = _triplet(model)
    kl = _klass(spec, model)
    comp = type(model).__name__ + ".levy_exponent"
    _common_classes(sh, spec, model, rep, fv)
    dec = _decays(spec, model)
    rtol = _rtol(fv)
    rows, bad = [], []
    for u in _u_list():
        if not _admissible(u, dec):
            sh.count("argument_outside_strip")
            continue
        arg = u.real if u.imag == 0 else u
        try:
            got = complex(model.levy_exponent(arg))
            got2 = complex(twin.levy_exponent(arg))
        except Exception as e:
            sh.violation(f"C10:exponent:{comp}:raises-{type(e).__name__}:{kl}", f"levy_exponent({arg}) raised {e!r}",
                         {"u": _ulabel(u)})
            continue
        if not (got == got2 or (math.isnan(abs(got)) and math.isnan(abs(got2)))):
            sh.violation("NONDETERMINISM", f"levy_exponent({arg}) differs on two fresh models: {got} vs {got2}", None)
        ref, err = _psi_ref(a, sigma, nu, rep, fv, u)
        scale = max(abs(got), abs(ref))
        if not (err <= ATOL + rtol * scale):
            sh.count("oracle_inconclusive")
            continue
        sh.count("evaluations")
        sh.cls("argument:" + ("real" if u.imag == 0 else "complex"))
        ok = _cclose(got, ref, rtol)
        rows.append({"u": _ulabel(u), "lib": got, "ref": ref, "quad_err": err, "ok": ok})
        if not ok:
            bad.append((u, got, ref))
        else:
            for t in (0.5, 2.0):
                cf = complex(model.characteristic_function(t, arg))
                cref = cmath.exp(t * ref)
                sh.count("evaluations")
                if not _cclose(cf, cref, rtol * max(1.0, t * abs(ref)) * 4):
                    sh.violation(f"C10:exponent:{type(model).__name__}.characteristic_function:not-exp-of-t-times-exponent:{kl}",
                                 f"{spec}: characteristic_function({t}, {_ulabel(u)}) = {cf}, exp(t psi) = {cref}", None)
    # u = 0 (tie): psi(0) = 0 whatever the triplet. The closed forms subtract terms like c Gamma(-y) m^y (1.6e3 for c = 2,
    # y = 1.8, m = 15: 1.8e-13 left over), so the slack is 1e-10 of the exponent's size on the argument list, not ATOL
    try:
        z0 = complex(model.levy_exponent(0.0))
        sh.count("evaluations")
        if not abs(z0) <= 1e-10 * max([1.0] + [abs(r["lib"]) for r in rows]):
            sh.violation(f"C10:exponent:{comp}:not-zero-at-zero:{kl}", f"{A.model_label(spec)}: levy_exponent(0.0) = {z0}", None)
    except Exception as e:
        sh.violation(f"C10:exponent:{comp}:raises-{type(e).__name__}:{kl}:u=0", f"levy_exponent(0.0) raised {e!r}", None)
    # the forms in which the arguments can be handed over, and what happens to the caller's arrays
    where = A.model_label(spec)
    cname = type(model).__name__
    large = LARGE_N[case.get("large")] if case.get("large") else 0
    us_c = [u for u in _u_list() if _admissible(u, dec)]
    us_r = [u for u in us_c if u.imag == 0] + [0j]
    us_i = [complex(v) for v in U_INTS]
    for kind, vals in (("real", us_r), ("complex", us_c), ("int", us_i)):
        _contract(sh, "exponent", comp, kl, "levy_exponent(.)", model.levy_exponent, vals, kind, where, large=large)
        _contract(sh, "exponent", cname + ".characteristic_function", kl, "characteristic_function(0.5, .)",
                  lambda x: model.characteristic_function(0.5, x), vals, kind, where,
                  large=large if kind == "complex" else 0)
    _contract(sh, "exponent", comp, kl + ":keyword", "levy_exponent(x=.)", lambda x: model.levy_exponent(x=x), us_c, "complex", where)
    _contract(sh, "exponent", cname + ".levy_exponent_pure_jump", kl, "levy_exponent_pure_jump(.)",
              model.levy_exponent_pure_jump, [1j * u for u in us_c], "complex", where, strict_shape=False)
    x_kw = 0.7 - 0.5j if _admissible(0.7 - 0.5j, dec) else 0.7
    for kind, vals in (("real", T_VALS), ("int", T_INTS)):
        _contract(sh, "exponent", cname + ".characteristic_function", kl + ":times", "characteristic_function(., 1.3)",
                  lambda t: model.characteristic_function(t, 1.3), [complex(v) for v in vals], kind, where)
        _contract(sh, "exponent", cname + ".characteristic_function", kl + ":times", f"characteristic_function(t=., x={_ulabel(complex(x_kw))})",
                  lambda t: model.characteristic_function(t=t, x=x_kw), [complex(v) for v in vals], kind, where)
    _density_forms(sh, spec, model, kl)
    if rows:
        sh.nontriv()
        sh.outcome([(r["u"], round(r["lib"].real, 9), round(r["lib"].imag, 9)) for r in rows])
        sh.sample({"sub": "exponent", "model": A.model_label(spec), "declared": rep, "a": a, "first": rows[0]})
    if bad:
        # is the mismatch exactly linear in the argument (got - ref = i u delta with one delta)?
        deltas = [(g - r) / (1j * u) for (u, g, r) in bad]
        d0 = deltas[0]
        linear = len(bad) == len(rows) and all(abs(d - d0) <= 1e-7 * abs(d0) + 1e-12 for d in deltas) and abs(d0.imag) <= 1e-7 * abs(d0) + 1e-12
        fc = "differs-from-levy-khintchine-by-a-linear-term" if linear else "differs-from-levy-khintchine"
        u, g, r = bad[0]
        sh.violation(
            f"C10:exponent:{comp}:{fc}:{kl}",
            f"{A.model_label(spec)}: levy_exponent({_ulabel(u)}) = {g} but the "
            f"Levy-Khintchine integral of the declared triplet (a={a}, sigma={sigma}, {rep}) is {r}"
            + (f"; the difference is i*u*({d0.real:.12g}) for every argument" if linear else ""),
            {"declared": rep, "a": a, "sigma": sigma, "rows": rows, "linear_delta": d0.real if linear else None},
        )


LARGE_N = {"quick": 70_001, "thorough": 262_145}  # beyond 2^16 states / beyond the 2^18 points of the largest Fourier grid
T_VALS = [0.5, 2.0, 1.0, 0.0, 0.25]               # maturities handed over as an array (0 = the tie t = 0)
T_INTS = [1.0, 2.0, 0.0]
U_INTS = [4.0, -4.0, 1.0, 0.0, -2.0]


def _same(x, y):
    """Bit-for-bit equality of two library answers (the same computation done twice); nan equals nan."""
    x, y = np.asarray(x), np.asarray(y)
    return x.shape == y.shape and bool(np.array_equal(x, y, equal_nan=True))


def _fill(arg, values):
    """Overwrite the caller's array in place with other values (real parts for a real or integer array)."""
    v = np.array([complex(x) for x in values])
    arg[...] = (v if arg.dtype.kind == "c" else v.real).astype(arg.dtype).reshape(arg.shape)


def _arg_forms(vals, kind):
    """The legal forms in which the values `vals` (Python floats / complex) can be handed over: (name, argument object, the
    values it holds, the whole buffer the caller owns). Lists / tuples and reduced-precision dtypes are not in the alphabet
    (the unchanged tree rejects the former; the statement promises no accuracy for the latter)."""
    dt = float if kind != "complex" else complex
    vals = [complex(v) if dt is complex else complex(v).real for v in vals]
    base = np.array(vals, dtype=dt)
    n = len(vals)
    out = [("array", base.copy()), ("array-1xn", base.reshape(1, -1).copy()), ("array-nx1", base.reshape(-1, 1).copy()),
           ("array-one", base[:1].copy()), ("array-empty", base[:0].copy())]
    big = np.empty(2 * n, dtype=dt)
    big[0::2] = base
    big[1::2] = 0.123                      # the caller's other data, interleaved with the arguments
    out.append(("array-strided-view", big[0::2]))
    ro = base.copy()
    ro.setflags(write=False)
    out.append(("array-read-only", ro))
    out.append(("array-0-d", np.array(vals[0], dtype=dt)))
    out.append(("numpy-scalar", (np.float64 if dt is float else np.complex128)(vals[0])))
    if kind == "int":
        out.append(("array-of-integers", base.astype(np.int64)))
        out.append(("python-int", int(vals[0])))
        out.append(("numpy-int", np.int64(int(vals[0]))))
    res = []
    for name, arg in out:
        held = [dt(v) for v in np.asarray(arg).reshape(-1).tolist()]
        owner = big if name == "array-strided-view" else arg
        res.append((name, arg, held, owner))
    return res


def _contract(sh, sub, comp, kl, label, fn, vals, kind, where, strict_shape=True, large=0):
    """Contract of a public function `fn` of ONE array-like argument, on the values `vals` (kind: "real" | "complex" | "int" =
    real and integral), for every form of `_arg_forms`:
      value    fn(form) agrees element by element with the scalar calls fn(v) (judged elsewhere against the reference) and has
               the shape of its argument;
      pure     the caller's array holds the same bits after the call (also the part of the buffer the view does not cover);
      kept     a second call with the kept array answers bit for bit like the first;
      no alias the answer of the first call does not move when the caller overwrites its array afterwards;
      no memo  the call with the overwritten array answers for the NEW values, and bit for bit like a fresh array of them;
               with the old values written back, bit for bit like the first call.
    large > 0: one more array of that many points (the values repeated with a ramp added to the real part), compared with the
    evaluation in chunks of 1000 and with scalar calls at 5 positions."""
    seen = set()

    def report(fc, form, text, detail=None):
        key = f"C10:{sub}:{comp}:{fc}:{kl}:{form}"
        if key not in seen:
            seen.add(key)
            sh.violation(key, f"{where}: {label} called with the {kind} values {[_ulabel(complex(v)) for v in vals][:12]} as "
                              f"'{form}': {text}", detail)

    def scal(v):
        return complex(fn(v.real if v.imag == 0 else v))

    def agrees(got, held):
        got = np.asarray(got)
        if not held:
            return got.size == 0 or (not strict_shape and got.shape == ())
        try:
            ref = np.array([scal(complex(v)) for v in held])
        except Exception as e:
            report(f"raises-{type(e).__name__}", "scalar", f"the scalar call raised {e!r}")
            return True
        flat = np.broadcast_to(got, (len(held),)) if got.shape == () and not strict_shape else got.reshape(-1)
        return flat.shape == ref.shape and all(_cclose(g, r, 1e-10, max(abs(r), 1e-3)) for g, r in zip(flat, ref))

    if len(vals) < 2:
        return
    rot = list(vals[1:]) + list(vals[:1])
    for form, arg, held, owner in _arg_forms(vals, kind):
        is_arr = isinstance(arg, np.ndarray)
        before = np.array(owner, copy=True) if is_arr else owner
        try:
            r1 = fn(arg)
            first = copy.deepcopy(r1)
            untouched = (not is_arr) or (_same(owner, before) and owner.dtype == before.dtype)
            r2 = fn(arg) if untouched else None
        except Exception as e:
            report(f"raises-{type(e).__name__}", form, f"raised {e!r}")
            continue
        sh.count("evaluations")
        sh.cls(f"form:{kind}:{form}")
        if not untouched:
            report("modifies-its-argument", form,
                   f"the caller's array held {np.asarray(before).reshape(-1).tolist()[:8]} before the call and holds "
                   f"{np.asarray(owner).reshape(-1).tolist()[:8]} after it: a caller that keeps its grid of arguments for a second "
                   "call (another maturity) no longer evaluates at its arguments",
                   {"before": np.asarray(before).reshape(-1).tolist()[:12], "after": np.asarray(owner).reshape(-1).tolist()[:12]})
            continue
        if strict_shape and np.shape(r1) != np.shape(arg):
            report("array-argument-differs-from-scalar-arguments", form, f"answer of shape {np.shape(r1)} for an argument of shape "
                                                                         f"{np.shape(arg)}")
            continue
        if not agrees(r1, held):
            report("array-argument-differs-from-scalar-arguments", form,
                   f"gives {np.asarray(r1).reshape(-1).tolist()[:8]}, argument by argument "
                   f"{[scal(complex(v)) for v in held][:8]}",
                   {"form_call": np.asarray(r1).reshape(-1).tolist()[:12], "scalar_calls": [scal(complex(v)) for v in held][:12]})
            continue
        if not _same(r2, first):
            report("second-call-on-the-kept-argument-differs", form,
                   f"first call {np.asarray(first).reshape(-1).tolist()[:6]}, second call with the same (unchanged) object "
                   f"{np.asarray(r2).reshape(-1).tolist()[:6]}")
            continue
        if not (is_arr and arg.flags.writeable and arg.size):
            continue
        # the caller re-uses its buffer for other arguments
        new = rot[:arg.size]
        try:
            _fill(arg, new)
            if not _same(r1, first):
                report("result-aliases-the-callers-array", form,
                       "the answer of the first call changed when the caller overwrote its argument array afterwards")
                continue
            r3 = fn(arg)
            fresh = fn(np.array(arg, copy=True))
            _fill(arg, held)
            r4 = fn(arg)
        except Exception as e:
            report(f"raises-{type(e).__name__}", form, f"after the caller overwrote its array: raised {e!r}")
            continue
        sh.count("evaluations")
        if not (_same(r3, fresh) and agrees(r3, [complex(v) for v in new]) and _same(r4, first)):
            report("answer-for-an-overwritten-array-is-stale", form,
                   f"array overwritten in place with {[_ulabel(complex(v)) for v in new][:8]}: answer "
                   f"{np.asarray(r3).reshape(-1).tolist()[:6]}, a fresh array of the same values gives "
                   f"{np.asarray(fresh).reshape(-1).tolist()[:6]}; old values written back: {np.asarray(r4).reshape(-1).tolist()[:6]}, "
                   f"first call {np.asarray(first).reshape(-1).tolist()[:6]}")
    if large:
        dt = float if kind != "complex" else complex
        reps = -(-large // len(vals))
        arr = np.tile(np.array([complex(v) if dt is complex else complex(v).real for v in vals], dtype=dt), reps)[:large]
        arr = arr + (np.arange(large) % 1013) * (1.0 / 4096.0)  # exact binary ramp added to the real part
        keep = arr.copy()
        try:
            r1 = np.asarray(fn(arr))
            chunks = np.concatenate([np.asarray(fn(arr[k:k + 1000].copy())).reshape(-1) for k in range(0, large, 1000)])
            pos = [0, 1, large // 2, large - 2, large - 1]
            sca = [scal(complex(keep[k])) for k in pos]
        except Exception as e:
            report(f"raises-{type(e).__name__}", "array-large", f"{large} points: raised {e!r}")
            return
        sh.count("evaluations")
        sh.cls(f"form:{kind}:array-large")
        if not _same(arr, keep):
            report("modifies-its-argument", "array-large", f"{large} points: the caller's array was changed by the call")
        elif r1.shape != arr.shape or not all(_cclose(r1[k], s, 1e-10, max(abs(s), 1e-3)) for k, s in zip(pos, sca)) \
                or not np.allclose(r1, chunks, rtol=1e-10, atol=1e-13, equal_nan=True):
            worst = int(np.argmax(np.abs(r1.reshape(-1)[:chunks.size] - chunks))) if r1.size == chunks.size else -1
            report("array-argument-differs-from-scalar-arguments", "array-large",
                   f"{large} points: differs from the evaluation in chunks of 1000 / from scalar calls (largest difference at "
                   f"index {worst})")


def _density_forms(sh, spec, model, kl):
    """The density of the Levy measure (the oracle of every sub-check reads it at Python floats) answers the same for the other
    scalar forms of the same point: Python int, numpy float / int scalar, 0-d array; and nu(-0.0) = nu(0.0). Arrays of points
    are not in the alphabet (the unchanged densities of HEM / VG / CGMY compare `x < 0` and reject them)."""
    nu = model.levy_triplet.nu
    comp = type(nu).__name__.lstrip("_") + ".__call__"
    for x in (1.0, -1.0, 2.0, -3.0):
        try:
            ref = float(nu(x))
        except Exception:
            return
        for form, arg in (("python-int", int(x)), ("numpy-scalar", np.float64(x)), ("numpy-int", np.int64(x)),
                          ("array-0-d", np.array(x))):
            try:
                got = float(nu(arg))
            except Exception as e:
                sh.violation(f"C10:exponent:{comp}:raises-{type(e).__name__}:{kl}:{form}", f"nu({arg!r}) raised {e!r}", None)
                continue
            sh.count("evaluations")
            if not core.close(got, ref, rtol=1e-13, atol=0.0):
                sh.violation(f"C10:exponent:{comp}:argument-form-changes-the-density:{kl}:{form}",
                             f"{A.model_label(spec)}: nu({arg!r}) = {got!r} as {form}, nu({x!r}) = {ref!r}", None)
    try:
        zp, zm = float(nu(0.0)), float(nu(-0.0))
        sh.count("evaluations")
        if not (zp == zm or (math.isnan(zp) and math.isnan(zm))):
            sh.violation(f"C10:exponent:{comp}:argument-form-changes-the-density:{kl}:minus-zero",
                         f"{A.model_label(spec)}: nu(0.0) = {zp!r}, nu(-0.0) = {zm!r}", None)
    except Exception:
        pass


def _exponent_exp(sh, case):
    spec = case["model"]
    model = _build(sh, spec)
    if model is None:
        return
    twin = _make(spec)
    a, sigma, nu, rep, fv = _triplet(model)
    kl = _klass(spec, model)
    comp = type(model).__name__ + ".log_characteristic_function"
    _common_classes(sh, spec, model, rep, fv)
    dec = _decays(spec, model)
    rtol = _rtol(fv)
    r, d = float(model.r), float(model.d)
    # DESIGN section 9 item 22 (observation only): levy_exponent on the exponential classes
    try:
        model.levy_exponent(0.4)
        sh.cls("exp-levy_exponent:callable")
    except Exception as e:
        sh.cls("exp-levy_exponent:raises")
        sh.note(f"{type(model).__name__}.levy_exponent(0.4) raises {type(e).__name__} (levy_exponent_pure_jump is not "
                "defined on the exponential class); observed through log_characteristic_function instead")
    psi1, err1 = _psi_ref(a, sigma, nu, rep, fv, -1j)
    if not (err1 <= ATOL + rtol * max(abs(psi1), 1e-3)):
        sh.count("oracle_inconclusive")
        return
    w_ref = -psi1.real
    rows = []
    for u in _u_list():
        if not _admissible(u, dec):
            sh.count("argument_outside_strip")
            continue
        psi, err = _psi_ref(a, sigma, nu, rep, fv, u)
        expo = 1j * u * (r - d + w_ref) + psi
        if not (err + abs(u) * err1 <= ATOL + rtol * max(abs(expo), 1e-3)):
            sh.count("oracle_inconclusive")
            continue
        arg = u.real if u.imag == 0 else u
        for t in (0.5, 1.0):
            ref = np.exp(t * expo)
            try:
                got = complex(model.log_characteristic_function(t, arg, log_spot=0.0))
                got2 = complex(twin.log_characteristic_function(t, arg, log_spot=0.0))
            except Exception as e:
                sh.violation(f"C10:exponent:{comp}:raises-{type(e).__name__}:{kl}",
                             f"log_characteristic_function({t},{arg}) raised {e!r}", {"u": _ulabel(u)})
                continue
            if got != got2:
                sh.violation("NONDETERMINISM", f"log_characteristic_function differs on two fresh models: {got} vs {got2}", None)
            sh.count("evaluations")
            # relative error of exp(t*expo) is t*|error of expo|
            ok = _cclose(got, ref, rtol * max(1.0, t * abs(expo)) * 4)
            rows.append({"u": _ulabel(u), "t": t, "lib": got, "ref": complex(ref), "ok": ok})
            if not ok:
                sh.violation(
                    f"C10:exponent:{comp}:differs-from-levy-khintchine:{kl}",
                    f"{A.model_label(spec)}: E[exp(i u log(S_t/S_0))] at u={_ulabel(u)}, t={t} is {got}; from the triplet by "
                    f"quadrature {complex(ref)}",
                    {"declared": rep, "a": a, "sigma": sigma, "omega_lib": complex(model.omega).real, "omega_ref": w_ref},
                )
    # u = 0 (tie): E[exp(i 0 log S_t)] = 1
    try:
        one = complex(model.log_characteristic_function(1.0, 0.0))
        sh.count("evaluations")
        if not abs(one - 1.0) <= 1e-10:  # same cancellation as psi(0) above
            sh.violation(f"C10:exponent:{comp}:not-one-at-zero:{kl}", f"{A.model_label(spec)}: log_characteristic_function(1, 0.0) = {one}", None)
    except Exception as e:
        sh.violation(f"C10:exponent:{comp}:raises-{type(e).__name__}:{kl}:u=0", f"log_characteristic_function(1, 0.0) raised {e!r}", None)
    # the forms in which the arguments can be handed over (what the COS / FFT pricers and the calibration do: real grids,
    # complex damped grids, keywords), and what happens to the caller's arrays
    where = A.model_label(spec)
    cname = type(model).__name__
    large = LARGE_N[case.get("large")] if case.get("large") else 0
    us_c = [u for u in _u_list() if _admissible(u, dec)]
    us_r = [u for u in us_c if u.imag == 0] + [0j]
    us_i = [complex(v) for v in U_INTS]
    lcf = model.log_characteristic_function
    for kind, vals in (("real", us_r), ("complex", us_c), ("int", us_i)):
        _contract(sh, "exponent", comp, kl, "log_characteristic_function(1.0, ., log_spot=0.0)",
                  lambda x: lcf(1.0, x, log_spot=0.0), vals, kind, where, large=large)
        _contract(sh, "exponent", comp, kl + ":keywords", "log_characteristic_function(t=2.0, x=.)",
                  lambda x: lcf(t=2.0, x=x), vals, kind, where, large=large if kind == "complex" else 0)
        _contract(sh, "exponent", comp, kl + ":default-log-spot", "log_characteristic_function(0.5, .)",
                  lambda x: lcf(0.5, x), vals, kind, where)
    for kind, vals in (("real", T_VALS), ("int", T_INTS)):
        tv = [complex(v) for v in vals]
        _contract(sh, "exponent", comp, kl + ":times", "log_characteristic_function(., -1j)", lambda t: lcf(t, -1j), tv, kind, where)
        _contract(sh, "exponent", comp, kl + ":times", "log_characteristic_function(t=., x=0.7, log_spot=0.0)",
                  lambda t: lcf(t=t, x=0.7, log_spot=0.0), tv, kind, where)
        if hasattr(model, "mean"):
            _contract(sh, "exponent", cname + ".mean", kl + ":times", "mean(.)", model.mean, tv, kind, where)
    if rows:
        sh.nontriv()
        sh.outcome([(x["u"], x["t"], round(x["lib"].real, 9), round(x["lib"].imag, 9)) for x in rows])


# ----------------------------------------------------------------------------------------------------------------------
# (b) cumulants
# ----------------------------------------------------------------------------------------------------------------------

def _sub_cumulant(sh, case):
    spec = case["model"]
    model = _build(sh, spec)
    if model is None:
        return
    a, sigma, nu, rep, fv = _triplet(model)
    kl = _klass(spec, model)
    comp = type(model.cumulant).__name__.lstrip("_")
    _common_classes(sh, spec, model, rep, fv)
    c = O.cutoff(rep, fv)
    rtol = _rtol(fv)
    obs = []
    # reference cumulants from the triplet
    refs = {}
    # k1 = a + int x (1 - c_R(x)) nu
    if rep == "CENTER":
        refs[1] = (a, 0.0)
    elif rep == "ZERO" or (rep == "TILDE" and fv):
        v, e = _int(nu, -INF, INF, 1)
        refs[1] = (a + v, e)
    else:
        v1, e1 = _int(nu, -INF, -1.0, 1)
        v2, e2 = _int(nu, 1.0, INF, 1)
        refs[1] = (a + v1 + v2, e1 + e2)
    for n in range(2, 7):
        v, e = _int(nu, -INF, INF, n)
        refs[n] = (v + (sigma ** 2 if n == 2 else 0.0), e)
    k2scale = max(abs(refs[2][0]), 1e-300)
    for n in range(1, 7):
        fn = getattr(model.cumulant, f"cumulant{n}", None)
        for t in (1.0, 0.5):
            try:
                got = _re(fn(t))
            except NotImplementedError:
                sh.count("cumulant_not_stated")
                break
            ref, err = refs[n]
            ref, err = ref * t, err * t
            # natural magnitude of the n-th cumulant: for n = 1 the drift and the jump mean may cancel, use sqrt(k2) too
            scale = max(abs(ref), abs(got), (abs(a) + math.sqrt(k2scale)) * t if n == 1 else 0.0)
            if not (err <= ATOL + rtol * scale):
                sh.count("oracle_inconclusive")
                continue
            sh.count("evaluations")
            sh.cls(f"cumulant{n}")
            obs.append((n, t, round(got, 12)))
            if not core.close(got, ref, rtol=rtol, atol=ATOL, scale=scale):
                sh.violation(
                    f"C10:cumulant:{comp}.cumulant{n}:differs-from-triplet:{kl}",
                    f"{spec}: cumulant{n}({t}) = {got!r}, from the triplet (a={a}, sigma={sigma}, {rep}) and the density: {ref!r}",
                    {"n": n, "t": t, "lib": got, "ref": ref, "quad_err": err, "declared": rep},
                )
    # the maturity handed over in its other forms (int, numpy scalars, arrays of maturities), and the caller's array left alone
    for n in range(1, 7):
        fn = getattr(model.cumulant, f"cumulant{n}", None)
        try:
            fn(1.0)
        except NotImplementedError:
            continue
        except Exception:
            continue  # reported above
        for kind, vals in (("real", T_VALS), ("int", T_INTS)):
            # (a cumulant that is identically zero may answer a scalar 0.0 for an array of maturities: broadcastable, accepted)
            _contract(sh, "cumulant", f"{comp}.cumulant{n}", kl, f"cumulant{n}(.)", fn, [complex(v) for v in vals], kind,
                      A.model_label(spec), strict_shape=False)
    # k1, k2 as derivatives of the library's own exponent at zero (Richardson-extrapolated central differences)
    try:
        def psi(x):
            return complex(model.levy_exponent(x))

        def d1(h):
            return ((psi(h) - psi(-h)) / (2j * h)).real

        def d2(h):
            return (-(psi(h) + psi(-h) - 2 * psi(0.0)) / (h * h)).real

        h = 0.02
        k1_fd = (4 * d1(h / 2) - d1(h)) / 3
        k2_fd = (4 * d2(h / 2) - d2(h)) / 3
        for n, fd in ((1, k1_fd), (2, k2_fd)):
            try:
                got = _re(getattr(model.cumulant, f"cumulant{n}")(1.0))
            except NotImplementedError:
                continue
            scale = max(abs(got), abs(fd), abs(a) + math.sqrt(k2scale) if n == 1 else k2scale)
            sh.count("evaluations")
            obs.append(("fd", n, round(fd, 7)))
            if not core.close(got, fd, rtol=1e-6, atol=1e-10, scale=scale):
                sh.violation(
                    f"C10:cumulant:{comp}.cumulant{n}:not-the-derivative-of-the-exponent-at-zero:{kl}",
                    f"{spec}: cumulant{n}(1) = {got!r} but the {'first' if n == 1 else 'second'} derivative of levy_exponent at 0 "
                    f"gives {fd!r}",
                    {"n": n, "lib": got, "finite_difference": fd},
                )
    except Exception as e:  # the exponent itself failing is reported by the exponent sub-check
        sh.note(f"finite-difference cumulants skipped for {spec['family']}: {type(e).__name__}")
    if obs:
        sh.nontriv()
        sh.outcome(obs)


# ----------------------------------------------------------------------------------------------------------------------
# (c) representation changes: explicit-state search
# ----------------------------------------------------------------------------------------------------------------------

_AB = {  # c_R(x) = alpha 1{|x|<1} + beta 1{|x|>=1}
    "ZERO": (0.0, 0.0),
    "CENTER": (1.0, 1.0),
    "ONEONE": (1.0, 0.0),
}


def _ab(rep, fv):
    if rep == "TILDE":
        return (0.0, 0.0) if fv else (1.0, 0.0)
    return _AB[rep]


def _int_abs(nu, a_, b_, n):
    """(int_a^b x^n nu, error estimate, int_a^b |x|^n nu): the last one is the natural magnitude for tolerances when the
    two half-lines cancel (symmetric densities)."""
    val = err = mag = 0.0
    for lo_, hi_ in ((a_, min(b_, 0.0)), (max(a_, 0.0), b_)):
        if lo_ < hi_:
            v, e = _int(nu, lo_, hi_, n)
            val += v
            err += e
            mag += abs(v)
    return val, err, mag


def _x_integrals(nu, trunc, need_inner):
    """(int_{|x|<1} x nu, err, int |x| nu), (int_{|x|>=1} x nu, err, int |x| nu) of the density restricted to the
    truncation interval."""
    lo, hi = (-INF, INF) if trunc is None else (float(trunc[0]), float(trunc[1]))
    inner = (0.0, 0.0, 0.0)
    if need_inner:
        a_, b_ = max(lo, -1.0), min(hi, 1.0)
        if a_ < b_:
            inner = _int_abs(nu, a_, b_, 1)
    tv = te = tm = 0.0
    if lo < -1.0:
        v, e = _int(nu, lo, -1.0, 1)
        tv += v
        te += e
        tm += abs(v)
    if hi > 1.0:
        v, e = _int(nu, 1.0, hi, 1)
        tv += v
        te += e
        tm += abs(v)
    return inner, (tv, te, tm)


def _sub_repr(sh, case):
    from rpylib.model.levymodel.levymodel import LevyRepresentation

    spec = case["model"]
    trunc = case.get("trunc")
    depth = int(case.get("depth", 6))
    probe = _build(sh, spec)
    if probe is None:
        return
    a0, sigma, nu0, rep0, fv = _triplet(probe)
    kl = _klass(spec, probe)
    comp = "LevyTriplet.set_representation"
    _common_classes(sh, spec, probe, rep0, fv)
    sh.cls("truncation:" + ("none" if trunc is None else "yes"))
    rtol = _rtol(fv)
    tkey = "untruncated" if trunc is None else "truncated"
    admissible = [r for r in REPS if (r != "ZERO" or fv)]
    inner, tail = _x_integrals(nu0, trunc, need_inner=fv)
    x_scale = inner[2] + tail[2] + abs(a0) + 1e-300
    psi_probe = None if trunc is not None else complex(getattr(probe, "levy_model", probe).levy_exponent(1.3))

    def stable(m):
        """Quantities that no representation change may move: the stated mean rate of the process, and for an exponential
        model the forward from the characteristic function at -i, omega and the drift of the direct simulation (all written
        in the representation of construction)."""
        out = {}
        try:
            out["cumulant1"] = complex(m.cumulant.cumulant1(1.0))
        except NotImplementedError:
            pass
        if spec.get("exp"):
            out["log_characteristic_function(1,-i)"] = complex(m.log_characteristic_function(1.0, -1j))
            out["omega"] = complex(m.omega)
            out["drift"] = complex(m.drift())
            if spec["family"] in ("bs", "hem", "merton"):
                out["process_drift"] = complex(m.process_drift())
        return out

    stable_probe = stable(probe) if trunc is None else {}

    obs = {}  # history -> (representation name, drift)
    registry = {r: [] for r in REPS}  # representation -> representative drifts seen (one expected)

    def build(hist):
        m = _make(spec)
        if trunc is not None:
            m.truncate_levy_measure(tuple(float(x) for x in trunc))
        for ev in hist:
            m.levy_triplet.set_representation(LevyRepresentation[ev])
        tr = m.levy_triplet
        obs[tuple(hist)] = (getattr(tr.representation, "name", str(tr.representation)), float(tr.a))
        return m

    def menu(obj, hist):
        return list(admissible)

    def canon(obj, hist):
        rep, a = obs[tuple(hist)]
        reps = registry.setdefault(rep, [])
        for i, v in enumerate(reps):
            if core.close(a, v, rtol=1e-9, atol=1e-13, scale=max(abs(a), abs(v), x_scale)):
                return (rep, i)
        reps.append(a)
        return (rep, len(reps) - 1)

    def invariant(obj, hist, ev):
        rep, a = obs[tuple(hist)]
        if ev is None:
            return None
        prep, pa = obs[tuple(hist[:-1])]
        sh.count("evaluations")
        if rep != ev:
            sh.violation(f"C10:representation:{comp}:representation-not-set:{kl}",
                         f"after set_representation({ev}) the triplet declares {rep}", {"history": hist})
            return None
        (al1, be1), (al2, be2) = _ab(prep, fv), _ab(rep, fv)
        need_i, need_t = al2 != al1, be2 != be1
        ref = pa + (al2 - al1) * inner[0] + (be2 - be1) * tail[0]
        err = (inner[1] if need_i else 0.0) + (tail[1] if need_t else 0.0)
        scale = max(abs(a), abs(pa), inner[2] if need_i else 0.0, tail[2] if need_t else 0.0)
        if not (err <= ATOL + rtol * scale):
            sh.count("oracle_inconclusive")
        elif not core.close(a, ref, rtol=rtol, atol=ATOL, scale=scale):
            sh.violation(
                f"C10:representation:{comp}:drift-change-is-not-the-integral:{kl}:{prep}-to-{rep}:{tkey}",
                f"{spec} trunc={trunc}: {prep} (a={pa!r}) -> {rep}: drift {a!r}, expected a + int x (c_{rep} - c_{prep}) nu = {ref!r}",
                {"history": hist, "from": [prep, pa], "to": [rep, a], "expected": ref,
                 "int_x_nu_inner": inner[0], "int_x_nu_tails": tail[0]},
            )
        if psi_probe is not None:
            now = complex(getattr(obj, "levy_model", obj).levy_exponent(1.3))
            if not _cclose(now, psi_probe, 1e-12):
                sh.violation(f"C10:representation:{comp}:exponent-changed-by-a-representation-change:{kl}",
                             f"levy_exponent(1.3) was {psi_probe}, is {now} after {hist}", {"history": hist})
            for name, was in stable_probe.items():
                is_ = stable(obj).get(name)
                sh.count("evaluations")
                if is_ is None or not _cclose(is_, was, 1e-12):
                    sh.violation(f"C10:representation:{comp}:{name.split('(')[0]}-changed-by-a-representation-change:{kl}",
                                 f"{spec}: {name} was {was}, is {is_} after {hist}", {"history": hist})
        return None

    if trunc is not None:
        # the truncation handed over in its other forms (the chain hands a tuple of numpy floats; list / array / Python ints
        # where integral): the same drifts along one history through every admissible representation. (The truncated measure
        # keeps the caller's object: a caller overwriting a list / array afterwards is outside the declared tuple type.)
        def drifts(tr_arg):
            m = _make(spec)
            m.truncate_levy_measure(tr_arg)
            out = []
            for ev in admissible + admissible[:1]:
                m.levy_triplet.set_representation(LevyRepresentation[ev])
                out.append(float(m.levy_triplet.a))
            return out

        lo_, hi_ = float(trunc[0]), float(trunc[1])
        forms = [("list", [lo_, hi_]), ("array", np.array([lo_, hi_])), ("numpy-scalars", (np.float64(lo_), np.float64(hi_))),
                 ("array-of-0-d", (np.array(lo_), np.array(hi_)))]
        if lo_.is_integer() and hi_.is_integer():
            forms.append(("python-ints", (int(lo_), int(hi_))))
        try:
            want = drifts((lo_, hi_))
            for form, tr_arg in forms:
                keep = copy.deepcopy(tr_arg)
                got = drifts(tr_arg)
                sh.count("evaluations")
                sh.cls("truncation-form:" + form)
                same_arg = np.array_equal(np.asarray(tr_arg, dtype=float), np.asarray(keep, dtype=float))
                if not same_arg or not all(core.close(g, w, rtol=1e-13, atol=1e-15, scale=x_scale) for g, w in zip(got, want)):
                    sh.violation(f"C10:representation:LevyModel.truncate_levy_measure:argument-form-changes-the-drifts:{kl}:{form}",
                                 f"{spec}: truncation {trunc} handed over as {form}: drifts {got} along {admissible + admissible[:1]}, "
                                 f"as a tuple of floats {want}" + ("" if same_arg else f"; the caller's object now holds {tr_arg!r}"), None)
        except Exception as e:
            sh.violation(f"C10:representation:LevyModel.truncate_levy_measure:raises-{type(e).__name__}:{kl}", repr(e)[:300], None)
    states, transitions, maxd = core.bfs(sh, build, menu, canon, invariant, depth=depth)
    sh.traces += transitions
    for rep in REPS:
        vals = registry.get(rep, [])
        if len(vals) > 1:
            sh.violation(
                f"C10:representation:{comp}:drift-depends-on-the-path:{kl}:{rep}:{tkey}",
                f"{spec} trunc={trunc}: representation {rep} is reached with {len(vals)} different drifts {vals[:4]} "
                f"(histories up to depth {depth})",
                {"drifts": vals[:8], "representation": rep},
            )
    if maxd >= depth:
        sh.note(f"representation search did not close within depth {depth} for {kl} ({tkey})")
    sh.outcome((states, transitions, sorted((r, [round(v, 10) for v in vs]) for r, vs in registry.items() if vs)))
    sh.nontriv()
    sh.sample({"sub": "repr", "model": spec, "trunc": trunc, "states": states, "transitions": transitions,
               "drifts": {r: vs for r, vs in registry.items() if vs}})


# ----------------------------------------------------------------------------------------------------------------------
# (d) martingale routes
# ----------------------------------------------------------------------------------------------------------------------

def _sub_mart_cf(sh, case):
    spec = case["model"]
    model = _build(sh, spec)
    if model is None:
        return
    a, sigma, nu, rep, fv = _triplet(model)
    kl = _klass(spec, model)
    cname = type(model).__name__
    _common_classes(sh, spec, model, rep, fv)
    r, d, s0 = float(model.r), float(model.d), float(model.spot)
    obs = []
    for t in (0.25, 1.0, 2.0, 0.0):  # 0.0 = the tie: E[S_0] = S0
        got = complex(model.log_characteristic_function(t, -1j))
        fwd = s0 * math.exp((r - d) * t)
        sh.count("evaluations")
        obs.append((t, round(got.real, 8)))
        if not _cclose(got, fwd, 1e-11):
            sh.violation(
                f"C10:martingale-cf:{cname}.log_characteristic_function:not-the-forward-at-minus-i:{kl}",
                f"{A.model_label(spec)}: log_characteristic_function({t}, -1j) = {got}, forward = {fwd!r}",
                {"t": t, "lib": got, "forward": fwd, "omega": complex(model.omega).real},
            )
        try:
            mean = complex(model.mean(t))
        except AttributeError:
            mean = None
        if mean is not None:
            sh.count("evaluations")
            if not _cclose(mean, math.exp((r - d) * t), 1e-11):
                sh.violation(f"C10:martingale-cf:{cname}.mean:not-the-forward-over-spot:{kl}",
                             f"{A.model_label(spec)}: mean({t}) = {mean}, exp((r-d)t) = {math.exp((r - d) * t)!r}", None)
    # -i handed over in its other forms; ONE complex grid kept by the caller for all the maturities (ascending, then descending)
    for form, arg in (("numpy-scalar", np.complex128(-1j)), ("array-0-d", np.array(-1j)), ("array-kept", np.array([-1j, -1j, 0j])),
                      ("keywords-array-kept", np.array([-1j, -1j, 0j]))):
        is_grid = form.endswith("array-kept")
        for t in (0.25, 1.0, 2.0, 1.0, 0.25):
            fwd = s0 * math.exp((r - d) * t)
            try:
                if form == "keywords-array-kept":
                    got = model.log_characteristic_function(t=t, x=arg)
                else:
                    got = model.log_characteristic_function(t, arg)
                vals = [complex(v) for v in np.asarray(got).reshape(-1)]
            except Exception as e:
                sh.violation(f"C10:martingale-cf:{cname}.log_characteristic_function:raises-{type(e).__name__}:{kl}:{form}",
                             f"log_characteristic_function({t}, {arg!r}) raised {e!r}", None)
                break
            sh.count("evaluations")
            ok = _cclose(vals[0], fwd, 1e-11) and (not is_grid or (len(vals) == 3 and _cclose(vals[1], fwd, 1e-11)
                                                                    and _cclose(vals[2], 1.0, 1e-10)))
            changed = (is_grid and arg.tolist() != [-1j, -1j, 0j]) or (form == "array-0-d" and complex(arg) != -1j)
            if not ok or changed:
                fc = "not-the-forward-at-minus-i" if not ok else "modifies-its-argument"
                sh.violation(
                    f"C10:martingale-cf:{cname}.log_characteristic_function:{fc}:{kl}:{form}",
                    f"{A.model_label(spec)}: log_characteristic_function({t}, .) with -i handed over as {form} = {vals}, forward = "
                    f"{fwd!r}; the caller's object now holds {np.asarray(arg).tolist()}", {"t": t, "lib": vals, "forward": fwd})
                break
    # the same under the exact jump law: omega must be -psi(-i) of the declared triplet
    rtol = _rtol(fv)
    psi1, err = _psi_ref(a, sigma, nu, rep, fv, -1j)
    w_c = complex(model.omega)
    w = w_c.real
    scale = max(abs(psi1), abs(w), abs(a), 0.5 * sigma ** 2)
    if not (err <= ATOL + rtol * scale):
        sh.count("oracle_inconclusive")
    else:
        sh.count("evaluations")
        obs.append(("omega", round(w, 10)))
        if not _cclose(w_c, -psi1.real, rtol, scale) or abs(psi1.imag) > ATOL + rtol * scale:
            sh.violation(
                f"C10:martingale-cf:{cname}.omega:not-minus-psi-of-the-triplet-at-minus-i:{kl}",
                f"{A.model_label(spec)}: omega = {w!r} but -psi(-i) of the declared triplet (a={a}, sigma={sigma}, {rep}) by "
                f"quadrature is {-psi1.real!r}: E[S_1] = forward * {math.exp(w + psi1.real)!r} under the exact jump law",
                {"omega": w, "minus_psi_ref": -psi1.real, "quad_err": err, "declared": rep},
            )
    sh.nontriv()
    sh.outcome(obs)


def _sub_mart_direct(sh, case):
    from rpylib.process.levyprocess import LevyProcess

    spec = case["model"]
    model = _build(sh, spec)
    if model is None:
        return
    a, sigma, nu, rep, fv = _triplet(model)
    kl = _klass(spec, model)
    cname = type(model).__name__
    _common_classes(sh, spec, model, rep, fv)
    proc = LevyProcess(model)
    pre = case.get("pre_reps") or []
    if pre:
        # the representation of the model is changed (before and after the process object exists) and the process is used
        from rpylib.model.levymodel.levymodel import LevyRepresentation

        if "ZERO" in pre and not fv:
            sh.count("representation_outside_alphabet")
            return
        model.levy_triplet.set_representation(LevyRepresentation[pre[0]])
        proc = LevyProcess(model)
        for ev in pre[1:]:
            model.levy_triplet.set_representation(LevyRepresentation[ev])
        a, sigma, nu, rep, fv = _triplet(model)
        kl += ":after-" + "-".join(pre)
        sh.cls("direct-after-representation-history:" + ">".join(pre))
    times = np.array([0.0, 1.0, 2.5])
    path = np.array([_re(v) for v in np.asarray(proc.deterministic_path(times)).reshape(-1)])
    if times.tolist() != [0.0, 1.0, 2.5]:
        sh.violation(f"C10:martingale-direct:LevyProcess.deterministic_path:modifies-its-argument:{kl}",
                     f"{A.model_label(spec)}: the caller's array of dates [0.0, 1.0, 2.5] holds {times.tolist()} after the call", None)
        times = np.array([0.0, 1.0, 2.5])
    x0 = _re(model.x0_value())
    pd = _re(proc.process_drift())
    if math.isnan(pd) or math.isnan(x0):
        sh.violation(f"C10:martingale-direct:{cname}.process_drift:not-a-real-number:{kl}",
                     f"{spec}: x0_value() = {model.x0_value()!r}, process_drift() = {proc.process_drift()!r}", None)
        return
    sh.count("evaluations")
    if not all(core.close(path[k], x0 + pd * times[k], rtol=1e-14, atol=1e-15, scale=max(1.0, abs(x0))) for k in range(3)):
        sh.violation(f"C10:martingale-direct:LevyProcess.deterministic_path:not-x0-plus-drift-times-t:{kl}",
                     f"deterministic_path({times.tolist()}) = {path.tolist()}, x0={x0}, process_drift={pd}", None)
    slope = float((path[2] - path[0]) / 2.5)
    diff_coef = _re(model.diffusion_coefficient())
    rtol = 1e-9
    obs = [round(pd, 12)]
    if spec.get("exp"):
        if not core.close(x0, math.log(float(model.spot)), rtol=1e-15):
            sh.violation(f"C10:martingale-direct:{cname}.x0_value:not-log-spot:{kl}", f"x0 = {x0}", None)
        lk, err = _lk(nu, -1j, "ZERO", True)  # int (e^x - 1) nu(dx)
        r, d = float(model.r), float(model.d)
        lhs = slope + 0.5 * diff_coef ** 2 + lk.real
        scale = max(abs(slope), 0.5 * diff_coef ** 2, abs(lk.real), abs(r - d))
        if not (err <= ATOL + rtol * scale):
            sh.count("oracle_inconclusive")
        else:
            sh.count("evaluations")
            if not core.close(lhs, r - d, rtol=rtol, atol=ATOL, scale=scale):
                sh.violation(
                    f"C10:martingale-direct:{cname}.process_drift:discounted-spot-not-a-martingale:{kl}",
                    f"{A.model_label(spec)}: process_drift = {slope!r}; process_drift + sigma^2/2 + int (e^x-1) nu = {lhs!r} but "
                    f"r - d = {r - d!r}: direct simulation gives E[S_T] = forward * exp({lhs - (r - d):.6g} T) "
                    f"(sigma^2/2 = {0.5 * diff_coef ** 2:.6g})",
                    {"process_drift": slope, "sigma": diff_coef, "int_exp_minus_1": lk.real, "r_minus_d": r - d,
                     "excess": lhs - (r - d)},
                )
    else:
        # Levy model simulated directly: drift + compound Poisson sum of the jumps => the drift of the ZERO representation
        al, be = _ab(rep, fv)
        inner, tail = _x_integrals(nu, None, need_inner=al != 0.0)
        ref = a - al * inner[0] - be * tail[0]
        err = (inner[1] if al else 0.0) + (tail[1] if be else 0.0)
        full, e2, fmag = _int_abs(nu, -INF, INF, 1)
        scale = max(abs(slope), abs(ref), fmag)
        if not (err <= ATOL + rtol * scale):
            sh.count("oracle_inconclusive")
        else:
            sh.count("evaluations")
            if not core.close(slope, ref, rtol=rtol, atol=ATOL, scale=scale) and pre and not LEVY_DIRECT_AFTER_REPR_IS_VIOLATION:
                # observation only (the statement speaks of the direct-simulation drift of EXPONENTIAL models): LevyModel.
                # process_drift() returns the live levy_triplet.a, i.e. follows the declared representation
                sh.cls("observation:levy-process_drift-follows-the-declared-representation")
                sh.note(f"{cname}.process_drift() = {slope!r} after set_representation{pre}; the drift of the triplet in the ZERO "
                        f"representation (what a drift + compound-Poisson simulation needs) is {ref!r}")
            elif not core.close(slope, ref, rtol=rtol, atol=ATOL, scale=scale):
                sh.violation(
                    f"C10:martingale-direct:{cname}.process_drift:not-the-drift-of-the-triplet:{kl}",
                    f"{spec}: direct simulation uses drift {slope!r} + sum of the jumps, but the triplet (a={a!r}, {rep}) has "
                    f"drift {ref!r} in the ZERO representation: simulated mean {slope + full!r} per unit time, cumulant1 "
                    f"says {_re(model.cumulant.cumulant1(1.0))!r}",
                    {"process_drift": slope, "zero_drift_of_triplet": ref, "int_x_nu": full},
                )
    # intensity of the compound Poisson part = total mass of the density
    try:
        lam = _re(model.intensity())
    except Exception:
        lam = None
    if lam is not None and math.isfinite(lam):
        mass, em = _int(nu, -INF, INF, 0)
        if em <= ATOL + rtol * max(abs(mass), abs(lam)):
            sh.count("evaluations")
            obs.append(round(lam, 12))
            if not core.close(lam, mass, rtol=rtol, atol=ATOL):
                sh.violation(f"C10:martingale-direct:{cname}.intensity:not-the-mass-of-the-density:{kl}",
                             f"{spec}: intensity() = {lam!r}, int nu = {mass!r}", None)
        else:
            sh.count("oracle_inconclusive")
    sh.nontriv()
    sh.outcome(obs)


class _Obj:
    pass


def _fake_product():
    """A product with deterministic payoff dates (the chain's initialisation only reads that flag): the library's own
    vanilla call on the spot; a minimal stand-in if its constructors change."""
    try:
        from rpylib.product.payoff import PayoffType, Vanilla
        from rpylib.product.product import Product
        from rpylib.product.underlying import Spot

        return Product(payoff_underlying=Spot(), payoff=Vanilla(strike=100.0, payoff_type=PayoffType.CALL), maturity=1.0)
    except Exception:
        from rpylib.product.payoff import PayoffDates

        prod = _Obj()
        prod.payoff = _Obj()
        prod.payoff.payoff_dates_type = PayoffDates.DETERMINISTIC
        prod.maturity = 1.0
        return prod


def _stochastic_dates_product():
    from rpylib.product.payoff import PayoffDates

    prod = _Obj()
    prod.payoff = _Obj()
    prod.payoff.payoff_dates_type = PayoffDates.STOCHASTIC
    prod.maturity = 1.0
    return prod


def _chain_reinitialisation(sh, spec, kl, mcp, model, pd, scale):
    """History on the chain process whose drift was just judged: `initialisation` again for the same product, for a product
    with path-dependent payoff dates (jump-time simulation), with a maximum step (the three simulation modes the engines
    select), after a second chain over the same grid kind was built and initialised for ANOTHER model; the drift used by the
    chain must stay the one that satisfies the martingale identity (none of these enters it)."""
    from rpylib.distribution.sampling import SamplingMethod
    from rpylib.process.markovchain.markovchain import MarkovChainProcess

    def other_chain():
        d = dict({k: v for k, v in spec.items() if k != "via"}, params=A.DONOR_PARAMS[spec["family"]], spot=80.0, r=0.04, d=0.015)
        m = _make(d)
        o = MarkovChainProcess(model=m, method=SamplingMethod.INVERSION, grid=A.make_grid({"kind": "fixed", "h": 0.1, "n": 5}, m))
        o.initialisation(_fake_product())

    menu = [
        ("initialisation-again", lambda: mcp.initialisation(_fake_product())),
        ("initialisation-for-stochastic-payoff-dates", lambda: mcp.initialisation(_stochastic_dates_product())),
        ("initialisation-with-a-maximum-step", lambda: mcp.initialisation(_fake_product(), 0.05)),
        ("initialisation-after-another-chain-was-built", lambda: (other_chain(), mcp.initialisation(_fake_product()))),
        ("initialisation-again", lambda: mcp.initialisation(_fake_product())),
    ]
    for label, op in menu:
        try:
            op()
            pd2 = _re(mcp.process_drift())
        except Exception as e:
            sh.violation(f"C10:martingale-chain:MarkovChainProcess.initialisation:raises-{type(e).__name__}:{kl}:{label}",
                         f"{A.model_label(spec)}: {label} raised {e!r}", None)
            return
        sh.count("evaluations")
        sh.cls("chain-history:" + label)
        if not core.close(pd2, pd, rtol=1e-13, atol=ATOL, scale=scale):
            sh.violation(
                f"C10:martingale-chain:MarkovChainProcess.process_drift:changed-by-{label}:{kl}",
                f"{A.model_label(spec)}: process_drift() was {pd!r} (judged against the martingale identity), is {pd2!r} after {label}",
                {"before": pd, "after": pd2},
            )
            return


def _sub_mart_chain(sh, case):
    from rpylib.distribution.sampling import SamplingMethod
    from rpylib.process.markovchain.markovchain import MarkovChainProcess

    spec = case["model"]
    gspec = case["grid"]
    model = _build(sh, spec)
    if model is None:
        return
    pre = case.get("pre_reps") or []
    if pre:
        # the caller changed the representation of the model before handing it to the chain (which works on a deep copy
        # converted to TILDE from whatever is declared at that moment)
        from rpylib.model.levymodel.levymodel import LevyRepresentation

        if "ZERO" in pre and not model.levy_triplet.nu.jump_of_finite_variation():
            sh.count("representation_outside_alphabet")
            return
        for ev in pre:
            model.levy_triplet.set_representation(LevyRepresentation[ev])
        sh.cls("chain-after-representation-history:" + ">".join(pre))
    a, sigma, nu, rep, fv = _triplet(model)
    kl = _klass(spec, model) + (":after-" + "-".join(pre) if pre else "")
    _common_classes(sh, spec, model, rep, fv)
    sh.cls("grid:" + gspec["kind"] + (":refined" if gspec.get("refine") else ""))
    r, d = float(model.r), float(model.d)
    grid = A.make_grid(gspec, model)
    axis = [float(x) for x in grid.axes[0]]
    origin = int(getattr(grid.origin_coordinate, "value", grid.origin_coordinate))
    lo, hi = axis[0], axis[-1]
    well_formed = (len(axis) >= 3 and 0 < origin < len(axis) - 1 and all(math.isfinite(x) for x in axis)
                   and all(x < y for x, y in zip(axis, axis[1:])) and axis[origin] == 0.0)
    if not well_formed:
        # e.g. CTMCUniformGrid when the model's truncation bound is within 2h of the origin: grid well-formedness is C13
        sh.count("grid_outside_alphabet")
        sh.cls("grid:degenerate-skipped")
        return
    mcp = MarkovChainProcess(model=model, method=SamplingMethod.INVERSION, grid=grid)
    mcp.initialisation(_fake_product())
    pd = _re(mcp.process_drift())
    if math.isnan(pd):
        sh.violation(f"C10:martingale-chain:MarkovChainProcess.process_drift:not-a-real-number:{kl}",
                     f"{A.model_label(spec)} on {gspec}: process_drift() = {mcp.process_drift()!r}", None)
        return
    # the original model must not have been touched by the chain (it works on a deep copy)
    a_after, _, _, rep_after, _ = _triplet(model)
    if (a_after, rep_after) != (a, rep):
        sh.violation(f"C10:martingale-chain:MarkovChainProcess:changes-the-callers-model:{kl}",
                     f"triplet was ({a}, {rep}), is ({a_after}, {rep_after}) after building the chain", None)
    rtol = _rtol(fv)
    # grid compensation recomputed from the axis and the density
    cells, central = O.ref_cells(axis, origin)
    mu_h = e_h = 0.0
    for x, cell in zip(axis, cells):
        if cell is None:
            continue
        v, e = _int(nu, cell[0], cell[1], 0)
        mu_h += x * v
        e_h += abs(x) * e
    v_cut = 0.0 if fv else 1.0
    mu_t = e_t = 0.0
    if lo < -v_cut:
        v, e = _int(nu, lo, -v_cut, 1)
        mu_t += v
        e_t += e
    if hi > v_cut:
        v, e = _int(nu, v_cut, hi, 1)
        mu_t += v
        e_t += e
    b = pd + mu_h - mu_t
    j_in, e_in = _lk(nu, -1j, "TILDE", fv, lo=lo, hi=hi)
    j_l, e_l = _lk(nu, -1j, rep, fv, lo=-INF, hi=lo)
    j_r, e_r = _lk(nu, -1j, rep, fv, lo=hi, hi=INF)
    lhs = b + 0.5 * sigma ** 2 + j_in.real
    rhs = (r - d) - (j_l.real + j_r.real)
    err = e_h + e_t + e_in + e_l + e_r
    scale = max(abs(pd), abs(mu_h), abs(mu_t), abs(j_in.real), 0.5 * sigma ** 2, abs(r - d), abs(j_l.real + j_r.real))
    if not (err <= ATOL + rtol * scale):
        sh.count("oracle_inconclusive")
        return
    sh.count("evaluations")
    sh.nontriv()
    sh.outcome((round(pd, 10), round(lhs, 10)))
    sh.sample({"sub": "mart-chain", "model": A.model_label(spec), "grid": gspec, "points": len(axis),
               "process_drift": pd, "mu_h": mu_h, "mu_tilde": mu_t, "lhs": lhs, "rhs": rhs})
    _chain_reinitialisation(sh, spec, kl, mcp, model, pd, scale)
    if not core.close(lhs, rhs, rtol=rtol, atol=ATOL, scale=scale):
        sh.violation(
            f"C10:martingale-chain:MarkovChainProcess.process_drift:discounted-spot-not-a-martingale:{kl}",
            f"{A.model_label(spec)} on {gspec}: chain drift before grid compensation b = {b!r}; b + sigma^2/2 + "
            f"int_T (e^x-1-x c~) nu = {lhs!r} but (r-d) - truncation effect = {rhs!r}: E[S_T] = forward * exp({lhs - rhs:.6g} T) "
            "under the exact jump law",
            {"process_drift": pd, "mu_h": mu_h, "mu_tilde": mu_t, "b": b, "lhs": lhs, "rhs": rhs, "excess": lhs - rhs,
             "truncation": [lo, hi], "declared": rep, "quad_err": err},
        )


# ----------------------------------------------------------------------------------------------------------------------
# (e) construction routes: the same parameter values must give the same model
# ----------------------------------------------------------------------------------------------------------------------

_ROUTE_X = [-2.0, -0.5, -0.1, -0.01, 0.01, 0.1, 0.5, 2.0]


def _observables(spec, model):
    """Public quantities of a model entering the property: triplet, density, exponent / characteristic function, cumulants,
    omega, simulation drift, intensity. name -> complex | str | None (None = raises)."""
    obs = {}
    tr = model.levy_triplet
    obs["triplet.a"] = complex(tr.a)
    obs["triplet.sigma"] = complex(tr.sigma)
    obs["triplet.representation"] = getattr(tr.representation, "name", str(tr.representation))
    obs["nu.finite_variation"] = str(bool(tr.nu.jump_of_finite_variation()))
    for x in _ROUTE_X:
        obs[f"nu({x:g})"] = complex(float(tr.nu(x)))
    dec = _decays(spec, model)
    for u in _u_list():
        if not _admissible(u, dec):
            continue
        arg = u.real if u.imag == 0 else u
        if spec.get("exp"):
            obs[f"log_characteristic_function(1,{_ulabel(u)})"] = complex(model.log_characteristic_function(1.0, arg, log_spot=0.0))
        else:
            obs[f"levy_exponent({_ulabel(u)})"] = complex(model.levy_exponent(arg))
    for n in range(1, 7):
        try:
            obs[f"cumulant{n}"] = complex(getattr(model.cumulant, f"cumulant{n}")(1.0))
        except NotImplementedError:
            obs[f"cumulant{n}"] = None
    for name in ("omega",):
        if hasattr(model, name):
            obs[name] = complex(getattr(model, name))
    for name in ("x0_value", "drift", "diffusion_coefficient", "process_drift", "intensity"):
        try:
            obs[name + "()"] = complex(np.asarray(getattr(model, name)()).reshape(-1)[0])
        except Exception:
            obs[name + "()"] = None
    return obs


def _sub_route(sh, case):
    spec = case["model"]
    model = _build(sh, spec)
    if model is None:
        return
    direct = _make({k: v for k, v in spec.items() if k != "via"})
    kl = _klass(spec, model)
    cname = type(model).__name__
    sh.cls("family:" + spec["family"] + (":exp" if spec.get("exp") else ""))
    got, ref = _observables(spec, model), _observables(spec, direct)
    if case.get("chain"):
        # ... and the drift of the Markov-chain approximation built on the model (fixed 5-point grid), and of the direct simulation
        from rpylib.distribution.sampling import SamplingMethod
        from rpylib.process.levyprocess import LevyProcess
        from rpylib.process.markovchain.markovchain import MarkovChainProcess

        for obs_, m in ((got, model), (ref, direct)):
            try:
                mcp = MarkovChainProcess(model=m, method=SamplingMethod.INVERSION, grid=A.make_grid({"kind": "fixed", "h": 0.1, "n": 5}, m))
                mcp.initialisation(_fake_product())
                obs_["MarkovChainProcess.process_drift()"] = complex(mcp.process_drift())
                obs_["MarkovChainProcess.deterministic_path(1.5)"] = complex(np.asarray(mcp.deterministic_path(np.array([1.5]))).reshape(-1)[0])
            except Exception:
                obs_["MarkovChainProcess.process_drift()"] = None
            if spec["family"] in ("hem", "merton"):
                try:
                    obs_["LevyProcess.deterministic_path(1.5)"] = complex(
                        np.asarray(LevyProcess(m).deterministic_path(np.array([1.5]))).reshape(-1)[0])
                except Exception:
                    obs_["LevyProcess.deterministic_path(1.5)"] = None
    if type(model) is not type(direct):
        sh.violation(f"C10:route:{cname}:another-class-than-the-directly-constructed-model:{kl}", f"{type(direct).__name__}", None)
    bad = []
    for name in ref:
        sh.count("evaluations")
        g, r = got.get(name), ref[name]
        if isinstance(r, complex) and isinstance(g, complex):
            both_inf = cmath.isinf(r) and g == r
            ok = both_inf or _cclose(g, r, 1e-12)
        else:
            ok = g == r
        if not ok:
            bad.append((name, g, r))
    sh.nontriv()
    sh.outcome((spec["family"], bool(spec.get("exp")), [(k, round(v.real, 9)) for k, v in sorted(ref.items())
                                                       if isinstance(v, complex) and math.isfinite(v.real)][:6]))
    if bad:
        name, g, r = bad[0]
        comp = name.split("(")[0]
        sh.violation(
            f"C10:route:{cname}.{comp}:differs-from-the-directly-constructed-model:{kl}",
            f"{A.model_label(spec)} reached through {spec['via']}: {name} = {g!r}, the model built directly from the same parameter "
            f"values has {r!r} ({len(bad)} of {len(ref)} quantities differ: {[b[0] for b in bad][:8]})",
            {"route": spec["via"], "differences": [{"quantity": b[0], "route": b[1], "direct": b[2]} for b in bad[:12]]},
        )


# ----------------------------------------------------------------------------------------------------------------------
# (f) histories of deterministic_path requests on one process object
# ----------------------------------------------------------------------------------------------------------------------

_T = 1.5
TIME_GRIDS = [
    ("uniform7", [0.0, 0.25, 0.5, 0.75, 1.0, 1.25, _T]),
    ("jumps7-a", [0.0, 0.1, 0.35, 0.36, 0.8, 1.2, _T]),       # same length, same end points: a jump-time grid
    ("jumps7-b", [0.0, 0.6, 0.7, 0.9, 1.0, 1.4, _T]),
    ("uniform7-T2", [0.0, 1 / 3, 2 / 3, 1.0, 4 / 3, 5 / 3, 2.0]),  # same length, same first date, other maturity
    ("late7", [0.3, 0.5, 0.7, 0.9, 1.1, 1.3, _T]),              # same length, same maturity, other first date
    ("ends2", [0.0, _T]),
    ("mid3-a", [0.0, 0.4 * _T, _T]),
    ("mid3-b", [0.0, 0.9 * _T, _T]),
    ("zero1", [0.0]),                                          # the two requests of Coupling*.next_level
    ("one1", [1.0]),
    ("T1", [_T]),
    ("empty", []),
]


def _history_process(spec, kind, gspec, donor=False):
    """(process, x0, drift read from a twin object) for the model of the spec (or, donor=True, for another model of the same
    class: other parameters, and for the exponential models other spot and rates)."""
    from rpylib.process.levyprocess import LevyProcess

    def model_():
        if not donor:
            return _make(spec)
        if spec["family"] == "pdiff":
            return _make(dict(spec, params={"mu": 0.07, "sigma": 0.1}))
        d = dict(spec, params=A.DONOR_PARAMS[spec["family"]])
        if spec.get("exp"):
            d.update(spot=80.0, r=0.04, d=0.015)
        return _make(d)

    def proc_():
        m = model_()
        if kind == "levy":
            return LevyProcess(m)
        from rpylib.distribution.sampling import SamplingMethod
        from rpylib.process.markovchain.markovchain import MarkovChainProcess

        p = MarkovChainProcess(model=m, method=SamplingMethod.INVERSION, grid=A.make_grid(gspec, m))
        p.initialisation(_fake_product())
        return p

    twin = proc_()
    return proc_(), _re(twin.model.x0_value()), _re(twin.process_drift())


def _sub_path_history(sh, case):
    """One process object asked for the deterministic part of the path on a history of time grids (what the Monte-Carlo
    engines do: one request per path, on the jump-time grid of that path for path-dependent products). The history
    g_i, g_j for every ordered pair (i, j) of TIME_GRIDS (so every grid follows every grid, itself included), then the
    same grids with a second process object of the same class (another model) asked for the same grid just before, then a
    caller's buffer overwritten in place (other dates, other end points) between two requests. Every answer must be x0 + process_drift * times of ITS grid
    (process_drift being tied to the martingale identity by mart-direct / mart-chain)."""
    spec, kind, gspec = case["model"], case["proc"], case.get("grid")
    probe = _build(sh, spec)
    if probe is None:
        return
    kl = _klass(spec, probe)
    sh.cls("family:" + spec["family"] + (":exp" if spec.get("exp") else ""))
    sh.cls("process:" + kind)
    proc, x0, pd = _history_process(spec, kind, gspec)
    other, x0o, pdo = _history_process(spec, kind, gspec, donor=True)
    comp = type(proc).__name__ + ".deterministic_path"
    sub = "martingale-direct" if kind == "levy" else "martingale-chain"
    if math.isnan(pd) or math.isnan(x0):
        return  # reported by mart-direct / mart-chain
    seen = set()

    def ask(p, x0_, pd_, label, times, fc, prev):
        arr = np.array(times, dtype=float)
        try:
            got = np.asarray(p.deterministic_path(arr))
        except Exception as e:
            key = f"C10:{sub}:{comp}:raises-{type(e).__name__}:{kl}:{label}"
            if key not in seen:
                seen.add(key)
                sh.violation(key, f"deterministic_path({times}) after {prev} raised {e!r}", None)
            return
        sh.count("evaluations")
        if arr.tolist() != [float(t) for t in times]:
            key = f"C10:{sub}:{comp}:modifies-its-argument:{kl}"
            if key not in seen:
                seen.add(key)
                sh.violation(key, f"{A.model_label(spec)}: deterministic_path was handed the dates {times} in an array that holds "
                                  f"{arr.tolist()} after the call", None)
            arr = np.array(times, dtype=float)
        ref = x0_ + pd_ * arr
        ok = got.shape == arr.shape and all(
            core.close(_re(g), r, rtol=1e-14, atol=1e-15, scale=max(1.0, abs(x0_))) for g, r in zip(got.reshape(-1), ref))
        if not ok:
            key = f"C10:{sub}:{comp}:{fc}:{kl}"
            if key not in seen:
                seen.add(key)
                sh.violation(
                    key,
                    f"{A.model_label(spec)}: ONE {type(p).__name__} asked for {prev} and then for the dates {label} = {times}: "
                    f"deterministic_path = {got.tolist()}, but x0 + process_drift * t = {ref.tolist()} (x0 = {x0_!r}, "
                    f"process_drift = {pd_!r}): the discounted spot is not a martingale at the intermediate dates",
                    {"previous": prev, "times": times, "got": got.tolist(), "expected": ref.tolist()},
                )

    grids = TIME_GRIDS
    # 1. every ordered pair on one object
    prev = "nothing"
    for li, gi in grids:
        for lj, gj in grids:
            ask(proc, x0, pd, li, gi, "depends-on-the-previous-request", prev)
            ask(proc, x0, pd, lj, gj, "depends-on-the-previous-request", li)
            prev = lj
    # 2. a second object of the same class asked for the same dates in between
    # (the object under test is first asked for a grid of a length that occurs nowhere else, so that a dependence on ITS OWN
    # previous request is not reported here)
    neutral = [0.0, 0.2, 0.9, _T]
    for li, gi in grids:
        ask(proc, x0, pd, "neutral4", neutral, "depends-on-the-previous-request", li)
        ask(other, x0o, pdo, "neutral4", neutral, "depends-on-the-previous-request", li)
        ask(other, x0o, pdo, li, gi, "depends-on-a-request-to-another-process-object", "requests to the object under test")
        ask(proc, x0, pd, li, gi, "depends-on-a-request-to-another-process-object", f"neutral4, and another object asked for {li}")
    # 3. the caller's array overwritten in place between two requests
    buf = np.array(grids[0][1], dtype=float)
    ask(proc, x0, pd, "buffer", buf.tolist(), "depends-on-the-identity-of-the-array", "mid3-a")
    for lj, gj in grids[3:5]:  # other end points: a memo keyed on the VALUES of the end points is not reported here
        buf[:] = gj
        try:
            got = np.asarray(proc.deterministic_path(buf))
            sh.count("evaluations")
            ref = x0 + pd * buf
            if not (got.shape == buf.shape and all(core.close(_re(g), r, rtol=1e-14, atol=1e-15, scale=max(1.0, abs(x0)))
                                                    for g, r in zip(got.reshape(-1), ref))):
                key = f"C10:{sub}:{comp}:depends-on-the-identity-of-the-array:{kl}"
                if key not in seen:
                    seen.add(key)
                    sh.violation(key, f"{A.model_label(spec)}: the same array object, overwritten in place with {lj}: "
                                 f"deterministic_path = {got.tolist()}, expected {ref.tolist()}", None)
        except Exception as e:
            sh.violation(f"C10:{sub}:{comp}:raises-{type(e).__name__}:{kl}:buffer", repr(e), None)
    # 4. the dates handed over in their other forms (integer dates, (1,n) / (n,1), strided view, read-only, 0-d, numpy / Python
    # scalars, keyword; one array beyond 2^16 dates), the caller's array left alone, kept arrays asked again, arrays overwritten
    # by the caller afterwards: x0 + process_drift * t is judged by the scalar calls (themselves compared just below)
    where = A.model_label(spec)
    for t in (0.0, 0.3, 1.0, 2.0):
        for form, arg in [("python-float", t), ("numpy-scalar", np.float64(t))] + ([("python-int", int(t))] if float(t).is_integer() else []):
            try:
                got = _re(proc.deterministic_path(arg))
                sh.count("evaluations")
                if not core.close(got, x0 + pd * t, rtol=1e-14, atol=1e-15, scale=max(1.0, abs(x0))):
                    sh.violation(f"C10:{sub}:{comp}:not-x0-plus-drift-times-t:{kl}:{form}",
                                 f"{where}: deterministic_path({arg!r}) = {got!r}, x0 + process_drift * t = {x0 + pd * t!r}", None)
            except Exception as e:
                sh.violation(f"C10:{sub}:{comp}:raises-{type(e).__name__}:{kl}:{form}", f"deterministic_path({arg!r}) raised {e!r}", None)
    large = LARGE_N[case.get("large")] if case.get("large") else 0
    for kind, vals in (("real", [0.0, 0.25, 0.5, 1.0, _T]), ("real", [0.3, 0.3, 0.9]), ("int", [0.0, 1.0, 2.0, 5.0])):
        tv = [complex(v) for v in vals]
        _contract(sh, sub, comp, kl, "deterministic_path(.)", proc.deterministic_path, tv, kind, where, large=large)
        _contract(sh, sub, comp, kl + ":keyword", "deterministic_path(times=.)", lambda t: proc.deterministic_path(times=t), tv, kind, where)
    # 5. copies of the process object (deepcopy: what Coupling*.next_level and the path managers keep; dill: what every pool chunk
    # of the engines receives; copy.copy) answer like the original, and the original like before
    import dill

    for how, make in (("deepcopy", copy.deepcopy), ("copy", copy.copy), ("dill", lambda o: dill.loads(dill.dumps(o)))):
        try:
            clone = make(proc)
        except Exception as e:
            sh.violation(f"C10:{sub}:{type(proc).__name__}:raises-{type(e).__name__}:{kl}:{how}", f"{how} of the process raised {e!r}", None)
            continue
        sh.cls("process-copy:" + how)
        for li, gi in (grids[1], grids[6], grids[8]):
            ask(clone, x0, pd, li, gi, f"differs-on-a-{how}-of-the-process", f"{how} of the process under test")
            ask(other, x0o, pdo, li, gi, "depends-on-a-request-to-another-process-object", f"a {how} of the object under test was asked")
            ask(proc, x0, pd, li, gi, f"differs-after-a-{how}-of-the-process-was-used", f"a {how} of it was asked for {li}")
    # the drift and the start value have not moved
    if not (core.close(_re(proc.process_drift()), pd, rtol=1e-15) and core.close(_re(proc.model.x0_value()), x0, rtol=1e-15)):
        sh.violation(f"C10:{sub}:{type(proc).__name__}.process_drift:changed-by-deterministic_path-requests:{kl}",
                     f"process_drift {pd!r} -> {proc.process_drift()!r}", None)
    sh.nontriv()
    sh.outcome((kind, round(x0, 10), round(pd, 12)))
    sh.sample({"sub": "path-history", "model": A.model_label(spec), "process": kind, "requests": 2 * len(grids) ** 2 + 2 * len(grids) + 5,
               "x0": x0, "process_drift": pd})


# ----------------------------------------------------------------------------------------------------------------------
# (g) the drifts of the multilevel coupling: every level keeps ITS fine and coarse drift, whatever was built afterwards
# ----------------------------------------------------------------------------------------------------------------------

def _sub_coupling_levels(sh, case):
    """The real CouplingMarkovChain driven as the multilevel engine drives it: initialisation, a path manager for level 0,
    then next_level twice (grid refined in place, new fine chain, the previous fine drift frozen as the coarse one through
    deterministic_path(zeros(1)) / deterministic_path(ones(1))). After EVERY step every path manager built so far is asked for
    the colliding time grids of TIME_GRIDS: level 0 must answer x0 + b_0 t, level l >= 1 the pair (x0 + b_l t, x0 + b_{l-1} t),
    where b_l is the drift of a chain built afresh on a fresh grid refined l times (the object mart-chain judges against the
    martingale identity)."""
    from rpylib.distribution.sampling import SamplingMethod
    from rpylib.montecarlo.path import MLMCPath
    from rpylib.process.coupling.couplingmarkovchain import CouplingMarkovChain
    from rpylib.process.markovchain.markovchain import MarkovChainProcess

    spec, gspec, depth = case["model"], case["grid"], int(case.get("depth", 2))
    model = _build(sh, spec)
    if model is None:
        return
    kl = _klass(spec, model)
    sh.cls("family:" + spec["family"] + (":exp" if spec.get("exp") else ""))
    product = _fake_product()
    x0 = _re(model.x0_value())

    def fresh_drift(level):
        m = _make(spec)
        mcp = MarkovChainProcess(model=m, method=SamplingMethod.INVERSION, grid=A.make_grid(dict(gspec, refine=level), m))
        mcp.initialisation(_fake_product())
        return _re(mcp.process_drift())

    try:
        cp = CouplingMarkovChain(model=model, method=SamplingMethod.INVERSION, grid=A.make_grid(dict(gspec, refine=0), model))
        if hasattr(product, "update"):
            product.update(cp.fine_process.process_representation)
        cp.initialisation(product)
        pms = [MLMCPath(deterministic_path=cp.fine_process.deterministic_path, activate_spot_underlying=False)]
    except Exception as e:
        sh.violation(f"C10:martingale-chain:CouplingMarkovChain:raises-{type(e).__name__}:{kl}", repr(e)[:300], None)
        return
    drifts = [fresh_drift(0)]
    grids = [g for g in TIME_GRIDS if g[0] in ("uniform7", "jumps7-a", "jumps7-b", "ends2", "mid3-a", "mid3-b", "zero1", "one1")]
    reported = set()

    def judge(step):
        for k, pm in enumerate(pms):
            want = [drifts[k]] if k == 0 else [drifts[k], drifts[k - 1]]
            for label, times in grids:
                arr = np.array(times, dtype=float)
                got = np.asarray(pm.deterministic_path(arr))
                sh.count("evaluations")
                if arr.tolist() != [float(t) for t in times]:
                    key = f"C10:martingale-chain:CouplingMarkovChain.next_level:deterministic-path-modifies-its-argument:{kl}"
                    if key not in reported:
                        reported.add(key)
                        sh.violation(key, f"{A.model_label(spec)}, after {step}: the path manager of level {k} was handed the dates "
                                          f"{times} in an array that holds {arr.tolist()} after the call", None)
                    arr = np.array(times, dtype=float)
                ref = np.array([x0 + b * arr for b in want]) if k else x0 + want[0] * arr
                ok = got.shape == ref.shape and all(
                    core.close(_re(g), r, rtol=1e-12, atol=1e-14, scale=max(1.0, abs(x0)))
                    for g, r in zip(got.reshape(-1), ref.reshape(-1)))
                if not ok:
                    which = "level-0" if k == 0 else "level-l"
                    key = f"C10:martingale-chain:CouplingMarkovChain.next_level:deterministic-path-of-{which}-is-not-x0-plus-its-drift-times-t:{kl}"
                    if key not in reported:
                        reported.add(key)
                        sh.violation(
                            key,
                            f"{A.model_label(spec)} on {gspec}, after {step}: the path manager of level {k} asked for {label} = {times} "
                            f"answers {got.tolist()}; x0 + drift * t with the drift(s) {want} of chains built afresh on the grid "
                            f"refined {k}{' / ' + str(k - 1) if k else ''} time(s) is {ref.tolist()}",
                            {"step": step, "level": k, "times": times, "got": got.tolist(), "expected": ref.tolist()},
                        )

    judge("initialisation")
    for level in range(1, depth + 1):
        try:
            cp.next_level(mc_paths=1, path_managers=pms, product=product)
        except Exception as e:
            sh.violation(f"C10:martingale-chain:CouplingMarkovChain.next_level:raises-{type(e).__name__}:{kl}",
                         f"level {level}: {e!r}"[:300], None)
            return
        drifts.append(fresh_drift(level))
        sh.cls(f"coupling-level:{level}")
        judge(f"next_level #{level}")
    sh.nontriv()
    sh.outcome([round(b, 11) for b in drifts])
    sh.sample({"sub": "coupling-levels", "model": A.model_label(spec), "grid": gspec, "drifts_per_level": drifts})
