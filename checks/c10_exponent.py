"""C10 - exponent, triplet, cumulants and simulation drifts describe one same process.

Everything below is a complete enumeration of a stated finite space; the oracle is always the Levy-Khintchine integral
of the model's OWN density (`levy_triplet.nu.__call__`), drift `levy_triplet.a`, `levy_triplet.sigma` and declared
`levy_triplet.representation`, evaluated by quadrature, never one of the library's closed forms.

Model lattice.  quick: the full 1-d lattice of DESIGN section 5 (HEM 2, Merton 2, VG 2, CGMY y in {-0.5,0,0.5,1,1.2,1.5} x
3 (c,g,m)) plus the EXTRA points below (y = -1.5 finite activity, 0.2, 0.8, 1.8; g > m; heavy right tail m = 1.5; one-sided
HEM p = 1; symmetric VG), pure diffusions, Black-Scholes; every exponential model with (r,d) in {(0.02,0),(0.05,0.02)}.
thorough: in addition the full parameter products of `_product_lattice` (54 HEM, 36 Merton, 36 VG, 50 CGMY).

 sub-check   space                                                      oracle
 ----------  ---------------------------------------------------------  -------------------------------------------------
 exponent    Levy models x arguments U                                  levy_exponent(u) = i u a - sigma^2 u^2/2
             U = {+-0.4, +-1.3, +-4} real, {-i, -2i, 0.7-0.5i,           + int (e^{iux} - 1 - i u x c_R(x)) nu(dx);
             -1.1+0.3i} where the exponential moment is finite          characteristic_function(t,u) = exp(t psi(u)), t in {0.5, 2}
                                                                        (a mismatch that is exactly linear in the argument
                                                                        is classified as such in the key)
 exponent    exponential models x U x t in {0.5, 1}                     log_characteristic_function(t,u,log_spot=0) =
                                                                        exp(t (i u (r-d+w) + psi(u))), w = -psi(-i), psi from
                                                                        the triplet by quadrature
 cumulant    Levy models x n in 1..6 (those stated) x t in {1, 0.5}     k1 = a + int x (1 - c_R(x)) nu, k2 = sigma^2 + int x^2 nu,
                                                                        kn = int x^n nu; and k1, k2 against finite differences
                                                                        (Richardson) of the library's own exponent at zero
 repr        models x truncation {none, (-0.5,0.7), (-2,1.5)}           explicit-state search (core.bfs): state = (representation,
             x histories of set_representation(R), R admissible         drift), BFS until no new state (depth bound 6); every
             (ZERO only for finite variation)                           transition R1->R2 changes the drift by
                                                                        int x (c_R2 - c_R1) nu (quadrature); the reachable set has
                                                                        ONE drift per representation (=> path independence and
                                                                        reversibility for histories of any length, within
                                                                        rounding); levy_exponent is unchanged by any history
 mart-cf     exponential models x t in {0.25, 1, 2}                     log_characteristic_function(t,-i) = S0 e^{(r-d)t}, mean(t) =
                                                                        e^{(r-d)t}; omega = -psi(-i) with psi from the triplet
                                                                        ("under the exact jump law")
 mart-direct exponential BS / HEM / Merton;  Levy HEM / Merton / pure   LevyProcess(model).deterministic_path = x0 + pd t with
             diffusion                                                  pd + sigma^2/2 + int (e^x - 1) nu = r - d   (exponential)
                                                                        pd = drift of the triplet in the ZERO representation (Levy)
                                                                        intensity() = int nu
 mart-chain  exponential models x small grids (fixed 5 / 3 / 8 points,  b := process_drift() + mu_h* - mu~*  (mu_h*, mu~* recomputed by
             model-truncated uniform, geometric with bounds; 0 or 1     quadrature over the cells of the axis) satisfies
             refinement)  through the real MarkovChainProcess           b + sigma^2/2 + int_T (e^x-1-x c~(x)) nu =
                                                                        (r-d) - int_{R\\T} (e^x-1-x c_R(x)) nu   (T = grid truncation)

Not in the alphabet (the statement is silent or the quantity does not exist): arguments outside the strip of finite
exponential moments (margin 0.4) and exponential models whose E[S_t] is infinite or ill-conditioned (right decay of the
density <= 1.4); conversion to ZERO of an infinite-variation model (diverges; the library raises); the exponent of a model
after `truncate_levy_measure` (the closed forms ignore the truncation; the chain only uses the truncated copy for its
drift); `ExponentialOfLevyModel.levy_exponent` (not defined on the exponential classes except Black-Scholes - recorded
as a note, the exponential models are observed through `log_characteristic_function`, as the property's observe_at
says); the law of `jump_increment` (C02/C15 territory); Levy VG/CGMY direct simulation (infinite intensity: not simulable
directly); grids that are not well formed (origin at an end, non-finite points: C13); the mean of a Levy model (any drift
is a legitimate model as long as exponent, triplet, cumulants and simulation drift agree on it).

Quadrature.  QUADPACK on pieces split at 0, +-1 and the truncation points; on pieces touching the origin the substitution
x = +-t^8 is applied first, because with the raw integrand |x|^(-0.8) (CGMY y = 1.8) QUADPACK's error estimate was found
optimistic by two orders of magnitude (2.5e-8 actual vs 1e-10 claimed, checked against the closed form in 40-digit
arithmetic) - that produced a false alarm during development and is why oracle.lk_integral is not used directly. With
the substitution the quadrature reproduces Gamma-function closed forms to <= 7e-11 relative for every y in the lattice.
"""
from __future__ import annotations

import cmath
import json
import math
import warnings

import numpy as np
from scipy.integrate import quad

from mc import alphabets as A
from mc import core
from mc import oracle as O

PID = "C10"
LEVEL = "model_checking"
RULE = (
    "complete product of the model lattice with the argument list / time list / grid menu of each sub-check, plus BFS to "
    "closure over histories of set_representation on fresh models; a case is non-trivial when at least one library value "
    "was compared with a quadrature value whose own error estimate was below the tolerance; distinct = distinct case dict"
)
ASSUMPTIONS = [
    "the oracle is scipy QUADPACK / mpmath tanh-sinh quadrature of the model's own density nu.__call__, split at 0 and +-1 "
    "(and at truncation points); a comparison is made only when the quadrature's error estimate is below the tolerance",
    "the finite-variation flag nu.jump_of_finite_variation() is trusted to define the TILDE cut-off (it is the library's "
    "definition of that representation)",
    "tolerances: rtol 1e-9 (finite variation) / 1e-8 (infinite variation) of the largest term, atol 1e-13; finite-difference "
    "cumulants 1e-6",
    "representation search: states merged when the representation agrees and the drifts agree to 1e-9 relative (rounding "
    "of one conversion is 1e-16); merged states have equal futures because set_representation reads only (a, representation, nu)",
]
CHUNK = 1

INF = math.inf
REPS = ["ZERO", "CENTER", "ONEONE", "TILDE"]
REAL_U = [0.4, -0.4, 1.3, -1.3, 4.0, -4.0]
COMPLEX_U = [(0.0, -1.0), (0.0, -2.0), (0.7, -0.5), (-1.1, 0.3)]
MARGIN = 0.4
ATOL = 1e-13


# ----------------------------------------------------------------------------------------------------------------------
# model lattice
# ----------------------------------------------------------------------------------------------------------------------

EXTRA = {
    "hem": [
        {"sigma": 0.3, "p": 0.6, "eta1": 3.0, "eta2": 2.0, "intensity": 1.0},
        {"sigma": 0.1, "p": 1.0, "eta1": 20.0, "eta2": 25.0, "intensity": 3.0},
        {"sigma": 0.05, "p": 0.5, "eta1": 50.0, "eta2": 50.0, "intensity": 10.0},
    ],
    "merton": [
        {"sigma": 0.2, "sigma_j": 0.3, "mu_j": 0.1, "intensity": 0.5},
        {"sigma": 0.05, "sigma_j": 0.02, "mu_j": 0.03, "intensity": 10.0},
    ],
    "vg": [
        {"sigma": 0.12, "nu": 0.5, "theta": 0.0},
        {"sigma": 0.3, "nu": 1.0, "theta": -0.3},
    ],
    "cgmy": [
        {"c": 1.0, "g": 15.0, "m": 20.0, "y": -1.5},
        {"c": 0.1, "g": 5.0, "m": 7.0, "y": -1.5},
        {"c": 1.0, "g": 15.0, "m": 20.0, "y": 0.2},
        {"c": 1.0, "g": 15.0, "m": 20.0, "y": 0.8},
        {"c": 0.1, "g": 5.0, "m": 7.0, "y": 1.8},
        {"c": 2.0, "g": 20.0, "m": 15.0, "y": 0.0},
        {"c": 2.0, "g": 20.0, "m": 15.0, "y": 1.0},
        {"c": 2.0, "g": 20.0, "m": 15.0, "y": -0.5},
        {"c": 0.3, "g": 2.5, "m": 1.5, "y": 0.5},
        {"c": 0.3, "g": 2.5, "m": 1.5, "y": 1.0},
        {"c": 0.3, "g": 2.5, "m": 1.5, "y": 1.3},
    ],
}


def _product_lattice():
    """Thorough tier: full products of parameter menus per family (every branch class of the anchored code several times)."""
    out = {"hem": [], "merton": [], "vg": [], "cgmy": []}
    for sigma in (0.0, 0.05, 0.3):
        for p in (0.3, 0.6, 1.0):
            for eta1, eta2 in ((20.0, 25.0), (10.0, 40.0), (3.0, 2.0)):
                for lam in (1.0, 5.0):
                    out["hem"].append({"sigma": sigma, "p": p, "eta1": eta1, "eta2": eta2, "intensity": lam})
    for sigma in (0.0, 0.05, 0.2):
        for sigma_j in (0.05, 0.3):
            for mu_j in (0.0, 0.03, 0.1):
                for lam in (0.5, 3.0):
                    out["merton"].append({"sigma": sigma, "sigma_j": sigma_j, "mu_j": mu_j, "intensity": lam})
    for sigma in (0.1, 0.2, 0.3):
        for nu in (0.06, 0.2, 1.0):
            for theta in (-0.3, -0.15, 0.0, 0.1):
                out["vg"].append({"sigma": sigma, "nu": nu, "theta": theta})
    for y in (-1.5, -0.5, 0.0, 0.2, 0.5, 0.8, 1.0, 1.2, 1.5, 1.8):
        for c, g, m in ((1.0, 15.0, 20.0), (0.1, 5.0, 7.0), (0.5, 6.0, 6.0), (2.0, 20.0, 15.0), (0.3, 2.5, 1.5)):
            out["cgmy"].append({"c": c, "g": g, "m": m, "y": y})
    return out


def _specs(tier, exp, families=("hem", "merton", "vg", "cgmy")):
    """Model specs. quick = the complete 1-d lattice of DESIGN section 5 plus the EXTRA points (every branch class of the
    CGMY activity index, one-sided HEM, symmetric / skewed VG, heavy right tail m = 1.5); thorough = in addition the full
    parameter products of `_product_lattice`. Exponential models whose E[S_t] is infinite or ill-conditioned (right decay
    of the density <= 1 + MARGIN) are not in the alphabet."""
    out = list(A.model_specs("thorough", families=tuple(f for f in families if f != "pdiff"), exp=(exp,)))
    lat = [EXTRA]
    if tier == "thorough":
        lat.append(_product_lattice())
    for table in lat:
        for fam in families:
            for params in table.get(fam, []):
                if exp:
                    for r, d in A.RATES:
                        out.append({"family": fam, "exp": True, "params": params, "r": r, "d": d, "spot": 100.0})
                else:
                    out.append({"family": fam, "exp": False, "params": params})
    if exp and "bs" in families and tier == "thorough":
        for r, d in A.RATES:
            out.append({"family": "bs", "exp": True, "params": {"sigma": 0.0}, "r": r, "d": d, "spot": 100.0})
    if not exp and "pdiff" in families:
        out.append({"family": "pdiff", "exp": False, "params": {"mu": 0.03, "sigma": 0.2}})
        out.append({"family": "pdiff", "exp": False, "params": {"mu": -0.1, "sigma": 0.0}})
    seen, res = set(), []
    for sp in out:
        k = json.dumps(sp, sort_keys=True)
        if k in seen:
            continue
        seen.add(k)
        if exp and sp["family"] != "bs":
            if not _admissible(complex(0.0, -1.0), _decays(sp, _make({**sp, "exp": False}))):
                continue
        res.append(sp)
    return res


def _make(spec):
    if spec["family"] == "pdiff":
        from rpylib.model.levymodel.mixed.blackscholes import PureDiffusiveModel

        return PureDiffusiveModel(mu=spec["params"]["mu"], sigma=spec["params"]["sigma"])
    return A.make_model(spec)


def _params(model):
    base = getattr(model, "levy_model", model)
    return getattr(base, "parameters", None) or getattr(model, "parameters", None)


def _klass(spec, model):
    """Input class used in violation keys: family, and for CGMY the branch of the activity index."""
    fam = spec["family"]
    if fam != "cgmy":
        return fam
    y = float(_params(model).y)
    if y < -1:
        return "cgmy-y<-1"
    if y < 0:
        return "cgmy--1<=y<0"
    if y == 0:
        return "cgmy-y=0"
    if y < 1:
        return "cgmy-0<y<1"
    if y == 1:
        return "cgmy-y=1"
    return "cgmy-1<y<2"


def _decays(spec, model):
    """(left, right) exponential decay rates of the density: E[e^{sL}] is finite for -left < s < right."""
    fam = spec["family"]
    p = _params(model)
    if fam == "hem":
        right = float(p.eta1)
        left = float(p.eta2)
        if float(p.p) >= 1.0:
            left = INF
        return left, right
    if fam == "cgmy":
        return float(p.g), float(p.m)
    if fam == "vg":
        s2 = float(p.sigma) ** 2
        lp = math.sqrt(float(p.theta) ** 2 + 2 * s2 / float(p.nu)) / s2 - float(p.theta) / s2
        lm = lp + 2 * float(p.theta) / s2
        return lm, lp
    return INF, INF  # merton (gaussian tails), diffusions


def _admissible(u, decays):
    left, right = decays
    s = -u.imag  # e^{iux} = e^{(i Re u - Im u) x}: growth rate s = -Im u
    if s > 0:
        return s < right - MARGIN
    if s < 0:
        return -s < left - MARGIN
    return True


def _re(x):
    """Real part of a library scalar that may have been computed in complex arithmetic (e.g. a drift built from
    -psi(-i) without `.real`): a zero imaginary part is not a defect of this property. A non-negligible one gives nan,
    which fails every comparison it enters."""
    z = complex(np.asarray(x).reshape(-1)[0]) if not isinstance(x, (int, float, complex)) else complex(x)
    if abs(z.imag) > 1e-14 * max(1.0, abs(z.real)):
        return math.nan
    return z.real


def _triplet(model):
    tr = model.levy_triplet
    nu = tr.nu
    rep = getattr(tr.representation, "name", str(tr.representation))
    return float(tr.a), float(tr.sigma), nu, rep, bool(nu.jump_of_finite_variation())


def _rtol(fv):
    return 1e-9 if fv else 1e-8


_K = 8  # substitution x = +-t^8 on pieces that touch the origin


def _quad(fn, a_, b_):
    """int_a^b fn(x) dx for a real-valued fn that may have an algebraic singularity |x|^(-p), p < 1, at x = 0 when the piece
    touches the origin (a = 0 or b = 0; pieces never straddle it). There the substitution x = +-t^8 turns |x|^(-p) dx into
    8 t^(7-8p) dt (bounded for p <= 0.875, and still only t^(-0.2) for p = 0.9), so that QUADPACK's error estimate can be
    trusted: with the raw integrand its estimate was found optimistic by 2 orders of magnitude for p = 0.8 (CGMY y = 1.8).
    Falls back to mpmath tanh-sinh when the estimate is poor. Returns (value, error estimate)."""
    if a_ == 0.0 and math.isfinite(b_):
        top = b_ ** (1.0 / _K)

        def g(t):
            x = t ** _K
            return fn(x) * _K * t ** (_K - 1) if x > 1e-100 else 0.0

        lo_, hi_ = 0.0, top
    elif b_ == 0.0 and math.isfinite(a_):
        top = (-a_) ** (1.0 / _K)

        def g(t):
            x = t ** _K
            return fn(-x) * _K * t ** (_K - 1) if x > 1e-100 else 0.0

        lo_, hi_ = 0.0, top
    else:
        g, lo_, hi_ = fn, a_, b_
    v, e = quad(g, lo_, hi_, epsabs=0.0, epsrel=1e-12, limit=400)
    if not math.isfinite(v) or e > 1e-9 * abs(v) + 1e-14:
        v2, e2 = O._mp_quad(g, lo_, hi_)
        if e2 < e or not math.isfinite(v):
            v, e = v2, e2
    if not (math.isfinite(v) and math.isfinite(e)):
        return v, INF
    return v, e


def _lk(nu, u, rep, fv, lo=-INF, hi=INF):
    """int_{lo}^{hi} (e^{iux} - 1 - i u x c_R(x)) nu(dx), u real or complex: (complex value, error estimate).

    Same definition as oracle.lk_integral (small-x Taylor form of the integrand, split at 0 and +-1), with the guards needed
    for arguments off the real axis on unbounded ranges (where the density has underflowed to 0 the integrand is 0 instead
    of inf*0 = nan when e^{iux} overflows) and the origin substitution of `_quad`."""
    c = O.cutoff(rep, fv)
    iu = 1j * u

    def integrand(x):
        dens = float(nu(x))
        if dens == 0.0:
            return 0j
        z = iu * x
        cx = c(x)
        if abs(z) < 0.02:
            # e^z - 1 - z cx = z (1 - cx) + z^2/2 + ... + z^9/9!  (truncation 3e-24 relative; the direct form would lose
            # 1e-16/|z|^2 to cancellation)
            val = z * (1.0 - cx) + z * z * (0.5 + z * (1 / 6 + z * (1 / 24 + z * (1 / 120 + z * (1 / 720 + z * (
                1 / 5040 + z * (1 / 40320 + z / 362880)))))))
        else:
            val = cmath.exp(z) - 1.0 - z * cx
        return val * dens

    re_tot = im_tot = err = 0.0
    lo, hi = float(lo), float(hi)
    if not lo < hi:
        return 0j, 0.0
    with warnings.catch_warnings():
        warnings.simplefilter("ignore")
        for a_, b_ in O._pieces(lo, hi):
            v, e = _quad(lambda x: integrand(x).real, a_, b_)
            re_tot += v
            err += e
            v, e = _quad(lambda x: integrand(x).imag, a_, b_)
            im_tot += v
            err += e
    if not math.isfinite(err):
        err = INF
    return complex(re_tot, im_tot), err


def _int(nu, a_, b_, n):
    """int_a^b x^n nu(dx) by quadrature of the density nu.__call__: (value, error estimate)."""
    a_, b_ = float(a_), float(b_)
    if not a_ < b_:
        return 0.0, 0.0

    def f(x):
        return (x ** n) * float(nu(x)) if n else float(nu(x))

    tot = err = 0.0
    with warnings.catch_warnings():
        warnings.simplefilter("ignore")
        for lo_, hi_ in O._pieces(a_, b_):
            v, e = _quad(f, lo_, hi_)
            tot += v
            err += e
    if not (math.isfinite(tot) and math.isfinite(err)):
        return tot, INF
    return tot, err


def _psi_ref(a, sigma, nu, rep, fv, u):
    """Levy-Khintchine exponent from the triplet by quadrature: (value, error estimate)."""
    lk, err = _lk(nu, u, rep, fv)
    return 1j * u * a - 0.5 * (u * sigma) ** 2 + lk, err


def _cclose(x, y, rtol, scale=None):
    s = max(abs(x), abs(y)) if scale is None else scale
    d = abs(complex(x) - complex(y))
    return (not math.isnan(d)) and d <= ATOL + rtol * s


def _u_list():
    return [complex(u, 0.0) for u in REAL_U] + [complex(re, im) for re, im in COMPLEX_U]


def _ulabel(u):
    return f"{u.real:g}{u.imag:+g}i" if u.imag else f"{u.real:g}"


# ----------------------------------------------------------------------------------------------------------------------
# cases
# ----------------------------------------------------------------------------------------------------------------------

def _chain_grids(tier):
    gs = [{"kind": "fixed", "h": 0.1, "n": 5}, {"kind": "uniform", "h": 0.1, "p": 0.99999},
          {"kind": "fixed", "h": 0.1, "n": 5, "refine": 1}]
    if tier == "thorough":
        gs += [
            {"kind": "fixed", "h": 0.2, "n": 3},
            {"kind": "fixed", "h": 0.05, "n": 8},
            {"kind": "uniform", "h": 0.05, "p": 0.99},
            {"kind": "uniform", "h": 0.2, "p": 0.99999, "refine": 1},
            {"kind": "geometric-bounds", "h": 0.1, "bounds": [-0.7, 0.4], "n_side": 3},
            {"kind": "geometric-bounds", "h": 0.1, "bounds": [-1.5, 1.2], "n_side": 4},
        ]
    return gs


def cases(tier):
    out = []
    levy = _specs(tier, exp=False, families=("pdiff", "hem", "merton", "vg", "cgmy"))
    expo = _specs(tier, exp=True, families=("bs", "hem", "merton", "vg", "cgmy"))
    for s in levy:
        out.append({"sub": "exponent", "model": s})
    for s in levy:
        out.append({"sub": "cumulant", "model": s})
    truncs = [None, [-0.5, 0.7], [-2.0, 1.5]]
    for s in levy + [e for e in expo if (e["r"], e["d"]) == A.RATES[0]]:  # the rates do not enter the triplet
        for tr in truncs:
            out.append({"sub": "repr", "model": s, "trunc": tr, "depth": 6})
    for s in expo:
        out.append({"sub": "mart-cf", "model": s})
    for s in expo:
        if s["family"] in ("bs", "hem", "merton"):
            out.append({"sub": "mart-direct", "model": s})
    for s in levy:
        if s["family"] in ("pdiff", "hem", "merton"):
            out.append({"sub": "mart-direct", "model": s})
    for s in expo:
        out.append({"sub": "exponent", "model": s})
    for s in expo:
        if s["family"] == "bs":
            continue
        for g in _chain_grids(tier):
            out.append({"sub": "mart-chain", "model": s, "grid": g})
    return out


def check_case(sh, case):
    sub = case["sub"]
    with warnings.catch_warnings():
        # the library's closed forms emit RuntimeWarnings (0 * inf at interval end points) while grids are built
        warnings.simplefilter("ignore", RuntimeWarning)
        globals()["_sub_" + sub.replace("-", "_")](sh, case)


def _common_classes(sh, spec, model, rep, fv):
    sh.cls("family:" + spec["family"] + (":exp" if spec.get("exp") else ""))
    sh.cls("class:" + _klass(spec, model))
    sh.cls("declared:" + rep)
    sh.cls("finite-variation" if fv else "infinite-variation")


# ----------------------------------------------------------------------------------------------------------------------
# (a) exponent
# ----------------------------------------------------------------------------------------------------------------------

def _sub_exponent(sh, case):
    spec = case["model"]
    if spec.get("exp"):
        return _exponent_exp(sh, case)
    model = _make(spec)
    twin = _make(spec)  # determinism self-check: a second fresh object must give bit-identical observations
    a, sigma, nu, rep, fv = _triplet(model)
    kl = _klass(spec, model)
    comp = type(model).__name__ + ".levy_exponent"
    _common_classes(sh, spec, model, rep, fv)
    dec = _decays(spec, model)
    rtol = _rtol(fv)
    rows, bad = [], []
    for u in _u_list():
        if not _admissible(u, dec):
            sh.count("argument_outside_strip")
            continue
        arg = u.real if u.imag == 0 else u
        try:
            got = complex(model.levy_exponent(arg))
            got2 = complex(twin.levy_exponent(arg))
        except Exception as e:
            sh.violation(f"C10:exponent:{comp}:raises-{type(e).__name__}:{kl}", f"levy_exponent({arg}) raised {e!r}",
                         {"u": _ulabel(u)})
            continue
        if not (got == got2 or (math.isnan(abs(got)) and math.isnan(abs(got2)))):
            sh.violation("NONDETERMINISM", f"levy_exponent({arg}) differs on two fresh models: {got} vs {got2}", None)
        ref, err = _psi_ref(a, sigma, nu, rep, fv, u)
        scale = max(abs(got), abs(ref))
        if not (err <= ATOL + rtol * scale):
            sh.count("oracle_inconclusive")
            continue
        sh.count("evaluations")
        sh.cls("argument:" + ("real" if u.imag == 0 else "complex"))
        ok = _cclose(got, ref, rtol)
        rows.append({"u": _ulabel(u), "lib": got, "ref": ref, "quad_err": err, "ok": ok})
        if not ok:
            bad.append((u, got, ref))
        else:
            for t in (0.5, 2.0):
                cf = complex(model.characteristic_function(t, arg))
                cref = cmath.exp(t * ref)
                sh.count("evaluations")
                if not _cclose(cf, cref, rtol * max(1.0, t * abs(ref)) * 4):
                    sh.violation(f"C10:exponent:{type(model).__name__}.characteristic_function:not-exp-of-t-times-exponent:{kl}",
                                 f"{spec}: characteristic_function({t}, {_ulabel(u)}) = {cf}, exp(t psi) = {cref}", None)
    if rows:
        sh.nontriv()
        sh.outcome([(r["u"], round(r["lib"].real, 9), round(r["lib"].imag, 9)) for r in rows])
        sh.sample({"sub": "exponent", "model": A.model_label(spec), "declared": rep, "a": a, "first": rows[0]})
    if bad:
        # is the mismatch exactly linear in the argument (got - ref = i u delta with one delta)?
        deltas = [(g - r) / (1j * u) for (u, g, r) in bad]
        d0 = deltas[0]
        linear = len(bad) == len(rows) and all(abs(d - d0) <= 1e-7 * abs(d0) + 1e-12 for d in deltas) and abs(d0.imag) <= 1e-7 * abs(d0) + 1e-12
        fc = "differs-from-levy-khintchine-by-a-linear-term" if linear else "differs-from-levy-khintchine"
        u, g, r = bad[0]
        sh.violation(
            f"C10:exponent:{comp}:{fc}:{kl}",
            f"{A.model_label(spec)}: levy_exponent({_ulabel(u)}) = {g} but the "
            f"Levy-Khintchine integral of the declared triplet (a={a}, sigma={sigma}, {rep}) is {r}"
            + (f"; the difference is i*u*({d0.real:.12g}) for every argument" if linear else ""),
            {"declared": rep, "a": a, "sigma": sigma, "rows": rows, "linear_delta": d0.real if linear else None},
        )


def _exponent_exp(sh, case):
    spec = case["model"]
    model = _make(spec)
    twin = _make(spec)
    a, sigma, nu, rep, fv = _triplet(model)
    kl = _klass(spec, model)
    comp = type(model).__name__ + ".log_characteristic_function"
    _common_classes(sh, spec, model, rep, fv)
    dec = _decays(spec, model)
    rtol = _rtol(fv)
    r, d = float(model.r), float(model.d)
    # DESIGN section 9 item 22 (observation only): levy_exponent on the exponential classes
    try:
        model.levy_exponent(0.4)
        sh.cls("exp-levy_exponent:callable")
    except Exception as e:
        sh.cls("exp-levy_exponent:raises")
        sh.note(f"{type(model).__name__}.levy_exponent(0.4) raises {type(e).__name__} (levy_exponent_pure_jump is not "
                "defined on the exponential class); observed through log_characteristic_function instead")
    psi1, err1 = _psi_ref(a, sigma, nu, rep, fv, -1j)
    if not (err1 <= ATOL + rtol * max(abs(psi1), 1e-3)):
        sh.count("oracle_inconclusive")
        return
    w_ref = -psi1.real
    rows = []
    for u in _u_list():
        if not _admissible(u, dec):
            sh.count("argument_outside_strip")
            continue
        psi, err = _psi_ref(a, sigma, nu, rep, fv, u)
        expo = 1j * u * (r - d + w_ref) + psi
        if not (err + abs(u) * err1 <= ATOL + rtol * max(abs(expo), 1e-3)):
            sh.count("oracle_inconclusive")
            continue
        arg = u.real if u.imag == 0 else u
        for t in (0.5, 1.0):
            ref = np.exp(t * expo)
            try:
                got = complex(model.log_characteristic_function(t, arg, log_spot=0.0))
                got2 = complex(twin.log_characteristic_function(t, arg, log_spot=0.0))
            except Exception as e:
                sh.violation(f"C10:exponent:{comp}:raises-{type(e).__name__}:{kl}",
                             f"log_characteristic_function({t},{arg}) raised {e!r}", {"u": _ulabel(u)})
                continue
            if got != got2:
                sh.violation("NONDETERMINISM", f"log_characteristic_function differs on two fresh models: {got} vs {got2}", None)
            sh.count("evaluations")
            # relative error of exp(t*expo) is t*|error of expo|
            ok = _cclose(got, ref, rtol * max(1.0, t * abs(expo)) * 4)
            rows.append({"u": _ulabel(u), "t": t, "lib": got, "ref": complex(ref), "ok": ok})
            if not ok:
                sh.violation(
                    f"C10:exponent:{comp}:differs-from-levy-khintchine:{kl}",
                    f"{A.model_label(spec)}: E[exp(i u log(S_t/S_0))] at u={_ulabel(u)}, t={t} is {got}; from the triplet by "
                    f"quadrature {complex(ref)}",
                    {"declared": rep, "a": a, "sigma": sigma, "omega_lib": complex(model.omega).real, "omega_ref": w_ref},
                )
    if rows:
        sh.nontriv()
        sh.outcome([(x["u"], x["t"], round(x["lib"].real, 9), round(x["lib"].imag, 9)) for x in rows])


# ----------------------------------------------------------------------------------------------------------------------
# (b) cumulants
# ----------------------------------------------------------------------------------------------------------------------

def _sub_cumulant(sh, case):
    spec = case["model"]
    model = _make(spec)
    a, sigma, nu, rep, fv = _triplet(model)
    kl = _klass(spec, model)
    comp = type(model.cumulant).__name__.lstrip("_")
    _common_classes(sh, spec, model, rep, fv)
    c = O.cutoff(rep, fv)
    rtol = _rtol(fv)
    obs = []
    # reference cumulants from the triplet
    refs = {}
    # k1 = a + int x (1 - c_R(x)) nu
    if rep == "CENTER":
        refs[1] = (a, 0.0)
    elif rep == "ZERO" or (rep == "TILDE" and fv):
        v, e = _int(nu, -INF, INF, 1)
        refs[1] = (a + v, e)
    else:
        v1, e1 = _int(nu, -INF, -1.0, 1)
        v2, e2 = _int(nu, 1.0, INF, 1)
        refs[1] = (a + v1 + v2, e1 + e2)
    for n in range(2, 7):
        v, e = _int(nu, -INF, INF, n)
        refs[n] = (v + (sigma ** 2 if n == 2 else 0.0), e)
    k2scale = max(abs(refs[2][0]), 1e-300)
    for n in range(1, 7):
        fn = getattr(model.cumulant, f"cumulant{n}", None)
        for t in (1.0, 0.5):
            try:
                got = _re(fn(t))
            except NotImplementedError:
                sh.count("cumulant_not_stated")
                break
            ref, err = refs[n]
            ref, err = ref * t, err * t
            # natural magnitude of the n-th cumulant: for n = 1 the drift and the jump mean may cancel, use sqrt(k2) too
            scale = max(abs(ref), abs(got), (abs(a) + math.sqrt(k2scale)) * t if n == 1 else 0.0)
            if not (err <= ATOL + rtol * scale):
                sh.count("oracle_inconclusive")
                continue
            sh.count("evaluations")
            sh.cls(f"cumulant{n}")
            obs.append((n, t, round(got, 12)))
            if not core.close(got, ref, rtol=rtol, atol=ATOL, scale=scale):
                sh.violation(
                    f"C10:cumulant:{comp}.cumulant{n}:differs-from-triplet:{kl}",
                    f"{spec}: cumulant{n}({t}) = {got!r}, from the triplet (a={a}, sigma={sigma}, {rep}) and the density: {ref!r}",
                    {"n": n, "t": t, "lib": got, "ref": ref, "quad_err": err, "declared": rep},
                )
    # k1, k2 as derivatives of the library's own exponent at zero (Richardson-extrapolated central differences)
    try:
        def psi(x):
            return complex(model.levy_exponent(x))

        def d1(h):
            return ((psi(h) - psi(-h)) / (2j * h)).real

        def d2(h):
            return (-(psi(h) + psi(-h) - 2 * psi(0.0)) / (h * h)).real

        h = 0.02
        k1_fd = (4 * d1(h / 2) - d1(h)) / 3
        k2_fd = (4 * d2(h / 2) - d2(h)) / 3
        for n, fd in ((1, k1_fd), (2, k2_fd)):
            try:
                got = _re(getattr(model.cumulant, f"cumulant{n}")(1.0))
            except NotImplementedError:
                continue
            scale = max(abs(got), abs(fd), abs(a) + math.sqrt(k2scale) if n == 1 else k2scale)
            sh.count("evaluations")
            obs.append(("fd", n, round(fd, 7)))
            if not core.close(got, fd, rtol=1e-6, atol=1e-10, scale=scale):
                sh.violation(
                    f"C10:cumulant:{comp}.cumulant{n}:not-the-derivative-of-the-exponent-at-zero:{kl}",
                    f"{spec}: cumulant{n}(1) = {got!r} but the {'first' if n == 1 else 'second'} derivative of levy_exponent at 0 "
                    f"gives {fd!r}",
                    {"n": n, "lib": got, "finite_difference": fd},
                )
    except Exception as e:  # the exponent itself failing is reported by the exponent sub-check
        sh.note(f"finite-difference cumulants skipped for {spec['family']}: {type(e).__name__}")
    if obs:
        sh.nontriv()
        sh.outcome(obs)


# ----------------------------------------------------------------------------------------------------------------------
# (c) representation changes: explicit-state search
# ----------------------------------------------------------------------------------------------------------------------

_AB = {  # c_R(x) = alpha 1{|x|<1} + beta 1{|x|>=1}
    "ZERO": (0.0, 0.0),
    "CENTER": (1.0, 1.0),
    "ONEONE": (1.0, 0.0),
}


def _ab(rep, fv):
    if rep == "TILDE":
        return (0.0, 0.0) if fv else (1.0, 0.0)
    return _AB[rep]


def _int_abs(nu, a_, b_, n):
    """(int_a^b x^n nu, error estimate, int_a^b |x|^n nu): the last one is the natural magnitude for tolerances when the
    two half-lines cancel (symmetric densities)."""
    val = err = mag = 0.0
    for lo_, hi_ in ((a_, min(b_, 0.0)), (max(a_, 0.0), b_)):
        if lo_ < hi_:
            v, e = _int(nu, lo_, hi_, n)
            val += v
            err += e
            mag += abs(v)
    return val, err, mag


def _x_integrals(nu, trunc, need_inner):
    """(int_{|x|<1} x nu, err, int |x| nu), (int_{|x|>=1} x nu, err, int |x| nu) of the density restricted to the
    truncation interval."""
    lo, hi = (-INF, INF) if trunc is None else (float(trunc[0]), float(trunc[1]))
    inner = (0.0, 0.0, 0.0)
    if need_inner:
        a_, b_ = max(lo, -1.0), min(hi, 1.0)
        if a_ < b_:
            inner = _int_abs(nu, a_, b_, 1)
    tv = te = tm = 0.0
    if lo < -1.0:
        v, e = _int(nu, lo, -1.0, 1)
        tv += v
        te += e
        tm += abs(v)
    if hi > 1.0:
        v, e = _int(nu, 1.0, hi, 1)
        tv += v
        te += e
        tm += abs(v)
    return inner, (tv, te, tm)


def _sub_repr(sh, case):
    from rpylib.model.levymodel.levymodel import LevyRepresentation

    spec = case["model"]
    trunc = case.get("trunc")
    depth = int(case.get("depth", 6))
    probe = _make(spec)
    a0, sigma, nu0, rep0, fv = _triplet(probe)
    kl = _klass(spec, probe)
    comp = "LevyTriplet.set_representation"
    _common_classes(sh, spec, probe, rep0, fv)
    sh.cls("truncation:" + ("none" if trunc is None else "yes"))
    rtol = _rtol(fv)
    tkey = "untruncated" if trunc is None else "truncated"
    admissible = [r for r in REPS if (r != "ZERO" or fv)]
    inner, tail = _x_integrals(nu0, trunc, need_inner=fv)
    x_scale = inner[2] + tail[2] + abs(a0) + 1e-300
    psi_probe = None if trunc is not None else complex(getattr(probe, "levy_model", probe).levy_exponent(1.3))

    obs = {}  # history -> (representation name, drift)
    registry = {r: [] for r in REPS}  # representation -> representative drifts seen (one expected)

    def build(hist):
        m = _make(spec)
        if trunc is not None:
            m.truncate_levy_measure(tuple(float(x) for x in trunc))
        for ev in hist:
            m.levy_triplet.set_representation(LevyRepresentation[ev])
        tr = m.levy_triplet
        obs[tuple(hist)] = (getattr(tr.representation, "name", str(tr.representation)), float(tr.a))
        return m

    def menu(obj, hist):
        return list(admissible)

    def canon(obj, hist):
        rep, a = obs[tuple(hist)]
        reps = registry.setdefault(rep, [])
        for i, v in enumerate(reps):
            if core.close(a, v, rtol=1e-9, atol=1e-13, scale=max(abs(a), abs(v), x_scale)):
                return (rep, i)
        reps.append(a)
        return (rep, len(reps) - 1)

    def invariant(obj, hist, ev):
        rep, a = obs[tuple(hist)]
        if ev is None:
            return None
        prep, pa = obs[tuple(hist[:-1])]
        sh.count("evaluations")
        if rep != ev:
            sh.violation(f"C10:representation:{comp}:representation-not-set:{kl}",
                         f"after set_representation({ev}) the triplet declares {rep}", {"history": hist})
            return None
        (al1, be1), (al2, be2) = _ab(prep, fv), _ab(rep, fv)
        need_i, need_t = al2 != al1, be2 != be1
        ref = pa + (al2 - al1) * inner[0] + (be2 - be1) * tail[0]
        err = (inner[1] if need_i else 0.0) + (tail[1] if need_t else 0.0)
        scale = max(abs(a), abs(pa), inner[2] if need_i else 0.0, tail[2] if need_t else 0.0)
        if not (err <= ATOL + rtol * scale):
            sh.count("oracle_inconclusive")
        elif not core.close(a, ref, rtol=rtol, atol=ATOL, scale=scale):
            sh.violation(
                f"C10:representation:{comp}:drift-change-is-not-the-integral:{kl}:{prep}-to-{rep}:{tkey}",
                f"{spec} trunc={trunc}: {prep} (a={pa!r}) -> {rep}: drift {a!r}, expected a + int x (c_{rep} - c_{prep}) nu = {ref!r}",
                {"history": hist, "from": [prep, pa], "to": [rep, a], "expected": ref,
                 "int_x_nu_inner": inner[0], "int_x_nu_tails": tail[0]},
            )
        if psi_probe is not None:
            now = complex(getattr(obj, "levy_model", obj).levy_exponent(1.3))
            if not _cclose(now, psi_probe, 1e-12):
                sh.violation(f"C10:representation:{comp}:exponent-changed-by-a-representation-change:{kl}",
                             f"levy_exponent(1.3) was {psi_probe}, is {now} after {hist}", {"history": hist})
        return None

    states, transitions, maxd = core.bfs(sh, build, menu, canon, invariant, depth=depth)
    sh.traces += transitions
    for rep in REPS:
        vals = registry.get(rep, [])
        if len(vals) > 1:
            sh.violation(
                f"C10:representation:{comp}:drift-depends-on-the-path:{kl}:{rep}:{tkey}",
                f"{spec} trunc={trunc}: representation {rep} is reached with {len(vals)} different drifts {vals[:4]} "
                f"(histories up to depth {depth})",
                {"drifts": vals[:8], "representation": rep},
            )
    if maxd >= depth:
        sh.note(f"representation search did not close within depth {depth} for {kl} ({tkey})")
    sh.outcome((states, transitions, sorted((r, [round(v, 10) for v in vs]) for r, vs in registry.items() if vs)))
    sh.nontriv()
    sh.sample({"sub": "repr", "model": spec, "trunc": trunc, "states": states, "transitions": transitions,
               "drifts": {r: vs for r, vs in registry.items() if vs}})


# ----------------------------------------------------------------------------------------------------------------------
# (d) martingale routes
# ----------------------------------------------------------------------------------------------------------------------

def _sub_mart_cf(sh, case):
    spec = case["model"]
    model = _make(spec)
    a, sigma, nu, rep, fv = _triplet(model)
    kl = _klass(spec, model)
    cname = type(model).__name__
    _common_classes(sh, spec, model, rep, fv)
    r, d, s0 = float(model.r), float(model.d), float(model.spot)
    obs = []
    for t in (0.25, 1.0, 2.0):
        got = complex(model.log_characteristic_function(t, -1j))
        fwd = s0 * math.exp((r - d) * t)
        sh.count("evaluations")
        obs.append((t, round(got.real, 8)))
        if not _cclose(got, fwd, 1e-11):
            sh.violation(
                f"C10:martingale-cf:{cname}.log_characteristic_function:not-the-forward-at-minus-i:{kl}",
                f"{A.model_label(spec)}: log_characteristic_function({t}, -1j) = {got}, forward = {fwd!r}",
                {"t": t, "lib": got, "forward": fwd, "omega": complex(model.omega).real},
            )
        try:
            mean = complex(model.mean(t))
        except AttributeError:
            mean = None
        if mean is not None:
            sh.count("evaluations")
            if not _cclose(mean, math.exp((r - d) * t), 1e-11):
                sh.violation(f"C10:martingale-cf:{cname}.mean:not-the-forward-over-spot:{kl}",
                             f"{A.model_label(spec)}: mean({t}) = {mean}, exp((r-d)t) = {math.exp((r - d) * t)!r}", None)
    # the same under the exact jump law: omega must be -psi(-i) of the declared triplet
    rtol = _rtol(fv)
    psi1, err = _psi_ref(a, sigma, nu, rep, fv, -1j)
    w_c = complex(model.omega)
    w = w_c.real
    scale = max(abs(psi1), abs(w), abs(a), 0.5 * sigma ** 2)
    if not (err <= ATOL + rtol * scale):
        sh.count("oracle_inconclusive")
    else:
        sh.count("evaluations")
        obs.append(("omega", round(w, 10)))
        if not _cclose(w_c, -psi1.real, rtol, scale) or abs(psi1.imag) > ATOL + rtol * scale:
            sh.violation(
                f"C10:martingale-cf:{cname}.omega:not-minus-psi-of-the-triplet-at-minus-i:{kl}",
                f"{A.model_label(spec)}: omega = {w!r} but -psi(-i) of the declared triplet (a={a}, sigma={sigma}, {rep}) by "
                f"quadrature is {-psi1.real!r}: E[S_1] = forward * {math.exp(w + psi1.real)!r} under the exact jump law",
                {"omega": w, "minus_psi_ref": -psi1.real, "quad_err": err, "declared": rep},
            )
    sh.nontriv()
    sh.outcome(obs)


def _sub_mart_direct(sh, case):
    from rpylib.process.levyprocess import LevyProcess

    spec = case["model"]
    model = _make(spec)
    a, sigma, nu, rep, fv = _triplet(model)
    kl = _klass(spec, model)
    cname = type(model).__name__
    _common_classes(sh, spec, model, rep, fv)
    proc = LevyProcess(model)
    times = np.array([0.0, 1.0, 2.5])
    path = np.array([_re(v) for v in np.asarray(proc.deterministic_path(times)).reshape(-1)])
    x0 = _re(model.x0_value())
    pd = _re(proc.process_drift())
    if math.isnan(pd) or math.isnan(x0):
        sh.violation(f"C10:martingale-direct:{cname}.process_drift:not-a-real-number:{kl}",
                     f"{spec}: x0_value() = {model.x0_value()!r}, process_drift() = {proc.process_drift()!r}", None)
        return
    sh.count("evaluations")
    if not all(core.close(path[k], x0 + pd * times[k], rtol=1e-14, atol=1e-15, scale=max(1.0, abs(x0))) for k in range(3)):
        sh.violation(f"C10:martingale-direct:LevyProcess.deterministic_path:not-x0-plus-drift-times-t:{kl}",
                     f"deterministic_path({times.tolist()}) = {path.tolist()}, x0={x0}, process_drift={pd}", None)
    slope = float((path[2] - path[0]) / 2.5)
    diff_coef = _re(model.diffusion_coefficient())
    rtol = 1e-9
    obs = [round(pd, 12)]
    if spec.get("exp"):
        if not core.close(x0, math.log(float(model.spot)), rtol=1e-15):
            sh.violation(f"C10:martingale-direct:{cname}.x0_value:not-log-spot:{kl}", f"x0 = {x0}", None)
        lk, err = _lk(nu, -1j, "ZERO", True)  # int (e^x - 1) nu(dx)
        r, d = float(model.r), float(model.d)
        lhs = slope + 0.5 * diff_coef ** 2 + lk.real
        scale = max(abs(slope), 0.5 * diff_coef ** 2, abs(lk.real), abs(r - d))
        if not (err <= ATOL + rtol * scale):
            sh.count("oracle_inconclusive")
        else:
            sh.count("evaluations")
            if not core.close(lhs, r - d, rtol=rtol, atol=ATOL, scale=scale):
                sh.violation(
                    f"C10:martingale-direct:{cname}.process_drift:discounted-spot-not-a-martingale:{kl}",
                    f"{A.model_label(spec)}: process_drift = {slope!r}; process_drift + sigma^2/2 + int (e^x-1) nu = {lhs!r} but "
                    f"r - d = {r - d!r}: direct simulation gives E[S_T] = forward * exp({lhs - (r - d):.6g} T) "
                    f"(sigma^2/2 = {0.5 * diff_coef ** 2:.6g})",
                    {"process_drift": slope, "sigma": diff_coef, "int_exp_minus_1": lk.real, "r_minus_d": r - d,
                     "excess": lhs - (r - d)},
                )
    else:
        # Levy model simulated directly: drift + compound Poisson sum of the jumps => the drift of the ZERO representation
        al, be = _ab(rep, fv)
        inner, tail = _x_integrals(nu, None, need_inner=al != 0.0)
        ref = a - al * inner[0] - be * tail[0]
        err = (inner[1] if al else 0.0) + (tail[1] if be else 0.0)
        full, e2, fmag = _int_abs(nu, -INF, INF, 1)
        scale = max(abs(slope), abs(ref), fmag)
        if not (err <= ATOL + rtol * scale):
            sh.count("oracle_inconclusive")
        else:
            sh.count("evaluations")
            if not core.close(slope, ref, rtol=rtol, atol=ATOL, scale=scale):
                sh.violation(
                    f"C10:martingale-direct:{cname}.process_drift:not-the-drift-of-the-triplet:{kl}",
                    f"{spec}: direct simulation uses drift {slope!r} + sum of the jumps, but the triplet (a={a!r}, {rep}) has "
                    f"drift {ref!r} in the ZERO representation: simulated mean {slope + full!r} per unit time, cumulant1 "
                    f"says {_re(model.cumulant.cumulant1(1.0))!r}",
                    {"process_drift": slope, "zero_drift_of_triplet": ref, "int_x_nu": full},
                )
    # intensity of the compound Poisson part = total mass of the density
    try:
        lam = _re(model.intensity())
    except Exception:
        lam = None
    if lam is not None and math.isfinite(lam):
        mass, em = _int(nu, -INF, INF, 0)
        if em <= ATOL + rtol * max(abs(mass), abs(lam)):
            sh.count("evaluations")
            obs.append(round(lam, 12))
            if not core.close(lam, mass, rtol=rtol, atol=ATOL):
                sh.violation(f"C10:martingale-direct:{cname}.intensity:not-the-mass-of-the-density:{kl}",
                             f"{spec}: intensity() = {lam!r}, int nu = {mass!r}", None)
        else:
            sh.count("oracle_inconclusive")
    sh.nontriv()
    sh.outcome(obs)


class _Obj:
    pass


def _fake_product():
    """A product with deterministic payoff dates (the chain's initialisation only reads that flag): the library's own
    vanilla call on the spot; a minimal stand-in if its constructors change."""
    try:
        from rpylib.product.payoff import PayoffType, Vanilla
        from rpylib.product.product import Product
        from rpylib.product.underlying import Spot

        return Product(payoff_underlying=Spot(), payoff=Vanilla(strike=100.0, payoff_type=PayoffType.CALL), maturity=1.0)
    except Exception:
        from rpylib.product.payoff import PayoffDates

        prod = _Obj()
        prod.payoff = _Obj()
        prod.payoff.payoff_dates_type = PayoffDates.DETERMINISTIC
        prod.maturity = 1.0
        return prod


def _sub_mart_chain(sh, case):
    from rpylib.distribution.sampling import SamplingMethod
    from rpylib.process.markovchain.markovchain import MarkovChainProcess

    spec = case["model"]
    gspec = case["grid"]
    model = _make(spec)
    a, sigma, nu, rep, fv = _triplet(model)
    kl = _klass(spec, model)
    _common_classes(sh, spec, model, rep, fv)
    sh.cls("grid:" + gspec["kind"] + (":refined" if gspec.get("refine") else ""))
    r, d = float(model.r), float(model.d)
    grid = A.make_grid(gspec, model)
    axis = [float(x) for x in grid.axes[0]]
    origin = int(getattr(grid.origin_coordinate, "value", grid.origin_coordinate))
    lo, hi = axis[0], axis[-1]
    well_formed = (len(axis) >= 3 and 0 < origin < len(axis) - 1 and all(math.isfinite(x) for x in axis)
                   and all(x < y for x, y in zip(axis, axis[1:])) and axis[origin] == 0.0)
    if not well_formed:
        # e.g. CTMCUniformGrid when the model's truncation bound is within 2h of the origin: grid well-formedness is C13
        sh.count("grid_outside_alphabet")
        sh.cls("grid:degenerate-skipped")
        return
    mcp = MarkovChainProcess(model=model, method=SamplingMethod.INVERSION, grid=grid)
    mcp.initialisation(_fake_product())
    pd = _re(mcp.process_drift())
    if math.isnan(pd):
        sh.violation(f"C10:martingale-chain:MarkovChainProcess.process_drift:not-a-real-number:{kl}",
                     f"{A.model_label(spec)} on {gspec}: process_drift() = {mcp.process_drift()!r}", None)
        return
    # the original model must not have been touched by the chain (it works on a deep copy)
    a_after, _, _, rep_after, _ = _triplet(model)
    if (a_after, rep_after) != (a, rep):
        sh.violation(f"C10:martingale-chain:MarkovChainProcess:changes-the-callers-model:{kl}",
                     f"triplet was ({a}, {rep}), is ({a_after}, {rep_after}) after building the chain", None)
    rtol = _rtol(fv)
    # grid compensation recomputed from the axis and the density
    cells, central = O.ref_cells(axis, origin)
    mu_h = e_h = 0.0
    for x, cell in zip(axis, cells):
        if cell is None:
            continue
        v, e = _int(nu, cell[0], cell[1], 0)
        mu_h += x * v
        e_h += abs(x) * e
    v_cut = 0.0 if fv else 1.0
    mu_t = e_t = 0.0
    if lo < -v_cut:
        v, e = _int(nu, lo, -v_cut, 1)
        mu_t += v
        e_t += e
    if hi > v_cut:
        v, e = _int(nu, v_cut, hi, 1)
        mu_t += v
        e_t += e
    b = pd + mu_h - mu_t
    j_in, e_in = _lk(nu, -1j, "TILDE", fv, lo=lo, hi=hi)
    j_l, e_l = _lk(nu, -1j, rep, fv, lo=-INF, hi=lo)
    j_r, e_r = _lk(nu, -1j, rep, fv, lo=hi, hi=INF)
    lhs = b + 0.5 * sigma ** 2 + j_in.real
    rhs = (r - d) - (j_l.real + j_r.real)
    err = e_h + e_t + e_in + e_l + e_r
    scale = max(abs(pd), abs(mu_h), abs(mu_t), abs(j_in.real), 0.5 * sigma ** 2, abs(r - d), abs(j_l.real + j_r.real))
    if not (err <= ATOL + rtol * scale):
        sh.count("oracle_inconclusive")
        return
    sh.count("evaluations")
    sh.nontriv()
    sh.outcome((round(pd, 10), round(lhs, 10)))
    sh.sample({"sub": "mart-chain", "model": A.model_label(spec), "grid": gspec, "points": len(axis),
               "process_drift": pd, "mu_h": mu_h, "mu_tilde": mu_t, "lhs": lhs, "rhs": rhs})
    if not core.close(lhs, rhs, rtol=rtol, atol=ATOL, scale=scale):
        sh.violation(
            f"C10:martingale-chain:MarkovChainProcess.process_drift:discounted-spot-not-a-martingale:{kl}",
            f"{A.model_label(spec)} on {gspec}: chain drift before grid compensation b = {b!r}; b + sigma^2/2 + "
            f"int_T (e^x-1-x c~) nu = {lhs!r} but (r-d) - truncation effect = {rhs!r}: E[S_T] = forward * exp({lhs - rhs:.6g} T) "
            "under the exact jump law",
            {"process_drift": pd, "mu_h": mu_h, "mu_tilde": mu_t, "b": b, "lhs": lhs, "rhs": rhs, "excess": lhs - rhs,
             "truncation": [lo, hi], "declared": rep, "quad_err": err},
        )
