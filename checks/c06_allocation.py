"""C06 - sample allocation meets the variance budget; runs stop only on stated criteria.

Sub-checks
 alloc     lattice: every (vl, cl) vector of length 1..5 over V = {0, 1e-16, 1e-6, 1e-2, 1, 50} x C = {0.5, 1, 8, 1e3} (quick: length
           <= 4) and rmse in {1, 0.1, 1e-3}, through the criteria object of GilesConvergenceCriteria; lengths 1..2 (thorough: 3)
           also through the two other public ROUTES to the same functions (a ConvergenceCriteria of the module-level
           functions, the default criteria of a ConfigurationMultiLevel; key suffix :<route>-route):
           N_l non-negative integers; sum_l V_l/N_l (0/0 read as 0) <= rmse^2 - (bias tolerance)^2 (relative slack 1e-9: N_l >=
           the real-valued optimum bounds the sum by the budget up to rounding, whatever the size of N), the consequence of the
           statement's two clauses. Nothing is read from the source: the bias tolerance is measured from the behaviour of the
           stopping test (sub-check budget), so the variance budget is what the stopping test leaves of rmse^2. Three fixed
           probe vectors are allocated before and after the enumeration of a case and must give the same sizes (the allocation
           is a function of its arguments).
 alloc0    the same with zero costs in the alphabet (the statement's "including zeros"): reported under its own key
           (open known finding: a zero-cost level with positive variance). In alloc and alloc0 the arrays handed over are
           compared with copies after every call (the engine goes on using its vl, cl).
 forms     ARGUMENT FORMS of the public functions: the same mathematical input in every legal form, same answer required.
           alloc part - points: the lattice of vectors of length 0..3 over the WHOLE-NUMBER alphabets V = {0, 1, 3, 16, 200} x
           C = {0.5, 1, 50} x rmse {0.5, 1, 2, 3} (sample sizes of a few units to a few thousand, where a rounding in the wrong
           direction shows), and special points: exact ties of the rounding (the real-valued optimum is a whole number: V=[3],
           C=[1], rmse 2 ...), an optimum below one path, everyday vectors, LONG vectors (51 = default maximum level and 300
           levels; geometric, flat, periodic). Forms - variances: int64 / int32 / uint8 / uint16 / float32 arrays, read-only
           array, strided view, list and tuple of floats / of ints, (1, n) row; costs: float32, read-only, strided, (1, n) row,
           int64, list of floats, tuple of ints (answered since 688714a); rmse: Python int, np.float64, np.float32, np.int64, np.int32, 0-d array; the keyword call of
           compute_mc_paths_giles. A form is applied where it holds the values exactly. quick: every form of one argument
           with the others usual, the pairs {int64, uint8, list-int, float32} x {python-int, np.float64, 0-d} and six stated
           triples (length 3: one argument at a time); thorough: the complete product of forms for lengths <= 2 and the
           special points. Oracle: non-negative integer array of the right length; the sizes EQUAL those of the usual form
           (float64 arrays, Python float) - if not, sum V/N <= budget decides the key; float32 forms (the library may compute
           in single precision) are judged by the inequality only (1e-5); the argument objects are unchanged after the call;
           the answer is unchanged after the caller overwrote the earlier answer and the earlier argument arrays. The usual
           form itself is judged with tolerance 1e-9 (alloc: 1e-6). Array forms must be answered (raise = violation);
           lenient forms (list / tuple / row, integer and sequence COSTS) are counted when the tree raises and judged when it
           answers.
           LARGE INTEGERS (points "large-integers"): BOTH vectors integer-typed with entries that are large for the type, so
           that a product V_l C_l (a square, the sum of the products) evaluated in the integer type of the arguments would wrap:
           classes products-beyond-uint8 (V {0, 12, 50, 200} x C {2, 32, 255}), -uint16 (V {0, 300, 15000, 60000} x C {2, 300,
           65535}), -int32 (V {0, 6000, 1e5, 2e9} x C {5e4, 8e5, 2^31-1}), -int64 (V {0, 6e10, 5e11, 1e12} x C {2e7, 3.2e8,
           2^52}), entries-beyond-uint64 (V {0, 2^66, 2^70} x C {1, 2^10, 2^64}: lists / tuples only), vectors of length 1..2
           (thorough: 3) and 12 special vectors (the sum but no single product beyond the range; 20 and 30 geometric levels;
           a zero variance inside), each with three rmse (powers of two: largest size about 1000 / 100 / a few units). Forms of
           each vector: float64 (usual), int64, int32, int16, uint8, uint16, uint32, uint64, list and tuple of Python ints -
           quick: every PAIR of forms with the usual rmse and both vectors in one integer form x rmse {Python int, np.int64,
           np.int32, np.float64, 0-d}; thorough: the complete product for lengths <= 2. Oracle: the float64 form itself meets
           sum V/N <= budget (1 + 1e-9) in EXACT RATIONAL arithmetic (Fractions of the integer letters; a level of positive
           variance without a sample = infinite); every other form gives the SAME sizes - if not, the exact inequality decides
           the key; arguments unchanged. Keys end with :large-values-<class>. In the alphabet since fix a8fe45e: rmse as a numpy
           INTEGER scalar whose square leaves its type (np.int32(50000): the tree squared it in int32 and returned
           negative sizes; switch RMSE_SQUARE_MUST_FIT).
           stop part - ml in {0, 1, 2, 3, 4, 8}^3 (for alpha > 2: {0, 1, 2, 8, 64, 512}^3, so that the third-last term can
           decide) preceded by nothing / one level, alpha {0.5, 1, 2, 2.5, 3, 4}, rmse {1, 2, 4, 8} (exact ties
           rem == tolerance included); the verdict of the USUAL form is itself judged one-sidedly against giles_estimate
           (an accepted bias estimate must be within the tolerance; key ...:usual-form:<dominating term>:<alpha class>);
           forms of ml (integer dtypes, float32, read-only, strided, list / tuple of floats /
           ints), of alpha and of rmse (as above): same verdict as the usual form (key says whether a bias estimate above
           the tolerance is accepted), arguments unchanged.
           The same lattice with means and rmse multiplied by 2^24 (values near the end of
           int32; verdicts scale exactly) for alpha 1 and 3 (thorough: every alpha).
           engine part - ConvergenceRates / ConfigurationMultiLevel / Engine.price with their numbers as Python ints where
           whole (rmse=1, alpha=2), as numpy scalars (np.int64 levels and paths, np.float64 rates and rmse), rmse as a 0-d
           array; and the pricing run on copy.copy / copy.deepcopy / a dill round trip of the configuration after which the
           ORIGINAL is re-parametrised through its public attributes: decay {0.6, 1, 2} x 5 kinds of rates x rmse {1, 0.2}, and
           decay {2.5, 3, 4} (weak rates above 2; 3 and 4 also as ints; scaled profile with levels 1 and 2 bumped x8) x
           {regressed, given, alpha-only} (thorough: 5 kinds); judge_run on every run and the same (L, Nl, converged, bias tests, weak rates) as in the usual form.
 budget    bias tolerance of the stopping test measured behaviourally: for alpha in {0.1, 0.25, 0.4, 0.5, 1, 2, 2.5, 3, 4} the largest
           last-level mean the criterion accepts is found by bisection (ml = (x, x, x)), giving tol(alpha) = sup rem accepted /
           rmse; then tol^2 + share <= 1 + 1e-6.
 rays      the same measurement in EVERY direction of the last three level means, not only the diagonal: for each direction d
           in {0, 0.25, 1, 4}^3 without the origin (decreasing, flat, increasing, one level dominating, levels vanishing), preceded by no
           / one / two further levels, alpha in {0.1, 0.25, 0.5, 0.6, 1, 2, 2.5, 3, 4} (one case per alpha; for the rates ABOVE 2 -
           high-order scheme, smooth payoff, or regressed from fast-decaying means - the letters are {0, 0.25, 1, 4, 64, 1024}:
           the weight 4^a of the third-last mean is 32 .. 256), rmse in {1, 0.1, 1e-3}; alpha {0.1, 1, 2.5, 3} (thorough: 7
           rates) also through the two other routes to the criteria (see alloc): sup x accepted for ml = x d by
           bisection; the accepted bias estimate x * max(d_L, d_{L-1}/2^a, d_{L-2}/4^a)/(2^a-1) (Giles' remainder, written out
           in giles_estimate: which end of the vector is the finest level is part of the reference) must satisfy
           estimate^2 + variance share <= rmse^2. One-sided: a criterion that is stricter than needed is not reported. Keys end
           with the class of the weak rate (alpha<0.5 / alpha>=0.5 / alpha>2).
 shape     the criterion is monotone (accepting ml implies accepting any smaller ml on a lattice), and looks at the last three
           levels as stated in Giles' remainder estimate (checked on the lattice {1e-3, 1e-2, 1e-1, 1}^3 x alpha {0.25, 0.5, 1, 2, 3}).
 loop      the C05 choice exploration with a different oracle, per run (judge_run): terminates within the horizon; no
           simulate call and no next_level beyond maximum_level; the weak rate passed to the stopping test is the configured
           one or the regression of the very means it is tested on; returns only when the last evaluation of the bias test
           was True or the maximum level is reached; the verdict is NOT taken on trust: below the maximum level the bias
           estimate recomputed from the tested means with the reference weak rate must be within sqrt(rmse^2 - variance share
           rmse^2); the tested means are the reported sample means (the engine may only raise levels >= 3: its work-around for
           vanishing means); at return every level has Nl >= N*_l / 1.01 with N* recomputed by the criteria object from the
           reported vl, cl.
           HIGH-ORDER loop (the C05 lattice has the first-order rates alpha = 1, beta = 2 only; key suffix :high-order): weak
           decay a in {2.5, 3, 4}, level means 2^(a (3 - l)), level sd 2^(-l), cost 2^l, rates given (a, 2, 1) / regressed,
           rmse 0.5 (one config each 0.3; thorough: rmse x initial paths x maximum level 5 / 6); the environment chooses per
           level (at its first batch) one of {default, large variance, zero mean, mean x2, x4, x8, x64, mean that does not
           decay} - a multiplied mean two levels below the last is the case where the third-last extrapolated term decides -
           and per later batch default / large variance; every history with at most 1 (thorough: also 2) non-default answers.
 profile   the same oracle on scripted NON-GEOMETRIC level means (the regimes of loop are all geometric): m_l = 0.5 2^(-a l)
           mult_l, a in {0.6, 1, 2}, mult = 1 except on one level or two levels (quick: adjacent; thorough: any pair) where it
           ranges over {0, 1/8, 8, 64} (a mean that vanishes / dips / rises / dominates), every position 0..maximum_level; the
           plain profiles additionally x rmse {0.05, 0.2, 1} x rates {regressed, all given, alpha only given, beta+gamma only
           given, all given through compute_convergence_rates(Blumenthal-Getoor index)} x level sd {1e-3 rmse (no extra samples), rmse (allocation passes)} x criteria {default, shared
           GilesConvergenceCriteria object, ConvergenceCriteria of the two Giles functions, criteria_run_to_maximum_level} x
           (initial_level, initial_mc_paths) {(2, 4), (3, 7)}. Thorough: maximum_level 6 and 8, both rmse and both sd on the
           bumped profiles. Deepest hierarchy: maximum_level 50 (the default), plain profiles, run to the maximum level
           (criteria_run_to_maximum_level) and with the Giles test, rates regressed / given.
           WEAK RATES ABOVE 2 (key suffix :high-order): a in {2.5, 3, 4} with m_l = 2^(a (3 - l)) / 2 mult_l (the runs are decided
           on levels 2..5): plain profiles x 3 rmse x 6 kinds of rates (the five above and (a, 2a, 1) given) x 2 sd x criteria
           {default, functions} (thorough: all 4, both starts); bumped profiles as above (a bump two levels below the last =
           the third-last term decides); maximum_level 50 for a = 3. A GIVEN weak rate that is not the decay of the means:
           (decay, rate) in {(4, 2.5), (3, 2.5), (4, 3), (2.5, 4), (2, 3), (1, 2.5)} x rates {given, alpha-only} x 3 rmse x 2 sd.
           Other starts for every decay: (initial_level, initial_mc_paths) {(5, 3), (6, 2) = maximum level, (2, 100)}. Slow / no
           decay: a = 0.3 (regressed rate floored; alpha = 0.3 given alone and through compute_convergence_rates(1.4)), a = 0.
 history   several pricings in ONE process (the statement quantifies over histories; the library's scripts price a list of
           rmse one after the other). First pricing: scenario {fast decay, slow decay, a rising level mean} x rates (4 kinds) x
           construction route of the rates {explicit object, DEFAULT ARGUMENT of ConfigurationMultiLevel (one instance shared
           by all configurations), None} x operation {price, for the default route also price_with_constant_mc_paths_and_level}.
           Later pricing: scenario {slow, fast with other maximum_level / initial paths, two rising means with another rmse} x
           menu {same configuration object + new engine, same engine (coupling process re-assigned), deepcopy / copy.copy /
           dill round trip of the configuration, deepcopy of the engine, new configuration through the default argument /
           None / explicit regressed / explicit alpha-only,
           public attributes of the old configuration re-assigned (rates regressed / given / beta+gamma, criteria, levels,
           paths)}. Thorough: a third pricing from a reduced menu, three more scenarios each (one with a weak rate above 2). Oracle: judge_run on every
           pricing, and (L, Nl, converged, sequence of bias tests, weak rates) of every pricing equals that of the SAME
           pricing run alone in fresh, explicitly constructed objects.
 In loop / profile / history / forms-engine the two functions of the criteria object are also watched for writing to the arrays
 the engine hands them (vl, cl, ml: compared with copies after every call).
Not covered: zero
costs in the forms sub-check (known finding, alloc0); integer-scalar rmse whose square leaves its type (see forms); a weak rate of exactly 0 given (2^0 - 1 = 0: the estimate is infinite); sample
sizes beyond 2^63 (rmse below about 1e-9 with unit variances); boolean / complex / object arrays; ConvergenceCriteria built from user
functions other than the three of criteria.py; rmse outside the stated values; real coupling processes; initial_level < 2 (the bias test needs three levels: Engine.price raises IndexError there - the
statement is silent); initial_level > maximum_level; initial_mc_paths = 0; nb_of_processes > 1 (C08).
"""
from __future__ import annotations

import itertools
import math

import numpy as np

from checks import c05_mlmc_estimator as C5
from mc import core
from mc import mlmc_driver as D

PID = "C06"
LEVEL = "model_checking"
RULE = (
    "alloc: complete product of variance/cost alphabets for vector lengths 1..5 x 3 rmse; forms: every point of the stated "
    "whole-number lattices and special points x every stated combination of argument forms (thorough: complete product of "
    "forms); rays: every direction of the stated "
    "lattice x alpha x rmse; loop: every configuration of the C05 lattice x every regime sequence with at most D deviations; "
    "profile: every scripted level-mean profile of the stated alphabet x options; history: every sequence of 2 (thorough: 3) "
    "pricings of the stated scenario x route menu; one evaluation = one complete run of the real Engine.price (or one call "
    "of the criteria functions); non-trivial = the case compared at least one allocation / completed at least two distinct "
    "runs; states = distinct loop trajectories / run signatures, transitions = choice points taken"
)
ASSUMPTIONS = C5.ASSUMPTIONS + [
    "the variance share and the bias tolerance are measured from the behaviour of compute_mc_paths / criteria, not read "
    "from the source",
]
CHUNK = 1

V_ALPHA = [0.0, 1e-16, 1e-6, 1e-2, 1.0, 50.0]  # 1e-16: a positive variance whose optimal size is far below one sample
C_ALPHA = [0.5, 1.0, 8.0, 1e3]
RMSES = [1.0, 0.1, 1e-3]


def cases(tier):
    thorough = tier == "thorough"
    out = []
    maxlen = 5 if thorough else 4
    for n in range(1, maxlen + 1):
        # shard the product by the first variance letter (and second for the long vectors)
        for v0 in range(len(V_ALPHA)):
            if n >= 4:
                for v1 in range(len(V_ALPHA)):
                    out.append({"sub": "alloc", "n": n, "v0": v0, "v1": v1, "zero_cost": False})
            else:
                out.append({"sub": "alloc", "n": n, "v0": v0, "v1": None, "zero_cost": False})
    for n in range(1, 4):
        out.append({"sub": "alloc", "n": n, "v0": None, "v1": None, "zero_cost": True})
    for route in CRITERIA_ROUTES[1:]:  # the other public routes to the same two functions
        for n in ((1, 2, 3) if thorough else (1, 2)):
            out.append({"sub": "alloc", "n": n, "v0": None, "v1": None, "zero_cost": False, "route": route})
        for a in ((0, 2, 4, 5, 6, 7, 8) if thorough else (0, 4, 6, 7)):
            out.append({"sub": "rays", "alpha": a, "route": route})
    out.append({"sub": "budget"})
    out.append({"sub": "shape"})
    for a in range(len(RAY_ALPHAS)):
        out.append({"sub": "rays", "alpha": a})
    out += forms_cases(tier)
    out += profile_cases(tier)
    out += history_cases(tier)
    for c in C5.cases(tier):
        if c["sub"] == "adaptive":
            out.append(dict(c, sub="loop"))
    out += high_order_loop_cases(tier)
    return out


def check_case(sh, case):
    {"alloc": _alloc, "budget": _budget, "shape": _shape, "rays": _rays, "loop": _loop, "profile": _profile,
     "history": _history, "forms": _forms}[case["sub"]](sh, case)


CRITERIA_ROUTES = ["object", "functions", "configuration"]


def _criteria(route="object"):
    """The pair (criteria, compute_mc_paths) by each public route to it: the GilesConvergenceCriteria object (the usual one),
    a ConvergenceCriteria of the two module-level functions, the default criteria of a ConfigurationMultiLevel."""
    from rpylib.montecarlo.multilevel import criteria as K

    if route == "functions":
        return K.ConvergenceCriteria(criteria=K.criteria_giles, compute_mc_paths=K.compute_mc_paths_giles)
    if route == "configuration":
        from rpylib.montecarlo.configuration import ConfigurationMultiLevel

        return ConfigurationMultiLevel(seed=None, nb_of_processes=1).convergence_criteria
    return K.GilesConvergenceCriteria()


def variance_share(crit):
    """sup over large-sample vectors of sum V/N / rmse^2 (rounding negligible): the share the allocation aims at."""
    best = 0.0
    for vl, cl in (([1.0], [1.0]), ([1.0, 0.01], [1.0, 8.0]), ([50.0, 1.0, 0.01], [0.5, 1.0, 8.0])):
        vl, cl = np.array(vl), np.array(cl)
        N = np.asarray(crit.compute_mc_paths(1e-3, vl, cl), dtype=float)
        best = max(best, float(np.sum(vl / N)) / 1e-6)
    return best


def _alloc(sh, case):
    crit = _criteria(case.get("route", "object"))
    rsuf = f":{case['route']}-route" if case.get("route") else ""
    # The two clauses of the statement combine into: sum V/N <= rmse^2 - (bias tolerance)^2. The bias tolerance is measured
    # from the behaviour of the stopping test, so the budget does not depend on how the source names its constants.
    tol = bias_tolerance(crit, 1.0)
    share = 1.0 - (tol if tol is not None else 0.0) ** 2
    n = case["n"]
    c_alpha = ([0.0] + C_ALPHA) if case["zero_cost"] else C_ALPHA
    v_axes = [V_ALPHA] * n
    if case["v0"] is not None:
        v_axes = [[V_ALPHA[case["v0"]]]] + v_axes[1:]
    if case["v1"] is not None:
        v_axes = v_axes[:1] + [[V_ALPHA[case["v1"]]]] + v_axes[2:]
    worst = 0.0
    probe = lambda: [np.asarray(crit.compute_mc_paths(r, np.array(v), np.array(c))).tolist()  # noqa: E731
                     for r, v, c in ((0.1, [1.0, 0.01], [1.0, 8.0]), (1.0, [50.0], [0.5]), (1e-3, [1e-2, 1e-6, 1.0], [1.0, 8.0, 1e3]))]
    before = probe()
    for vt in itertools.product(*v_axes):
        vl = np.array(vt, dtype=float)
        for ct in itertools.product(c_alpha, repeat=n):
            if case["zero_cost"] and 0.0 not in ct:
                continue
            cl = np.array(ct, dtype=float)
            zc = "zero-cost-level" if 0.0 in ct else "positive-costs"
            a_v, a_c = vl.copy(), cl.copy()  # the caller's arrays, handed over for every rmse and compared afterwards
            for rmse in RMSES:
                sh.count("evaluations")
                with np.errstate(all="ignore"):
                    N = np.asarray(crit.compute_mc_paths(rmse, a_v, a_c))
                if N.shape != vl.shape or not np.issubdtype(N.dtype, np.integer) or np.any(N < 0):
                    sh.violation(f"C06:alloc:sample-sizes-not-non-negative-integers:{zc}{rsuf}",
                                 f"compute_mc_paths({rmse}, {vl.tolist()}, {cl.tolist()}) = {N.tolist()}", None)
                    continue
                Nf = N.astype(float)
                with np.errstate(all="ignore"):
                    terms = np.where(vl == 0.0, 0.0, vl / Nf)
                est = float(np.sum(terms))
                budget = share * rmse ** 2
                # N_l >= the real-valued optimum x_l (up to the rounding of x_l itself) gives sum V/N <= sum V/x = budget up to a
                # few ulps, whatever the size of N: the slack does not have to absorb "one sample less"
                if not (est <= budget * (1 + 1e-9)):
                    which = "zero-variance-present" if 0.0 in vt else "positive-variances"
                    sh.violation(f"C06:alloc:estimator-variance-exceeds-variance-share:{zc}:{which}{rsuf}",
                                 f"rmse={rmse}, vl={vl.tolist()}, cl={cl.tolist()}: N={N.tolist()}, sum V/N = {est:.6g} > "
                                 f"rmse^2 - (accepted bias)^2 = {share:.6g} rmse^2 = {budget:.6g}", {"share": share})
                worst = max(worst, est / budget if budget else 0.0)
            if not (np.array_equal(a_v, vl) and np.array_equal(a_c, cl)):  # the engine goes on using its vl, cl
                sh.violation(f"C06:alloc:argument-array-modified:{zc}{rsuf}",
                             f"compute_mc_paths(rmse, {vl.tolist()}, {cl.tolist()}) for rmse in {RMSES} left vl={a_v.tolist()}, "
                             f"cl={a_c.tolist()} in the caller's arrays", None)
    after = probe()
    if after != before:  # the allocation is a function of its arguments: the calls in between must not change it
        sh.violation("C06:alloc:sample-sizes-depend-on-earlier-calls",
                     f"the same three (rmse, vl, cl) give {before} before and {after} after the enumeration of this case", None)
    sh.outcome((n, case["v0"], case["v1"], case.get("route"), round(worst, 6)))
    sh.nontriv()
    if case["n"] == 2 and case["v0"] == 3:
        sh.sample({"sub": "alloc", "measured_variance_share": share, "worst_ratio_to_budget": worst})


def bias_tolerance(crit, alpha, rmse=1.0):
    """sup x such that criteria(alpha, (x,x,x), rmse) is True, by bisection; returned as accepted remainder / rmse where
    remainder = x / (2^alpha - 1) (Giles' estimate of the remaining bias for a constant tail)."""
    lo, hi = 0.0, 10.0 * rmse * (2 ** alpha)
    if not crit.criteria(alpha, np.array([lo, lo, lo]), rmse):
        return None
    for _ in range(200):
        mid = 0.5 * (lo + hi)
        if crit.criteria(alpha, np.array([mid, mid, mid]), rmse):
            lo = mid
        else:
            hi = mid
    return lo / (2 ** alpha - 1) / rmse


def _budget(sh, case):
    crit = _criteria()
    share = variance_share(crit)
    # weak rates below 0.5 are legitimate (Blumenthal-Getoor index above 1), and so are rates above 2 (high-order scheme)
    for alpha in (0.1, 0.25, 0.4, 0.5, 1.0, 2.0, 2.5, 3.0, 4.0):
        for rmse in RMSES:
            sh.count("evaluations")
            tol = bias_tolerance(crit, alpha, rmse)
            sh.outcome((alpha, rmse, None if tol is None else round(tol, 9)))
            if tol is None:
                sh.violation("C06:budget:criterion-rejects-zero-bias", f"criteria({alpha}, zeros, {rmse}) is False", None)
                continue
            total = tol ** 2 + share
            if total > 1 + 1e-6:
                sh.violation(f"C06:budget:bias-tolerance-squared-plus-variance-share-exceeds-rmse-squared:{alpha_class(alpha)}",
                             f"alpha={alpha}, rmse={rmse}: accepted bias {tol:.6f} rmse (squared {tol ** 2:.4f}) + variance share "
                             f"{share:.4f} = {total:.4f} > 1", {"tol": tol, "share": share})
    sh.nontriv()
    sh.sample({"sub": "budget", "variance_share": share, "bias_tolerance_over_rmse": bias_tolerance(crit, 1.0)})


def _shape(sh, case):
    crit = _criteria()
    vals = [1e-3, 1e-2, 1e-1, 1.0]
    for alpha in (0.25, 0.5, 1.0, 2.0, 3.0):
        for rmse in (1.0, 0.1):
            acc = {}
            for ml in itertools.product(vals, repeat=3):
                sh.count("evaluations")
                acc[ml] = bool(crit.criteria(alpha, np.array(ml), rmse))
                # a longer history must not matter beyond the last three levels
                longer = bool(crit.criteria(alpha, np.array((5.0,) + ml), rmse))
                if longer != acc[ml]:
                    sh.violation("C06:shape:criterion-depends-on-levels-before-the-last-three",
                                 f"alpha={alpha} rmse={rmse} ml={ml}: {acc[ml]} but {longer} with an extra leading level", None)
            for a, b in itertools.product(acc, repeat=2):
                if all(x <= y for x, y in zip(a, b)) and acc[b] and not acc[a]:
                    sh.violation("C06:shape:criterion-not-monotone", f"alpha={alpha} rmse={rmse}: accepts {b} but rejects {a}", None)
            sh.outcome((alpha, rmse, sum(acc.values())))
    sh.nontriv()


# ----------------------------------------------------------------------------------------------------------------------
# rays: the bias tolerance of the stopping test in every direction of the last three level means
# ----------------------------------------------------------------------------------------------------------------------

RAY_LETTERS = [0.0, 0.25, 1.0, 4.0]
# weak rates above 2 (smooth payoff / high-order scheme, or regressed from fast-decaying means): the weight 4^a of the third-last
# mean is 32 .. 256, so the direction alphabet gets two larger letters there (a third-last mean that dominates the other two
# extrapolated terms although these do not vanish)
RAY_LETTERS_HIGH = [0.0, 0.25, 1.0, 4.0, 64.0, 1024.0]
RAY_ALPHAS = [0.1, 0.25, 0.5, 0.6, 1.0, 2.0, 2.5, 3.0, 4.0]


def alpha_class(alpha):
    """Input class of a weak rate in the violation keys."""
    return "alpha<0.5" if alpha < 0.5 else "alpha>2" if alpha > 2 else "alpha>=0.5"


def giles_estimate(ml, alpha):
    """Giles' estimate of the bias that remains after the last level, written out as the independent reference of the
    stopping test: max(m_L, m_{L-1}/2^a, m_{L-2}/4^a) / (2^a - 1), the last three level means extrapolated to the last
    level with the weak rate a (one division by 2^a per level of distance) and summed over the levels not simulated.
    Returns (value, name of the dominating term)."""
    w = 2.0 ** float(alpha)
    terms = [float(ml[-1]), float(ml[-2]) / w, float(ml[-3]) / w / w]
    k = max(range(3), key=lambda i: (terms[i], -i))
    return terms[k] / (w - 1.0), ("last-level", "previous-level", "third-last-level")[k]


def _rays(sh, case):
    crit = _criteria(case.get("route", "object"))
    rsuf = f":{case['route']}-route" if case.get("route") else ""
    share = variance_share(crit)
    left = math.sqrt(max(0.0, 1.0 - share))  # what the allocation leaves of rmse for the bias
    worst = 0.0
    probe = lambda: [bool(crit.criteria(a, np.array(m), r)) for a in (0.5, 1.0, 2.0, 3.0) for r in (1.0, 0.1)  # noqa: E731
                     for m in ([0.3, 0.2, 0.1], [0.01, 0.02, 0.04], [1.0, 0.01, 0.01], [5.0, 0.04, 0.02, 0.01], [40.0, 0.5, 0.01])]
    before = probe()
    alphas = RAY_ALPHAS if case.get("alpha") is None else [RAY_ALPHAS[case["alpha"]]]
    for alpha in alphas:
        letters = RAY_LETTERS_HIGH if alpha > 2 else RAY_LETTERS
        for rmse in RMSES:
            for d3 in itertools.product(letters, repeat=3):
                if not any(d3):
                    continue
                for lead in ((), (5.0,), (0.0, 5.0)):
                    d = np.array(lead + d3, dtype=float)
                    sh.count("evaluations")
                    g, dom = giles_estimate(d, alpha)
                    sh.cls(f"rays:{alpha_class(alpha)}:{dom}-dominates")
                    big = 1e9 * rmse
                    if crit.criteria(alpha, big * d, rmse):
                        sup = math.inf
                    elif not crit.criteria(alpha, 0.0 * d, rmse):
                        sh.violation("C06:rays:criterion-rejects-zero-bias", f"criteria({alpha}, zeros, {rmse}) is False", None)
                        continue
                    else:
                        lo, hi = 0.0, big
                        for _ in range(120):
                            mid = 0.5 * (lo + hi)
                            if crit.criteria(alpha, mid * d, rmse):
                                lo = mid
                            else:
                                hi = mid
                        sup = lo
                    accepted = sup * g / rmse  # largest accepted bias estimate in units of rmse
                    worst = max(worst, accepted)
                    if not (accepted <= left * (1 + 1e-6)):
                        sh.violation(f"C06:rays:accepted-bias-estimate-squared-plus-variance-share-exceeds-rmse-squared:{dom}-dominates:{alpha_class(alpha)}{rsuf}",
                                     f"alpha={alpha}, rmse={rmse}: level means x*{d.tolist()} are accepted up to x={sup:.6g}, i.e. a bias "
                                     f"estimate max(m_L, m_L-1/2^a, m_L-2/4^a)/(2^a-1) of {accepted:.6f} rmse; squared {accepted ** 2:.4f} + "
                                     f"variance share {share:.4f} > 1", {"share": share, "direction": d.tolist()})
            sh.outcome((alpha, rmse, round(min(worst, 1e6), 6)))
    if probe() != before:  # the stopping test is a function of its arguments
        sh.violation("C06:rays:verdict-depends-on-earlier-calls", f"the same {len(before)} (alpha, ml, rmse) gave {before} before the "
                     f"enumeration, {probe()} after", None)
    sh.nontriv()
    if case.get("alpha") in (None, 4):
        sh.sample({"sub": "rays", "alphas": alphas, "variance_share": share, "largest_accepted_bias_estimate_over_rmse": worst})


# ----------------------------------------------------------------------------------------------------------------------
# one pricing observed and judged (shared by loop, profile, history)
# ----------------------------------------------------------------------------------------------------------------------

def observe_price(eng, product, rmse, op="price"):
    """Runs eng.price (or the fixed-level variant) with the two functions of the criteria object observed."""
    import warnings

    crit = eng.configuration.convergence_criteria
    calls = {"criteria": [], "paths": [], "modified": []}
    orig_criteria, orig_paths = crit.criteria, crit.compute_mc_paths

    def criteria(alpha, ml, rmse_):
        given = np.array(ml, dtype=float)
        r = orig_criteria(alpha, ml, rmse_)
        if not np.array_equal(given, np.asarray(ml, dtype=float), equal_nan=True):
            calls["modified"].append(("criteria", "ml", given.tolist(), np.asarray(ml, dtype=float).tolist()))
        calls["criteria"].append((float(alpha), given.tolist(), bool(r)))
        return r

    def compute_mc_paths(rmse_, vl, cl):
        given = (np.array(vl, dtype=float), np.array(cl, dtype=float))
        r = orig_paths(rmse_, vl, cl)
        for name, g, now in (("vl", given[0], vl), ("cl", given[1], cl)):
            if not np.array_equal(g, np.asarray(now, dtype=float), equal_nan=True):
                calls["modified"].append(("compute_mc_paths", name, g.tolist(), np.asarray(now, dtype=float).tolist()))
        calls["paths"].append(np.asarray(r).tolist())
        return r

    crit.criteria, crit.compute_mc_paths = criteria, compute_mc_paths
    outcome, stats = "returned", None
    try:
        with np.errstate(all="ignore"), warnings.catch_warnings():
            warnings.simplefilter("ignore")
            if op == "price":
                stats = eng.price(product, rmse)
            else:
                stats = eng.price_with_constant_mc_paths_and_level(product)
    except C5.Horizon:
        outcome = "horizon"
    finally:
        crit.criteria, crit.compute_mc_paths = orig_criteria, orig_paths
    return {"calls": calls, "stats": stats, "outcome": outcome, "orig_paths": orig_paths, "crit": crit}


def judge_run(sh, sub, suffix, obs, rec, *, Lmax, rmse, rates, alpha_given):
    """The oracle of the statement's second sentence on one observed pricing. `rates`: which rates the configuration gives
    ("given" / "alpha-only": the weak rate is alpha_given; "regressed" / "alpha-regressed": it is regressed). Returns the
    signature of the run (what a history must not change)."""
    calls, stats = obs["calls"], obs["stats"]
    regimes = rec.regime_log
    if obs["outcome"] == "horizon":
        sh.violation(f"C06:{sub}:no-termination-within-horizon{suffix}",
                     f"run still simulating after {C5.HORIZON} batches at one level", {"regimes": regimes[:40]})
    # the two functions of the criteria object read the engine's arrays (the engine goes on using them): they must not write
    for (fn, name, given, now) in calls.get("modified", [])[:1]:
        sh.violation(f"C06:{sub}:criteria-object-wrote-to-the-argument-array-of-the-engine:{fn}:{name}{suffix}",
                     f"{fn} was handed {name}={given} and left {now} in the caller's array", {"regimes": regimes[:40]})
    # never above the configured maximum
    top_sim = max(rec.simulate_levels) if rec.simulate_levels else 0
    top_next = max(rec.next_level_calls) if rec.next_level_calls else 0
    if top_sim > Lmax:
        sh.violation(f"C06:{sub}:simulated-a-level-above-the-maximum{suffix}", f"simulated level {top_sim} > maximum_level {Lmax}",
                     {"regimes": regimes[:40]})
    if top_next > Lmax:
        sh.violation(f"C06:{sub}:created-a-level-above-the-maximum{suffix}", f"next_level up to {top_next} > maximum_level {Lmax}",
                     {"regimes": regimes[:40]})
    # the weak rate handed to the stopping test: the configured one, or the regression of the very ml vector it is tested on
    # (slope of log2(ml[1:]) against the level, floored at 0.5 - the estimator the engine documents)
    weak_given = rates in WEAK_RATE_GIVEN
    alpha_refs = []
    flagged = False
    for (alpha_used, ml_used, verdict) in calls["criteria"]:
        if weak_given:
            alpha_ref = float(alpha_given)
        else:
            with np.errstate(all="ignore"):
                y = np.log2(np.array(ml_used[1:], dtype=float)) if len(ml_used) > 1 else np.array([])
            if y.size < 2 or not np.all(np.isfinite(y)):
                alpha_refs.append(None)
                sh.count("oracle_inconclusive")
                continue
            slope = np.polyfit(np.arange(1, len(ml_used)), y, 1)[0]
            alpha_ref = max(0.5, -float(slope))
        alpha_refs.append(alpha_ref)
        if not flagged and not core.close(alpha_used, alpha_ref, rtol=1e-6, atol=1e-9):
            flagged = True
            sh.violation(f"C06:{sub}:stopping-test-evaluated-with-another-weak-rate:{rates}{suffix}",
                         f"criteria called with alpha={alpha_used!r} on ml={ml_used}; the {'configured' if weak_given else 'regressed'} weak rate is {alpha_ref!r}",
                         {"regimes": regimes[:40]})
    sig = None
    if stats is not None:
        res = stats.mlmc_results
        Nl = np.asarray(res.Nl)
        L = len(Nl) - 1
        last = calls["criteria"][-1] if calls["criteria"] else None
        tested = bool(last and len(last[1]) == len(Nl))
        converged = bool(tested and last[2])
        sig = (L, tuple(int(x) for x in Nl), converged,
               tuple((len(m), v) for (_, m, v) in calls["criteria"]), tuple(a for (a, _, _) in calls["criteria"]))
        if not converged and L != Lmax:
            exit_kind = "with-a-failed-bias-test" if tested else "without-evaluating-the-bias-test"
            sh.violation(f"C06:{sub}:returned-below-maximum-level-{exit_kind}{suffix}",
                         f"returned with L={L} < maximum_level={Lmax}, Nl={Nl.tolist()}, last bias test: {last}",
                         {"regimes": regimes[:40]})
        # the bias test, recomputed: the verdict of the criteria object is not taken on trust. Below the maximum level the run
        # may return only with Giles' bias estimate (written out in giles_estimate, with the reference weak rate) within what
        # the allocation leaves of rmse^2: estimate^2 + variance share * rmse^2 <= rmse^2.
        if converged and L != Lmax:
            a_ref = alpha_refs[-1] if alpha_refs else None
            if a_ref is None or len(last[1]) < 3:
                sh.count("oracle_inconclusive")
            else:
                share = variance_share(obs["crit"])
                left = math.sqrt(max(0.0, 1.0 - share)) * rmse
                est, dom = giles_estimate(last[1], a_ref)
                sh.count("bias_tests_recomputed")
                sh.cls(f"{sub}:bias-test-recomputed:{dom}-dominates")
                if not (est <= left * (1 + 1e-6)):
                    sh.violation(f"C06:{sub}:returned-below-maximum-level-with-a-bias-estimate-above-the-tolerance:{dom}-dominates{suffix}",
                                 f"returned with L={L} < maximum_level={Lmax}: level means {last[1]}, weak rate {a_ref!r} give the bias "
                                 f"estimate {est:.6g} > {left:.6g} = sqrt(rmse^2 - variance share) (rmse={rmse})",
                                 {"regimes": regimes[:40], "alpha_passed": last[0]})
        # the means the test was evaluated on are the sample means of the run (the engine may only raise them: its work-around
        # for vanishing means)
        if tested:
            with np.errstate(all="ignore"):
                ml_rep = np.asarray(res.ml, dtype=float)
            ml_used = np.asarray(last[1], dtype=float)
            if ml_rep.shape == ml_used.shape and np.all(np.isfinite(ml_rep)):
                low = [int(l) for l in range(len(ml_rep))
                       if ml_used[l] < ml_rep[l] * (1 - 1e-9) - 1e-300 or (l < 3 and not core.close(ml_used[l], ml_rep[l], rtol=1e-9))]
                if low:
                    sh.violation(f"C06:{sub}:bias-test-evaluated-on-other-means-than-the-sample-means{suffix}",
                                 f"levels {low}: tested on {ml_used.tolist()}, the reported sample means are {ml_rep.tolist()}",
                                 {"regimes": regimes[:40]})
        # every level has its optimal number of samples within the 1 % rule (recomputed from the reported vl, cl)
        with np.errstate(all="ignore"):
            vl = np.asarray(res.vl, dtype=float)
            cl = np.asarray(res.cl, dtype=float)
            if np.all(np.isfinite(vl)) and np.all(np.isfinite(cl)):
                Nstar = np.asarray(obs["orig_paths"](rmse, vl.copy(), cl.copy()), dtype=float)
                short = [int(l) for l in range(len(Nl)) if Nl[l] < Nstar[l] / 1.01 - 1e-9]
                if short:
                    sh.violation(f"C06:{sub}:returned-with-a-level-below-its-optimal-sample-size{suffix}",
                                 f"levels {short}: Nl={Nl.tolist()} but optimal sizes from the reported vl, cl are {Nstar.tolist()}",
                                 {"regimes": regimes[:40], "vl": vl.tolist(), "cl": cl.tolist()})
            else:
                sh.violation(f"C06:{sub}:reported-statistics-not-finite{suffix}", f"vl={vl.tolist()} cl={cl.tolist()}", {"regimes": regimes[:40]})
    return sig


# ----------------------------------------------------------------------------------------------------------------------
# loop: the C05 choice exploration
# ----------------------------------------------------------------------------------------------------------------------

def _loop(sh, case):
    trajectories = set()

    def run(ch):
        traj, outcome = run_once(sh, case, ch)
        trajectories.add((traj, outcome))
        sh.count("runs")
        sh.count("evaluations")
        sh.outcome((traj, outcome))

    ex = core.ChoiceExplorer(run, bound=case["bound"], max_runs=200000)
    ex.explore(shard=tuple(case.get("shard", (0, 1))))
    if ex.capped:
        sh.cap(f"run cap hit for {case}")
    sh.states += len(trajectories)
    sh.transitions += ex.points_total
    if len(trajectories) >= 2:
        sh.nontriv()


def run_once(sh, case, chooser):
    high = case.get("order") == "high"
    if high:
        eng, rec, product, coupling = build_high_order_engine(case, chooser)
    else:
        eng, rec, product, coupling = C5.build_engine(case, chooser)
    real_choose = chooser.choose
    kinds = len(LOOP_KINDS)
    level_kind = {}

    def guarded(arity, label=""):
        lvl = int(label.split(":")[1][1:]) if label.startswith("regime:") else 0
        if rec.batches.get(lvl, 0) > C5.HORIZON:
            raise C5.Horizon(label)
        if high:
            # the environment chooses the KIND of the level at its first batch (the regime is the kind at that level); a later
            # batch keeps the mean of its level (samples of one level with two different means are a variance of the order of
            # the squared level mean, i.e. 1e6 .. 1e12 samples) and chooses between the default and the large variance
            if lvl not in level_kind:
                level_kind[lvl] = real_choose(kinds, label)
                k = level_kind[lvl]
            elif level_kind[lvl] > 1:
                k = level_kind[lvl]
            else:
                k = real_choose(2, label)
            return min(lvl, case["Lmax"] + 1) * kinds + k
        return real_choose(arity, label)

    chooser.choose = guarded
    try:
        obs = observe_price(eng, product, case["rmse"])
    finally:
        chooser.choose = real_choose
    sig = judge_run(sh, "loop", ":high-order" if high else "", obs, rec, Lmax=case["Lmax"], rmse=case["rmse"],
                    rates=case.get("rates", "given"), alpha_given=case["a"] if high else 1.0)
    traj = sig[:3] if sig is not None else ()
    return traj, obs["outcome"]


# loop with a weak rate above 2 (the C05 lattice has the first-order rates alpha = 1, beta = 2 only): level means c 2^(-a l),
# level sd s 2^(-l), cost 2^l; the environment chooses per (level, batch) one of
LOOP_KINDS = ["default", "large-variance", "zero-mean", "mean-x2", "mean-x4", "mean-x8", "mean-x64", "persistent-mean"]
HIGH_DECAYS = [2.5, 3.0, 4.0]


def high_order_scale(a, level=3):
    """c such that the plain profile c 2^(-a l) is 1 at `level` (for rmse of order 1 the run is then decided around it)."""
    return 2.0 ** (a * level)


def high_order_regimes(case):
    a, c, s = case["a"], case["c"], case["s"]
    out = []
    for l in range(case["Lmax"] + 2):  # one level above the maximum so that a run that goes there is reported, not crashed
        m, sd = c * 2.0 ** (-a * l), s * 2.0 ** (-l)
        for kind in LOOP_KINDS:
            mean = {"zero-mean": 0.0, "mean-x2": 2 * m, "mean-x4": 4 * m, "mean-x8": 8 * m, "mean-x64": 64 * m,
                    "persistent-mean": c}.get(kind, m)
            out.append((kind, mean, 2.0 * s if kind == "large-variance" else sd, False, False))
    return out


def build_high_order_engine(case, chooser):
    from rpylib.montecarlo.configuration import ConfigurationMultiLevel, ConvergenceRates
    from rpylib.montecarlo.multilevel.engine import Engine

    rec = D.Recorder(chooser, regimes=high_order_regimes(case))
    coupling = D.ScriptedCoupling(rec, df=1.0)
    product = D.make_product("forward", notional=1.0)
    rates = ConvergenceRates(alpha=case["a"], beta=2.0, gamma=1.0) if case["rates"] == "given" else ConvergenceRates()
    conf = ConfigurationMultiLevel(convergence_rates=rates, initial_level=case["L0"], maximum_level=case["Lmax"],
                                   initial_mc_paths=case["N0"], seed=None, nb_of_processes=1)
    return Engine(configuration=conf, coupling_process=coupling), rec, product, coupling


def high_order_loop_cases(tier):
    thorough = tier == "thorough"
    out = []
    for a in HIGH_DECAYS:
        for rates in ("given", "regressed"):
            for (rmse, N0, Lmax) in (((0.5, 5, 5), (0.3, 5, 5), (0.5, 2, 6), (0.3, 16, 6)) if thorough else ((0.5, 5, 5),)):
                base = {"sub": "loop", "order": "high", "a": a, "c": high_order_scale(a), "s": 1.0, "L0": 2, "Lmax": Lmax, "N0": N0,
                        "rmse": rmse, "rates": rates}
                out.append(dict(base, bound=1, shard=[0, 1]))
                if thorough and (rmse, N0) == (0.5, 5):
                    for i in range(8):
                        out.append(dict(base, bound=2, shard=[i, 8]))
    if not thorough:  # one more rmse (the run is decided one level later) and one more start
        out.append({"sub": "loop", "order": "high", "a": 2.5, "c": high_order_scale(2.5), "s": 1.0, "L0": 2, "Lmax": 5, "N0": 5,
                    "rmse": 0.3, "rates": "regressed", "bound": 1, "shard": [0, 1]})
        out.append({"sub": "loop", "order": "high", "a": 3.0, "c": high_order_scale(3.0), "s": 1.0, "L0": 3, "Lmax": 5, "N0": 2,
                    "rmse": 0.3, "rates": "given", "bound": 1, "shard": [0, 1]})
    return out


# ----------------------------------------------------------------------------------------------------------------------
# scripted level means: profile (one pricing) and history (several pricings in one process)
# ----------------------------------------------------------------------------------------------------------------------

MULTS = [0.0, 0.125, 8.0, 64.0]  # a level mean that vanishes / dips / rises above the previous ones / dominates everything
DECAYS = [0.6, 1.0, 2.0]
RATE_KINDS = ["regressed", "given", "alpha-only", "alpha-regressed"]
# "bg-index": all three given through the library's helper compute_convergence_rates(Blumenthal-Getoor index), as its scripts do
PROFILE_RATE_KINDS = RATE_KINDS + ["bg-index"]
# "given-high-order": the three rates of a high-order scheme, (a, 2a, 1), the variance decaying faster than the cost grows
WEAK_RATE_GIVEN = ("given", "alpha-only", "bg-index", "given-high-order")


def bg_index(a):
    return max(0.0, 2.0 - 2.0 * a)  # the index whose weak rate 1 - Y/2 is a (a <= 1), 0 beyond
CRIT_KINDS = ["default", "object", "functions", "to-max"]


class LevelChooser:
    """Environment of the scripted coupling for a scripted profile: the regime of (level, batch) is the regime of the level."""

    def choose(self, arity, label=""):
        parts = label.split(":")
        lvl, b = int(parts[1][1:]), int(parts[2][1:])
        if b > C5.HORIZON:
            raise C5.Horizon(label)
        return min(lvl, arity - 1)


def scenario(a, mult=None, *, rates="regressed", rmse=0.2, sd=1e-3, L0=2, Lmax=6, N0=4, crit="default", c=0.5, form=None,
             alpha=None):
    """JSON-able description of one pricing: level means c 2^(-a l) mult_l, level standard deviations sd rmse 2^(-l/2),
    cost 2^l per sample, and the public options of the configuration. form (ENGINE_FORMS): the form in which the numbers
    reach the public entry points, or the copy of the configuration that is priced (see in_form / price_step). alpha: the weak
    rate a configuration that gives it gives (default: the decay a of the means; another value = a given rate that is not the
    decay of the means, as a user's rate need not be)."""
    given = (1.0 - bg_index(a) / 2.0) if rates == "bg-index" else (a if alpha is None else alpha)
    sc = {"a": a, "mult": {str(k): v for k, v in (mult or {}).items()}, "c": c, "rates": rates, "rmse": rmse, "sd": sd,
          "L0": L0, "Lmax": Lmax, "N0": N0, "crit": crit, "alpha_given": given}
    if form is not None:
        sc["form"] = form
    return sc


NUMBER_FORMS = ["python-int", "numpy-scalar", "zero-d-rmse"]
COPY_FORMS = ["copy-configuration", "deepcopy-configuration", "dill-configuration"]
ENGINE_FORMS = NUMBER_FORMS + COPY_FORMS


def in_form(x, form, integer=False, is_rmse=False):
    """The number x as the given form hands it to the library: python-int = an int where the value is whole (rmse=1, alpha=2);
    numpy-scalar = np.int64 for levels / paths, np.float64 otherwise; zero-d-rmse = the rmse as a 0-d array."""
    if x is None or form is None:
        return x
    if form == "python-int":
        return int(x) if float(x).is_integer() else x
    if form == "numpy-scalar":
        return np.int64(x) if integer else np.float64(x)
    if form == "zero-d-rmse" and is_rmse:
        return np.array(float(x))
    return x


def level_regimes(sc):
    n = sc["Lmax"] + 2  # one entry above the maximum so that a run that goes there is reported, not crashed
    return [(f"l{l}", sc["c"] * 2.0 ** (-sc["a"] * l) * float(sc["mult"].get(str(l), 1.0)),
             sc["sd"] * sc["rmse"] * 2.0 ** (-0.5 * l), False, False) for l in range(n)]


def make_rates(kind, alpha, form=None):
    from rpylib.montecarlo.configuration import ConvergenceRates, compute_convergence_rates

    f = lambda x: in_form(x, form)  # noqa: E731
    if kind == "bg-index":
        return compute_convergence_rates(f(2.0 - 2.0 * alpha))
    if kind == "given":
        return ConvergenceRates(alpha=f(alpha), beta=f(1.0), gamma=f(1.0))
    if kind == "given-high-order":
        return ConvergenceRates(alpha=f(alpha), beta=f(2.0 * alpha), gamma=f(1.0))
    if kind == "alpha-only":
        return ConvergenceRates(alpha=f(alpha))
    if kind == "alpha-regressed":
        return ConvergenceRates(beta=f(1.0), gamma=f(1.0))
    return ConvergenceRates()


def make_criteria(kind):
    from rpylib.montecarlo.multilevel import criteria as K

    if kind == "object":
        return K.GilesConvergenceCriteria()
    if kind == "functions":
        return K.ConvergenceCriteria(criteria=K.criteria_giles, compute_mc_paths=K.compute_mc_paths_giles)
    if kind == "to-max":
        return K.ConvergenceCriteria(criteria=K.criteria_run_to_maximum_level, compute_mc_paths=K.compute_mc_paths_giles)
    return None


FIRST_ROUTES = ["explicit", "default", "none"]  # how ConfigurationMultiLevel gets its convergence rates
# how a later pricing re-uses the earlier objects; the INHERITING routes keep the options of the earlier configuration
INHERITING = ("same-config", "same-engine", "deepcopy", "copy", "dill", "engine-deepcopy")
LATER_ROUTES = list(INHERITING) + ["setters"]


def make_configuration(sc, route):
    from rpylib.montecarlo.configuration import ConfigurationMultiLevel

    form = sc.get("form")
    kw = dict(initial_level=in_form(sc["L0"], form, integer=True), maximum_level=in_form(sc["Lmax"], form, integer=True),
              initial_mc_paths=in_form(sc["N0"], form, integer=True), seed=None, nb_of_processes=1)
    crit = make_criteria(sc["crit"])
    if crit is not None:
        kw["convergence_criteria"] = crit
    if route == "explicit":
        kw["convergence_rates"] = make_rates(sc["rates"], sc["alpha_given"], form)
    elif route == "none":
        kw["convergence_rates"] = None
    elif route != "default":
        raise ValueError(route)
    return ConfigurationMultiLevel(**kw)


def effective(sc, route, prev_sc):
    """The scenario a later pricing really runs: a route that re-uses the earlier configuration keeps its options."""
    if prev_sc is not None and route in INHERITING:
        return dict(sc, **{k: prev_sc[k] for k in ("rates", "alpha_given", "L0", "Lmax", "N0", "crit")})
    if route in ("default", "none"):
        return dict(sc, rates="regressed")
    return dict(sc)


def _dill_round_trip(obj):
    import dill

    return dill.loads(dill.dumps(obj))


def price_step(sh, sub, suffix, sc, route, prev=None, op="price"):
    """One pricing of the scenario sc reached by `route`; prev = (engine, scenario) of the pricing before. Returns
    (engine, effective scenario, signature)."""
    import copy

    from rpylib.montecarlo.configuration import ConvergenceRates
    from rpylib.montecarlo.multilevel.criteria import GilesConvergenceCriteria
    from rpylib.montecarlo.multilevel.engine import Engine

    prev_eng, prev_sc = prev if prev is not None else (None, None)
    sc = effective(sc, route, prev_sc)
    rec = D.Recorder(LevelChooser(), regimes=level_regimes(sc))
    coupling = D.ScriptedCoupling(rec, df=1.0)
    product = D.make_product("forward", notional=1.0)
    if route in FIRST_ROUTES:
        conf = make_configuration(sc, route)
        if sc.get("form") in COPY_FORMS:
            # the pricing runs on a copy of the configuration; the original is re-parametrised afterwards through its public
            # attributes (objects re-assigned, nothing shared is mutated): the copy must not follow
            from rpylib.montecarlo.multilevel import criteria as K

            orig = conf
            conf = {"copy-configuration": copy.copy, "deepcopy-configuration": copy.deepcopy,
                    "dill-configuration": _dill_round_trip}[sc["form"]](orig)
            orig.convergence_rates = ConvergenceRates(alpha=3.0, beta=1.0, gamma=1.0)
            orig.convergence_criteria = K.ConvergenceCriteria(criteria=K.criteria_run_to_maximum_level,
                                                              compute_mc_paths=K.compute_mc_paths_giles)
            orig.maximum_level = orig.initial_level
            orig.initial_mc_paths = 1
        eng = Engine(configuration=conf, coupling_process=coupling)
    elif route == "same-config":
        eng = Engine(configuration=prev_eng.configuration, coupling_process=coupling)
    elif route == "deepcopy":
        eng = Engine(configuration=copy.deepcopy(prev_eng.configuration), coupling_process=coupling)
    elif route == "copy":
        eng = Engine(configuration=copy.copy(prev_eng.configuration), coupling_process=coupling)
    elif route == "dill":
        eng = Engine(configuration=_dill_round_trip(prev_eng.configuration), coupling_process=coupling)
    elif route == "engine-deepcopy":
        eng = copy.deepcopy(prev_eng)
        eng.coupling_process = coupling
    elif route == "same-engine":
        eng = prev_eng
        eng.coupling_process = coupling
    elif route == "setters":
        conf = prev_eng.configuration
        conf.convergence_rates = make_rates(sc["rates"], sc["alpha_given"])
        conf.convergence_criteria = make_criteria(sc["crit"]) or GilesConvergenceCriteria()
        conf.initial_level, conf.maximum_level, conf.initial_mc_paths = sc["L0"], sc["Lmax"], sc["N0"]
        eng = Engine(configuration=conf, coupling_process=coupling)
    else:
        raise ValueError(route)
    obs = observe_price(eng, product, in_form(sc["rmse"], sc.get("form"), is_rmse=True), op=op)
    sh.count("runs")
    if op != "price":
        top = max(rec.simulate_levels) if rec.simulate_levels else 0
        if top > sc["Lmax"]:
            sh.violation(f"C06:{sub}:fixed-level-pricing-simulated-a-level-above-the-maximum{suffix}",
                         f"simulated level {top} > maximum_level {sc['Lmax']}", None)
        return eng, sc, None
    sh.count("evaluations")
    sig = judge_run(sh, sub, suffix, obs, rec, Lmax=sc["Lmax"], rmse=sc["rmse"], rates=sc["rates"], alpha_given=sc["alpha_given"])
    return eng, sc, sig


def mult_patterns(first, Lmax, doubles):
    """All multiplier patterns whose first non-unit level is `first` (None: the plain geometric profile)."""
    if first is None:
        return [{}]
    out = [{first: f} for f in MULTS]
    seconds = [] if doubles == "none" else ([first + 1] if doubles == "adjacent" else list(range(first + 1, Lmax + 1)))
    for k in seconds:
        if k <= Lmax:
            out += [{first: f, k: g} for f in MULTS for g in MULTS]
    return out


def _profile(sh, case):
    sigs = set()
    for mult in mult_patterns(case["first"], case["Lmax"], case["doubles"]):
        for rmse in case["rmses"]:
            for rates in case["rates"]:
                for sd in case["sds"]:
                    for crit in case["crits"]:
                        for (L0, N0) in case["starts"]:
                            sc = scenario(case["a"], mult, rates=rates, rmse=rmse, sd=sd, L0=L0, Lmax=case["Lmax"], N0=N0, crit=crit,
                                          c=case.get("c", 0.5), alpha=case.get("alpha"))
                            suffix = (f":{crit}-criteria" if crit != "default" else "") + (":high-order" if case.get("order") == "high" else "")
                            _, _, sig = price_step(sh, "profile", suffix, sc, "explicit")
                            sigs.add(sig)
                            sh.outcome(sig[:3] if sig else None)
                            if sig is not None:
                                sh.cls("profile:" + ("converged" if sig[2] else "maximum-level") + (":bumped" if mult else ":plain"))
    sh.states += len(sigs)
    if len(sigs) >= 2:
        sh.nontriv()
    if case["first"] == 3 and case["a"] == 1.0:
        sh.sample({"sub": "profile", "case": case, "distinct_runs": len(sigs)})


def same_signature(a, b):
    if a is None or b is None:
        return a is b
    return a[:4] == b[:4] and len(a[4]) == len(b[4]) and all(core.close(x, y, rtol=1e-9, atol=1e-12) for x, y in zip(a[4], b[4]))


POSITION = ["first", "second", "third"]


def _history(sh, case):
    import json

    alone = {}

    def alone_signature(sc):
        k = json.dumps(sc, sort_keys=True)
        if k not in alone:
            alone[k] = price_step(sh, "history", ":alone", sc, "explicit")[2]
        return alone[k]

    sigs = set()
    for seq in histories(case):
        prev = None
        for i, (sc, route, op) in enumerate(seq):
            suffix = f":{POSITION[i]}-pricing:{route}"
            eng, sc_eff, sig = price_step(sh, "history", suffix, sc, route, prev=prev, op=op)
            prev = (eng, sc_eff)
            if op != "price":
                continue
            ref = alone_signature(sc_eff)
            sigs.add(sig)
            sh.outcome((i, sig[:3] if sig else None))
            if not same_signature(sig, ref):
                earlier = "+".join(f"{o}/{r}" for (_, r, o) in seq[:i]) or "nothing"
                sh.violation(f"C06:history:pricing-differs-from-the-same-pricing-alone:{sc_eff['rates']}{suffix}",
                             f"after {earlier}: (L, Nl, converged, bias tests, weak rates) = {sig}; the same pricing alone in fresh "
                             f"objects gives {ref}", {"scenario": sc_eff, "earlier": [s for (s, _, _) in seq[:i]]})
            if i > 0:
                sh.cls(f"history:{route}")
    sh.states += len(sigs)
    if len(sigs) >= 2:
        sh.nontriv()
    if case.get("sample"):
        sh.sample({"sub": "history", "first": case["first"], "histories": len(histories(case)), "distinct_runs": len(sigs)})


def later_steps(prev_sc, seconds, menu):
    """Every (scenario, route) a pricing after prev_sc ranges over. menu: list of (route, rates or None = inherited)."""
    out = []
    for sc in seconds:
        for route, rates in menu:
            if route in INHERITING:
                out.append((dict(sc), route, "price"))
            elif route in ("default", "none"):
                out.append((dict(sc, rates="regressed"), route, "price"))
            else:
                out.append((dict(sc, rates=rates), route, "price"))
    return out


def histories(case):
    first = (case["first"], case["route1"], case["op1"])
    out = []
    for step2 in later_steps(case["first"], case["seconds"], case["menu"]):
        out.append([first, step2])
        if case.get("thirds"):
            for step3 in later_steps(step2[0], case["thirds"], case["menu3"]):
                out.append([first, step2, step3])
    return out


SECOND_MENU = [("same-config", None), ("same-engine", None), ("deepcopy", None), ("copy", None), ("dill", None),
               ("engine-deepcopy", None), ("default", None), ("none", None),
               ("explicit", "regressed"), ("setters", "regressed"), ("setters", "given"), ("explicit", "alpha-only"),
               ("setters", "alpha-regressed")]
THIRD_MENU = [("same-config", None), ("same-engine", None), ("default", None), ("setters", "regressed")]


def history_scenarios(thorough):
    """fast decay / slow decay / a level mean that rises; the later pricings also with other options (levels, paths, rmse)."""
    firsts = [scenario(2.0), scenario(0.6), scenario(1.0, {4: 8.0})]
    seconds = [scenario(0.6), scenario(2.0, N0=6, Lmax=5), scenario(1.0, {3: 8.0, 4: 8.0}, rmse=0.1)]
    if thorough:
        firsts += [scenario(1.0), scenario(1.0, {3: 0.0}), scenario(3.0, {1: 8.0}, c=0.5 * high_order_scale(3.0))]
        seconds += [scenario(1.0, rmse=0.05, Lmax=8), scenario(0.6, {5: 64.0}, L0=3), scenario(2.5, {2: 8.0}, c=0.5 * high_order_scale(2.5))]
    return firsts, seconds


def profile_cases(tier):
    thorough = tier == "thorough"
    out = []
    for a in DECAYS:  # the deepest configured hierarchy: the default maximum_level 50, run to the end and with the stopping test
        out.append({"sub": "profile", "a": a, "first": None, "Lmax": 50, "doubles": "none", "rmses": [0.2, 1.0] if thorough else [0.2],
                    "rates": ["regressed", "given"], "sds": [1.0], "crits": ["to-max", "default"], "starts": [[2, 4]]})
    for Lmax in ((6, 8) if thorough else (6,)):
        for a in DECAYS:
            out.append({"sub": "profile", "a": a, "first": None, "Lmax": Lmax, "doubles": "none", "rmses": [0.05, 0.2, 1.0],
                        "rates": PROFILE_RATE_KINDS, "sds": [1e-3, 1.0], "crits": CRIT_KINDS, "starts": [[2, 4], [3, 7]]})
            for first in range(0, Lmax + 1):
                out.append({"sub": "profile", "a": a, "first": first, "Lmax": Lmax, "doubles": "all" if thorough else "adjacent",
                            "rmses": [0.05, 0.2] if thorough else [0.2], "rates": ["regressed", "given"],
                            "sds": [1e-3, 1.0] if thorough else [1e-3], "crits": ["default"], "starts": [[2, 4]]})
    # weak rates above 2 (high-order scheme / smooth payoff; regressed from fast-decaying means): m_l = c 2^(-a l) mult_l with c
    # such that the plain profile is 0.5 at level 3 (the runs are decided at levels 2 .. 5, not at once on the initial levels);
    # a bump x8 / x64 two levels below the last makes the third-last extrapolated term m_{L-2}/4^a the dominating one
    for a in HIGH_DECAYS:
        c = 0.5 * high_order_scale(a)
        hi = {"sub": "profile", "order": "high", "a": a, "c": c}
        out.append(dict(hi, first=None, Lmax=6, doubles="none", rmses=[0.05, 0.2, 1.0], rates=PROFILE_RATE_KINDS + ["given-high-order"], sds=[1e-3, 1.0],
                        crits=CRIT_KINDS if thorough else ["default", "functions"], starts=[[2, 4], [3, 7]] if thorough else [[2, 4]]))
        for Lmax in ((6, 8) if thorough else (6,)):
            for first in range(0, Lmax + 1):
                out.append(dict(hi, first=first, Lmax=Lmax, doubles="all" if thorough else "adjacent",
                                rmses=[0.05, 0.2] if thorough else [0.2], rates=["regressed", "given"],
                                sds=[1e-3, 1.0] if thorough else [1e-3], crits=["default"], starts=[[2, 4]]))
    out.append({"sub": "profile", "order": "high", "a": 3.0, "c": 0.5 * high_order_scale(3.0), "first": None, "Lmax": 50, "doubles": "none",
                "rmses": [0.2], "rates": ["regressed", "given"], "sds": [1.0], "crits": ["to-max", "default"], "starts": [[2, 4]]})
    # other starts of the hierarchy: a high initial level, initial level = maximum level (no level can be added), the default
    # number of initial paths (far more than the optimum on the fine levels)
    for a in DECAYS + HIGH_DECAYS:
        out.append({"sub": "profile", "a": a, "c": 0.5 * high_order_scale(a) if a > 2 else 0.5, "first": None, "Lmax": 6, "doubles": "none",
                    "rmses": [0.2], "rates": ["regressed", "given"], "sds": [1e-3, 1.0], "crits": ["default"],
                    "starts": [[5, 3], [6, 2], [2, 100]], **({"order": "high"} if a > 2 else {})})
    # slow and no decay of the means (the regressed weak rate is floored; a given rate below 0.5 through alpha alone or through
    # compute_convergence_rates with an index above 1; ConvergenceRates refuses alpha < min(beta, gamma) / 2 given together)
    out.append({"sub": "profile", "a": 0.3, "first": None, "Lmax": 6, "doubles": "none", "rmses": [0.05, 0.2, 1.0],
                "rates": ["regressed", "alpha-only", "alpha-regressed", "bg-index"], "sds": [1e-3, 1.0], "crits": ["default", "object"] if thorough else ["default"],
                "starts": [[2, 4]]})
    out.append({"sub": "profile", "a": 0.0, "first": None, "Lmax": 6, "doubles": "none", "rmses": [0.05, 0.2, 1.0],
                "rates": ["regressed", "alpha-regressed"], "sds": [1e-3, 1.0], "crits": ["default"], "starts": [[2, 4]]})
    # a GIVEN weak rate that is not the decay of the means (the configuration's rate is the user's): (decay, given rate) with the
    # means decaying faster than the given rate above 2 (the third-last term dominates on the plain profile), slower, and a
    # first-order decay with a rate above 2
    for (a, alpha) in ((4.0, 2.5), (3.0, 2.5), (4.0, 3.0), (2.5, 4.0), (2.0, 3.0), (1.0, 2.5)):
        out.append({"sub": "profile", "order": "high", "a": a, "alpha": alpha, "c": 0.5 * high_order_scale(a) if a > 2 else 0.5,
                    "first": None, "Lmax": 6, "doubles": "none", "rmses": [0.05, 0.2, 1.0], "rates": ["given", "alpha-only"],
                    "sds": [1e-3, 1.0], "crits": ["default", "object"] if thorough else ["default"], "starts": [[2, 4]]})
    return out


def history_cases(tier):
    thorough = tier == "thorough"
    firsts, seconds = history_scenarios(thorough)
    out = []
    for sc in firsts:
        for rates in RATE_KINDS:
            for route1 in (FIRST_ROUTES if rates == "regressed" else ["explicit"]):
                for op1 in (("price", "fixed") if (rates == "regressed" and route1 == "default") else ("price",)):
                    out.append({"sub": "history", "first": dict(sc, rates=rates), "route1": route1, "op1": op1, "seconds": seconds,
                                "menu": SECOND_MENU, "thirds": seconds[:2] if thorough else [], "menu3": THIRD_MENU,
                                "sample": sc["a"] == 2.0 and rates == "regressed" and route1 == "default" and op1 == "price"})
    return out


# ----------------------------------------------------------------------------------------------------------------------
# forms: the same mathematical input handed over in every legal form of the arguments
# ----------------------------------------------------------------------------------------------------------------------

USUAL = "usual"  # float64 array / Python float: what the engine passes and what every other sub-check uses
INT_DTYPES = ["int64", "int32", "uint8", "uint16"]
# forms of a vector argument. Array forms are what the signatures annotate (np.array): they must be answered. LENIENT forms
# (sequences, a (1, n) row, integer-typed costs, which the unchanged tree rejects): a tree that raises on them is not judged
# (counted), a tree that answers is judged like for any other form.
VECTOR_FORMS = INT_DTYPES + ["float32", "read-only", "strided", "list-float", "list-int", "tuple-float", "tuple-int", "row-1xn"]
LENIENT_VECTOR_FORMS = ("list-float", "list-int", "tuple-float", "tuple-int", "row-1xn")
COST_FORMS = ["float32", "read-only", "strided", "row-1xn", "int64", "list-float", "tuple-int"]
LENIENT_COST_FORMS = ("row-1xn", "int64", "list-float", "tuple-int")
MEAN_FORMS = INT_DTYPES + ["float32", "read-only", "strided", "list-float", "list-int", "tuple-float", "tuple-int"]
LENIENT_MEAN_FORMS = ("list-float", "list-int", "tuple-float", "tuple-int")
SCALAR_FORMS = ["python-int", "np.float64", "np.float32", "np.int64", "np.int32", "zero-d-array"]

W_V = [0.0, 1.0, 3.0, 16.0, 200.0]  # whole numbers: every integer dtype can hold them; sample sizes of a few units to a few thousand
W_C = [0.5, 1.0, 50.0]
W_RMSE = [0.5, 1.0, 2.0, 3.0]
W_ML = [0.0, 1.0, 2.0, 3.0, 4.0, 8.0]
W_ALPHA = [0.5, 1.0, 2.0, 2.5, 3.0, 4.0]  # 3 and 4 also as Python / numpy ints
W_ML_HIGH = [0.0, 1.0, 2.0, 8.0, 64.0, 512.0]  # for the rates above 2: letters large enough for the third-last term to decide
W_STOP_RMSE = [1.0, 2.0, 4.0, 8.0]


def vector_form(values, form):
    """The vector `values` in the given form, or None when the form cannot hold these values exactly."""
    base = np.array(values, dtype=float)
    whole = bool(np.all(base == np.floor(base))) and bool(np.all(np.abs(base) < 2.0 ** 53))
    if form == USUAL:
        return base
    if form in INT_DTYPES:
        info = np.iinfo(form)
        if not whole or (base.size and (base.min() < info.min or base.max() > info.max)):
            return None
        return base.astype(form)
    if form == "float32":
        with np.errstate(all="ignore"):
            x = base.astype(np.float32)
        return x if np.array_equal(x.astype(float), base) else None
    if form == "read-only":
        x = base.copy()
        x.setflags(write=False)
        return x
    if form == "strided":  # a view of every second element of a longer buffer
        buf = np.full(2 * len(base) + 1, 7.0)
        x = buf[: 2 * len(base): 2]
        x[...] = base
        return x
    if form in ("list-float", "tuple-float"):
        x = [float(v) for v in base]
        return x if form == "list-float" else tuple(x)
    if form in ("list-int", "tuple-int"):
        if not whole:
            return None
        x = [int(v) for v in base]
        return x if form == "list-int" else tuple(x)
    if form == "row-1xn":
        return base.reshape(1, -1)
    raise ValueError(form)


def scalar_form(x, form):
    """The number x in the given form, or None when the form cannot hold it exactly."""
    x = float(x)
    if form == USUAL:
        return x
    if form in ("python-int", "np.int64", "np.int32"):
        if not x.is_integer() or abs(x) >= 2.0 ** 31:
            return None
        return int(x) if form == "python-int" else getattr(np, form[3:])(int(x))
    if form == "np.float64":
        return np.float64(x)
    if form == "np.float32":
        y = np.float32(x)
        return y if float(y) == x else None
    if form == "zero-d-array":
        return np.array(x)
    raise ValueError(form)


def _snapshot(obj):
    import copy

    return obj.copy() if isinstance(obj, np.ndarray) else copy.deepcopy(obj)


def _unchanged(obj, snap):
    if isinstance(obj, np.ndarray):
        return obj.dtype == snap.dtype and obj.shape == snap.shape and bool(np.array_equal(obj, snap))
    return type(obj) is type(snap) and bool(obj == snap)


def _label(**forms):
    """Stable input class of a combination of forms: the arguments that are not in the usual form."""
    return "+".join(f"{k}-{v}" for k, v in forms.items() if v != USUAL) or "usual-form"


def form_combos(first, second, third, full, pairs, extra):
    """quick: every form of one argument with the other two usual, the stated pairs (first x third) and the stated triples;
    thorough (full): the complete product."""
    if full:
        return [(a, b, c) for a in [USUAL] + first for b in [USUAL] + second for c in [USUAL] + third if (a, b, c) != (USUAL,) * 3]
    out = [(a, USUAL, USUAL) for a in first] + [(USUAL, b, USUAL) for b in second] + [(USUAL, USUAL, c) for c in third]
    out += [(a, USUAL, c) for a in pairs[0] for c in pairs[1]]
    return out + [tuple(e) for e in extra]


def forms_cases(tier):
    thorough = tier == "thorough"
    out = [{"sub": "forms", "part": "alloc", "points": "special", "full": thorough}]
    for n in (0, 1, 2):
        out.append({"sub": "forms", "part": "alloc", "points": "lattice", "n": n, "rmse": None, "full": thorough})
    for r in range(len(W_RMSE)):
        out.append({"sub": "forms", "part": "alloc", "points": "lattice", "n": 3, "rmse": r, "full": False, "single": not thorough})
    # BOTH vectors integer-typed with LARGE entries: the product V_l C_l leaves the range of the integer type
    for rg in ["special"] + list(BIG_RANGES):
        out.append({"sub": "forms", "part": "alloc", "points": "large-integers", "range": rg, "lengths": [1, 2], "full": thorough})
        if thorough and rg != "special":
            out.append({"sub": "forms", "part": "alloc", "points": "large-integers", "range": rg, "lengths": [3], "full": False})
    for a in range(len(W_ALPHA)):
        out.append({"sub": "forms", "part": "stop", "alpha": a, "full": False})
    for a in (range(len(W_ALPHA)) if thorough else (1, 4)):  # the same lattice x 2^24 (means and rmse near the end of int32)
        out.append({"sub": "forms", "part": "stop", "alpha": a, "full": False, "scale": 2.0 ** 24})
    if thorough:
        for a in range(len(W_ALPHA)):
            out.append({"sub": "forms", "part": "stop", "alpha": a, "full": True,
                        "letters": [0.0, 1.0, 8.0, 512.0] if W_ALPHA[a] > 2 else [0.0, 1.0, 3.0, 8.0]})
    for a in DECAYS:
        out.append({"sub": "forms", "part": "engine", "a": a, "rmses": [1.0, 0.2], "sds": [1e-3, 1.0] if thorough else [1.0],
                    "rates": PROFILE_RATE_KINDS, "starts": [[2, 4], [3, 7]] if thorough else [[2, 4]]})
    for a in HIGH_DECAYS:  # weak rates above 2 (3 and 4 also handed over as ints); two level means below the decision bumped
        out.append({"sub": "forms", "part": "engine", "a": a, "c": 0.5 * high_order_scale(a), "mult": {"1": 8.0, "2": 8.0}, "rmses": [1.0, 0.2],
                    "sds": [1e-3, 1.0] if thorough else [1.0], "rates": PROFILE_RATE_KINDS if thorough else ["regressed", "given", "alpha-only"],
                    "starts": [[2, 4], [3, 7]] if thorough else [[2, 4]]})
    return out


def _forms(sh, case):
    {"alloc": _forms_alloc, "stop": _forms_stop, "engine": _forms_engine}[case["part"]](sh, case)


def alloc_form_points(case):
    """(variances, costs, rmse) of an allocation case. special: exact ties of the rounding (the real-valued optimum is a whole
    number), an optimum below one path, the vectors of a few everyday calls, and long vectors (51 = the default maximum level,
    300 levels; geometric and flat)."""
    if case["points"] == "special":
        pts = [([3.0], [1.0], 2.0), ([12.0], [1.0], 2.0), ([48.0], [1.0], 2.0), ([27.0], [1.0], 3.0), ([3.0, 3.0], [1.0, 1.0], 2.0),
               ([3.0, 12.0], [4.0, 1.0], 2.0), ([900.0, 1.0, 1.0], [1.0, 50.0, 5000.0], 3.0), ([16.0, 4.0, 1.0], [1.0, 2.0, 4.0], 0.5),
               ([16.0, 4.0, 1.0], [1.0, 2.0, 4.0], 1.0), ([100.0, 9.0, 2.0, 1.0], [1.0, 3.0, 9.0, 27.0], 0.25),
               ([400.0, 25.0, 3.0, 0.0], [0.5, 1.0, 2.0, 4.0], 2.0), ([7.0, 5.0, 3.0, 2.0, 1.0], [1.0, 2.0, 4.0, 8.0, 16.0], 0.5),
               ([1.0, 0.0, 0.0, 1.0], [1.0, 2.0, 4.0, 8.0], 1.0), ([65535.0, 255.0, 1.0], [1.0, 2.0, 4.0], 8.0)]
        for n in (51, 300):
            for rmse in (1.0, 0.5):
                pts.append(([64.0 * 2.0 ** -l for l in range(n)], [2.0 ** l for l in range(n)], rmse))
            pts.append(([3.0] * n, [1.0] * n, 3.0))
            pts.append(([float(l % 4) for l in range(n)], [1.0 + (l % 3) for l in range(n)], 2.0))
        return pts
    n = case["n"]
    rmses = W_RMSE if case["rmse"] is None else [W_RMSE[case["rmse"]]]
    return [(list(vt), list(ct), rmse) for vt in itertools.product(W_V, repeat=n) for ct in itertools.product(W_C, repeat=n)
            for rmse in rmses]


def _variance_of(vl0, N):
    with np.errstate(all="ignore"):
        return float(np.sum(np.where(vl0 == 0.0, 0.0, vl0 / np.asarray(N, dtype=float))))


def _forms_alloc(sh, case):
    import warnings

    from rpylib.montecarlo.multilevel import criteria as K

    if case["points"] == "large-integers":
        return _forms_alloc_big(sh, case)
    crit = _criteria()
    tol = bias_tolerance(crit, 1.0)
    share = 1.0 - (tol if tol is not None else 0.0) ** 2
    combos = form_combos(VECTOR_FORMS, COST_FORMS, SCALAR_FORMS, case["full"],
                         (("int64", "uint8", "list-int", "float32"), ("python-int", "np.float64", "zero-d-array")),
                         [("float32", "float32", "np.float32"), ("row-1xn", "row-1xn", USUAL), ("int32", "read-only", "np.int64"),
                          ("read-only", "read-only", USUAL), ("strided", "strided", "python-int"), ("tuple-int", "strided", "np.int32")])
    if case.get("single"):  # the long product of the quick tier: one argument at a time only
        combos = [c for c in combos if sum(f != USUAL for f in c) == 1]
    worst, answers = 0.0, set()

    def call(f, *a, **kw):
        with np.errstate(all="ignore"), warnings.catch_warnings():
            warnings.simplefilter("ignore")
            return f(*a, **kw)

    def well_formed(N, n, row=False):
        return (isinstance(N, np.ndarray) and np.issubdtype(N.dtype, np.integer) and (N.shape == (n,) or (row and N.shape == (1, n)))
                and not np.any(N < 0))

    for vt, ct, rmse in alloc_form_points(case):
        n = len(vt)
        vl0, cl0 = np.array(vt, dtype=float), np.array(ct, dtype=float)
        size = "one-level" if n == 1 else "no-level" if n == 0 else "long-vector" if n > 5 else "short-vector"
        budget = share * rmse ** 2
        sh.count("evaluations")
        a_v, a_c = vl0.copy(), cl0.copy()
        N0 = np.asarray(call(crit.compute_mc_paths, rmse, a_v, a_c))
        if not well_formed(N0, n):
            sh.violation(f"C06:forms:alloc:sample-sizes-not-non-negative-integers:usual-form:{size}",
                         f"compute_mc_paths({rmse}, {vt}, {ct}) = {N0!r}", None)
            continue
        keep = N0.copy()
        est0 = _variance_of(vl0, N0)
        worst = max(worst, est0 / budget)
        answers.add(tuple(keep.tolist()[:6]))
        if not (est0 <= budget * (1 + 1e-9)):
            sh.violation(f"C06:forms:alloc:estimator-variance-exceeds-variance-share:usual-form:{size}",
                         f"rmse={rmse}, vl={vt[:8]}, cl={ct[:8]} ({n} levels): N={keep.tolist()[:8]}, sum V/N = {est0:.9g} > "
                         f"{share:.6g} rmse^2 = {budget:.9g}", {"share": share})
        if not (np.array_equal(a_v, vl0) and np.array_equal(a_c, cl0)):
            sh.violation("C06:forms:alloc:argument-array-modified:usual-form",
                         f"compute_mc_paths({rmse}, {vt[:8]}, {ct[:8]}) left vl={a_v.tolist()[:8]}, cl={a_c.tolist()[:8]}", None)
        # the answer belongs to the caller and the arguments stay the caller's: writing to them afterwards must not show in the
        # next answer (no buffer handed out twice, no reference kept)
        try:
            N0[...] = -7
        except ValueError:
            pass
        a_v *= 3.0
        a_c += 1.0
        again = np.asarray(call(crit.compute_mc_paths, rmse, vl0.copy(), cl0.copy()))
        if not (again.shape == keep.shape and np.array_equal(again, keep)):
            sh.violation("C06:forms:alloc:answer-changes-after-the-caller-wrote-to-the-earlier-answer-and-arguments",
                         f"compute_mc_paths({rmse}, {vt[:8]}, {ct[:8]}) = {keep.tolist()[:8]} first, {again.tolist()[:8]} after the caller "
                         f"overwrote the returned array and the argument arrays of the first call", None)
        # the keyword form of the module's function (a tree with other parameter names is not judged)
        try:
            kwN = np.asarray(call(K.compute_mc_paths_giles, rmse=rmse, vl=vl0.copy(), cl=cl0.copy()))
            sh.count("evaluations")
            if not (kwN.shape == keep.shape and np.array_equal(kwN, keep)):
                sh.violation("C06:forms:alloc:sample-sizes-differ-from-the-usual-form:keyword-call",
                             f"compute_mc_paths_giles(rmse={rmse}, vl={vt[:8]}, cl={ct[:8]}) = {kwN.tolist()[:8]}, positional through the "
                             f"criteria object {keep.tolist()[:8]}", None)
        except TypeError:
            sh.count("form_rejected_by_the_tree:keyword-call")
        for vf, cf, rf in combos:
            v, c, r = vector_form(vt, vf), vector_form(ct, cf), scalar_form(rmse, rf)
            if v is None or c is None or r is None:
                sh.count("form_cannot_hold_the_values")
                continue
            label = _label(variances=vf, costs=cf, rmse=rf)
            lenient = vf in LENIENT_VECTOR_FORMS or cf in LENIENT_COST_FORMS
            snaps = (_snapshot(v), _snapshot(c), _snapshot(r))
            try:
                N = call(crit.compute_mc_paths, r, v, c)
            except Exception as e:  # noqa: BLE001
                if lenient:
                    sh.count("form_rejected_by_the_tree:" + label)
                else:
                    sh.violation(f"C06:forms:alloc:raises:{label}",
                                 f"compute_mc_paths({r!r}, {v!r}, {c!r}) raises {type(e).__name__}: {e}; the usual form gives "
                                 f"{keep.tolist()[:8]}", None)
                continue
            sh.count("evaluations")
            sh.cls("forms:alloc:" + label)
            N = np.asarray(N)
            if not well_formed(N, n, row="row-1xn" in (vf, cf)):
                sh.violation(f"C06:forms:alloc:sample-sizes-not-non-negative-integers:{label}",
                             f"compute_mc_paths({r!r}, {v!r}, {c!r}) = {N!r}", None)
                continue
            Nr = N.ravel()
            if not np.array_equal(Nr, keep):
                # float32 arguments: the library may legitimately compute in single precision (another rounding of the optimum)
                single = "float32" in (vf, cf) or rf == "np.float32"
                est = _variance_of(vl0, Nr)
                if not (est <= budget * (1 + (1e-5 if single else 1e-9))):
                    sh.violation(f"C06:forms:alloc:estimator-variance-exceeds-variance-share:{label}",
                                 f"compute_mc_paths({r!r}, {v!r}, {c!r}) = {Nr.tolist()[:8]}: sum V/N = {est:.9g} > {share:.6g} rmse^2 = "
                                 f"{budget:.9g}; the usual form (float64 arrays, float rmse) gives {keep.tolist()[:8]}", {"share": share})
                elif not single:
                    sh.violation(f"C06:forms:alloc:sample-sizes-differ-from-the-usual-form:{label}",
                                 f"compute_mc_paths({r!r}, {v!r}, {c!r}) = {Nr.tolist()[:8]}; the usual form gives {keep.tolist()[:8]}", None)
                else:
                    sh.count("single_precision_answer_differs_within_budget")
            if not (_unchanged(v, snaps[0]) and _unchanged(c, snaps[1]) and _unchanged(r, snaps[2])):
                sh.violation(f"C06:forms:alloc:argument-array-modified:{label}",
                             f"compute_mc_paths was handed ({snaps[2]!r}, {snaps[0]!r}, {snaps[1]!r}) and left ({r!r}, {v!r}, {c!r})", None)
    sh.outcome((case["points"], case.get("n"), case.get("rmse"), round(worst, 9), len(answers)))
    sh.states += len(answers)
    if len(answers) >= 2 or case.get("n") == 0:
        sh.nontriv()
    if case["points"] == "special":
        sh.sample({"sub": "forms", "part": "alloc", "combinations_of_forms": len(combos), "worst_ratio_to_budget": worst})


# --- both vectors integer-typed, LARGE entries ---------------------------------------------------------------------------
# The whole-number lattices above are small (products V_l C_l of at most 10^4 in int64 / float): an implementation that multiplies
# or squares in the integer type of its arguments is right there. Here BOTH vectors are integer-typed and the entries are large
# for the type: the product V_l C_l (and V_l^2, C_l^2, the sum of the products) leaves the range of uint8 / uint16 / int16 / int32 /
# uint32 / int64 / uint64, or the entries themselves are Python ints beyond 2^64. Every entry is a Python int that a double holds
# exactly, so the usual form (float64 arrays) is the same mathematical input.
BIG_INT_FORMS = ["int64", "int32", "uint8", "uint16", "int16", "uint32", "uint64", "list-int", "tuple-int"]
BIG_RMSE_FORMS = ["python-int", "np.int64", "np.int32", "np.float64", "zero-d-array"]
BIG_RANGES = {  # class of the point -> (variance letters, cost letters)
    "products-beyond-uint8": ([0, 12, 50, 200], [2, 32, 255]),
    "products-beyond-uint16": ([0, 300, 15000, 60000], [2, 300, 65535]),
    "products-beyond-int32": ([0, 6000, 100000, 2 * 10 ** 9], [50000, 800000, 2 ** 31 - 1]),
    "products-beyond-int64": ([0, 6 * 10 ** 10, 5 * 10 ** 11, 10 ** 12], [2 * 10 ** 7, 32 * 10 ** 7, 2 ** 52]),
    "entries-beyond-uint64": ([0, 2 ** 66, 2 ** 70], [1, 2 ** 10, 2 ** 64]),
}
# An rmse handed over as a numpy INTEGER scalar whose square leaves its type (np.int32(50000) ** 2 wraps) was answered with
# negative sample sizes (rmse ** 2 in the scalar's type) until fix a8fe45e (rmse = float(rmse)): the form is IN the alphabet
# (True would keep it out and count it).
RMSE_SQUARE_MUST_FIT = False


def big_vector_form(ints, form):
    """The vector of Python ints in the given form, or None when the form cannot hold them."""
    if form == USUAL:
        return np.array([float(v) for v in ints], dtype=float)
    if form == "list-int":
        return [int(v) for v in ints]
    if form == "tuple-int":
        return tuple(int(v) for v in ints)
    info = np.iinfo(form)
    if any(v < info.min or v > info.max for v in ints):
        return None
    return np.array([int(v) for v in ints], dtype=form)


def big_scalar_form(x, form):
    """rmse (a power of two) in the given form; None when the form cannot hold it; "excluded" see RMSE_SQUARE_MUST_FIT."""
    x = float(x)
    if form in ("python-int", "np.int64", "np.int32"):
        if not x.is_integer():
            return None
        if form == "python-int":
            return int(x)
        bits = 63 if form == "np.int64" else 31
        if x >= 2.0 ** bits:
            return None
        if RMSE_SQUARE_MUST_FIT and x * x >= 2.0 ** bits:
            return "excluded"
        return getattr(np, form[3:])(int(x))
    return scalar_form(x, form)


def big_rmses(vt, ct):
    """Three rmse (powers of two) for a point: the largest sample size is of the order of 1000, of 100, of a few units (only
    a choice of scale: no oracle depends on it)."""
    total = math.fsum(math.sqrt(v * c) for v, c in zip(vt, ct))
    x = max(math.sqrt(v / c) for v, c in zip(vt, ct)) * total
    if x == 0.0:
        return [1.0, 4.0]
    k = math.ceil(0.5 * math.log2(x / 4096.0))
    return [2.0 ** k, 2.0 ** (k + 2), 2.0 ** (k + 5)]


def big_points(case):
    """(variances, costs, range class) as lists of Python ints."""
    if case["range"] == "special":
        pts = [([100000, 25000, 6000], [50000, 200000, 800000], "products-beyond-int32"),
               ([90000, 0, 5000], [30000, 120000, 480000], "products-beyond-int32"),
               ([70000, 70000, 70000, 70000], [70000, 70000, 70000, 70000], "products-beyond-int32"),  # sum beyond 2^32, V^2 too
               ([10 ** 12, 25 * 10 ** 10, 6 * 10 ** 10], [2 * 10 ** 7, 8 * 10 ** 7, 32 * 10 ** 7], "products-beyond-int64"),
               ([5 * 10 ** 11, 12 * 10 ** 10, 0, 3 * 10 ** 10], [2 * 10 ** 7, 8 * 10 ** 7, 16 * 10 ** 7, 32 * 10 ** 7], "products-beyond-int64"),
               ([3 * 10 ** 9] * 5, [3 * 10 ** 9 + 1] * 5, "products-beyond-int64"),  # each product below 2^63, their sum is not
               ([200, 100, 50, 25, 12], [2, 4, 8, 16, 32], "products-beyond-uint8"),
               ([15, 15, 15, 15], [15, 15, 15, 15], "products-beyond-uint8"),  # each product fits uint8, the sum does not
               ([60000, 30000, 15000], [16, 64, 255], "products-beyond-uint16"),
               ([2 ** (45 - l) for l in range(30)], [2 ** (20 + l) for l in range(30)], "products-beyond-int64"),
               ([2 ** (24 - l) for l in range(20)], [2 ** (10 + l) for l in range(20)], "products-beyond-int32"),
               ([2 ** 70, 2 ** 68, 2 ** 66], [2 ** 10, 2 ** 11, 2 ** 12], "entries-beyond-uint64")]
        return pts
    V, C = BIG_RANGES[case["range"]]
    return [(list(vt), list(ct), case["range"]) for n in case["lengths"] for vt in itertools.product(V, repeat=n)
            for ct in itertools.product(C, repeat=n)]


def exact_variance(vt, N):
    """sum V_l / N_l as a Fraction (0 / 0 read as 0); None = infinite (a level of positive variance without a sample)."""
    from fractions import Fraction

    total = Fraction(0)
    for v, k in zip(vt, N):
        if v > 0:
            if int(k) <= 0:
                return None
            total += Fraction(int(v), int(k))
    return total


def _forms_alloc_big(sh, case):
    import warnings
    from fractions import Fraction

    crit = _criteria()
    tol = bias_tolerance(crit, 1.0)
    share = 1.0 - (tol if tol is not None else 0.0) ** 2
    vforms = [USUAL] + BIG_INT_FORMS
    if case["full"]:
        combos = [(a, b, c) for a in vforms for b in vforms for c in [USUAL] + BIG_RMSE_FORMS]
    else:  # every pair of vector forms with the usual rmse; every form of rmse with the two vectors in one integer form
        combos = [(a, b, USUAL) for a in vforms for b in vforms] + [(a, a, c) for a in BIG_INT_FORMS for c in BIG_RMSE_FORMS]
    combos = [c for c in combos if c != (USUAL,) * 3]
    worst, answers = Fraction(0), set()

    def call(f, *a):
        with np.errstate(all="ignore"), warnings.catch_warnings():
            warnings.simplefilter("ignore")
            return f(*a)

    def well_formed(N, n):
        return isinstance(N, np.ndarray) and np.issubdtype(N.dtype, np.integer) and N.shape == (n,) and not np.any(N < 0)

    for vt, ct, rg in big_points(case):
        n = len(vt)
        assert all(int(float(x)) == x for x in vt + ct), "letters must be exactly representable as doubles"
        for rmse in big_rmses(vt, ct):
            budget = Fraction(share) * Fraction(rmse) ** 2 * (1 + Fraction(1, 10 ** 9))
            sh.count("evaluations")
            N0 = np.asarray(call(crit.compute_mc_paths, rmse, big_vector_form(vt, USUAL), big_vector_form(ct, USUAL)))
            if not well_formed(N0, n):
                sh.violation(f"C06:forms:alloc:sample-sizes-not-non-negative-integers:usual-form:large-values-{rg}",
                             f"compute_mc_paths({rmse}, {vt[:8]}, {ct[:8]}) (float64 arrays) = {N0!r}", None)
                continue
            keep = N0.copy()
            answers.add(tuple(keep.tolist()[:6]))
            est0 = exact_variance(vt, keep)
            if est0 is None or est0 > budget:
                sh.violation(f"C06:forms:alloc:estimator-variance-exceeds-variance-share:usual-form:large-values-{rg}",
                             f"rmse={rmse}, vl={vt[:8]}, cl={ct[:8]} ({n} levels, float64 arrays): N={keep.tolist()[:8]}, sum V/N = "
                             f"{'infinite' if est0 is None else float(est0):.9g} > {share:.6g} rmse^2 = {float(budget):.9g} (exact rational "
                             f"arithmetic)", {"share": share})
            else:
                worst = max(worst, est0 / budget)
            for vf, cf, rf in combos:
                v, c, r = big_vector_form(vt, vf), big_vector_form(ct, cf), big_scalar_form(rmse, rf) if rf != USUAL else rmse
                if isinstance(r, str):
                    sh.count("form_outside_the_alphabet:integer-scalar-rmse-whose-square-leaves-its-type")
                    continue
                if v is None or c is None or r is None:
                    sh.count("form_cannot_hold_the_values")
                    continue
                label = _label(variances=vf, costs=cf, rmse=rf) + f":large-values-{rg}"
                lenient = vf in LENIENT_VECTOR_FORMS or cf != USUAL  # as in the small-value lattice: a refusal of these is counted
                snaps = (_snapshot(v), _snapshot(c), _snapshot(r))
                try:
                    N = call(crit.compute_mc_paths, r, v, c)
                except Exception as e:  # noqa: BLE001
                    if lenient:
                        sh.count("form_rejected_by_the_tree:" + label)
                    else:
                        sh.violation(f"C06:forms:alloc:raises:{label}",
                                     f"compute_mc_paths({r!r}, {v!r}, {c!r}) raises {type(e).__name__}: {e}; the usual form gives "
                                     f"{keep.tolist()[:8]}", None)
                    continue
                sh.count("evaluations")
                sh.cls("forms:alloc:" + label)
                N = np.asarray(N)
                if not well_formed(N, n):
                    sh.violation(f"C06:forms:alloc:sample-sizes-not-non-negative-integers:{label}",
                                 f"compute_mc_paths({r!r}, {v!r}, {c!r}) = {N!r}; float64 arrays of the same numbers give "
                                 f"{keep.tolist()[:8]}", None)
                    continue
                if not np.array_equal(N, keep):
                    est = exact_variance(vt, N)
                    if est is None or est > budget:
                        sh.violation(f"C06:forms:alloc:estimator-variance-exceeds-variance-share:{label}",
                                     f"compute_mc_paths({r!r}, {v!r}, {c!r}) = {N.tolist()[:8]}: sum V/N = "
                                     f"{'infinite' if est is None else float(est):.9g} > {share:.6g} rmse^2 = {float(budget):.9g} (exact rational "
                                     f"arithmetic); float64 arrays of the same numbers give {keep.tolist()[:8]}", {"share": share})
                    else:
                        sh.violation(f"C06:forms:alloc:sample-sizes-differ-from-the-usual-form:{label}",
                                     f"compute_mc_paths({r!r}, {v!r}, {c!r}) = {N.tolist()[:8]}; float64 arrays of the same numbers give "
                                     f"{keep.tolist()[:8]}", None)
                if not (_unchanged(v, snaps[0]) and _unchanged(c, snaps[1]) and _unchanged(r, snaps[2])):
                    sh.violation(f"C06:forms:alloc:argument-array-modified:{label}",
                                 f"compute_mc_paths was handed ({snaps[2]!r}, {snaps[0]!r}, {snaps[1]!r}) and left ({r!r}, {v!r}, {c!r})", None)
    sh.outcome(("large-integers", case["range"], tuple(case["lengths"]), round(float(worst), 9), len(answers)))
    sh.states += len(answers)
    if len(answers) >= 2:
        sh.nontriv()
    if case["range"] == "special":
        sh.sample({"sub": "forms", "part": "alloc", "points": "large-integers", "combinations_of_forms": len(combos),
                   "worst_ratio_to_budget": float(worst)})


def _forms_stop(sh, case):
    crit = _criteria()
    share = variance_share(crit)
    left = math.sqrt(max(0.0, 1.0 - share))
    combos = form_combos(MEAN_FORMS, SCALAR_FORMS, SCALAR_FORMS, case["full"],
                         (("int64", "uint8", "list-int", "float32"), ("python-int", "np.float64", "zero-d-array")),
                         [("list-int", "python-int", "python-int"), ("tuple-int", "python-int", "python-int"),
                          ("int64", "np.int64", "np.int64"), ("int32", "np.int32", "np.int32"), ("int64", "python-int", "python-int"),
                          ("float32", "np.float32", "np.float32"), ("uint8", "python-int", USUAL), ("read-only", "zero-d-array", "zero-d-array")])
    alphas = W_ALPHA if case["alpha"] is None else [W_ALPHA[case["alpha"]]]
    accepted = 0
    scale = float(case.get("scale", 1.0))  # a power of two: verdicts and estimates scale exactly
    for alpha in alphas:
        letters = case.get("letters") or (W_ML_HIGH if alpha > 2 else W_ML)
        for rmse in [r * scale for r in W_STOP_RMSE]:
            for lead in ((), (9.0,)):
                for m3 in itertools.product(letters, repeat=3):
                    mt = [x * scale for x in lead + m3]
                    ml0 = np.array(mt, dtype=float)
                    sh.count("evaluations")
                    given = ml0.copy()
                    usual = bool(crit.criteria(alpha, given, rmse))
                    accepted += usual
                    est0, dom0 = giles_estimate(ml0, alpha)
                    sh.cls(f"forms:stop:usual-form:{alpha_class(alpha)}:{dom0}-dominates:{'accepted' if usual else 'rejected'}")
                    if usual and not (est0 <= left * rmse * (1 + 1e-6)):  # the reference verdict itself (one-sided, as in rays)
                        sh.violation(f"C06:forms:stop:accepts-a-bias-estimate-above-the-tolerance:usual-form:{dom0}-dominates:{alpha_class(alpha)}",
                                     f"criteria({alpha}, {mt}, {rmse}) is True: bias estimate max(m_L, m_L-1/2^a, m_L-2/4^a)/(2^a-1) = "
                                     f"{est0:.6g} > {left * rmse:.6g} = sqrt(rmse^2 - variance share)", {"share": share})
                    if not np.array_equal(given, ml0):
                        sh.violation("C06:forms:stop:argument-array-modified:usual-form",
                                     f"criteria({alpha}, {mt}, {rmse}) left ml={given.tolist()}", None)
                    for mf, af, rf in combos:
                        m, a, r = vector_form(mt, mf), scalar_form(alpha, af), scalar_form(rmse, rf)
                        if m is None or a is None or r is None:
                            sh.count("form_cannot_hold_the_values")
                            continue
                        label = _label(means=mf, alpha=af, rmse=rf)
                        snaps = (_snapshot(m), _snapshot(a), _snapshot(r))
                        try:
                            with np.errstate(all="ignore"):
                                verdict = bool(crit.criteria(a, m, r))
                        except Exception as e:  # noqa: BLE001
                            if mf in LENIENT_MEAN_FORMS:
                                sh.count("form_rejected_by_the_tree:" + label)
                            else:
                                sh.violation(f"C06:forms:stop:raises:{label}",
                                             f"criteria({a!r}, {m!r}, {r!r}) raises {type(e).__name__}: {e}; the usual form gives {usual}", None)
                            continue
                        sh.count("evaluations")
                        sh.cls("forms:stop:" + label)
                        if verdict != usual:
                            est, dom = giles_estimate(ml0, alpha)
                            if verdict and not (est <= left * rmse * (1 + 1e-6)):
                                sh.violation(f"C06:forms:stop:accepts-a-bias-estimate-above-the-tolerance:{label}",
                                             f"criteria({a!r}, {m!r}, {r!r}) is True: bias estimate {est:.6g} > {left * rmse:.6g} = "
                                             f"sqrt(rmse^2 - variance share); the usual form (float64 array, floats) rejects", {"share": share})
                            else:
                                sh.violation(f"C06:forms:stop:verdict-differs-from-the-usual-form:{label}",
                                             f"criteria({a!r}, {m!r}, {r!r}) is {verdict}, the usual form (float64 array, floats) gives {usual}", None)
                        if not (_unchanged(m, snaps[0]) and _unchanged(a, snaps[1]) and _unchanged(r, snaps[2])):
                            sh.violation(f"C06:forms:stop:argument-array-modified:{label}",
                                         f"criteria was handed ({snaps[1]!r}, {snaps[0]!r}, {snaps[2]!r}) and left ({a!r}, {m!r}, {r!r})", None)
            sh.outcome((alpha, rmse, accepted))
    sh.nontriv()
    if case["alpha"] == 1 and scale == 1.0:
        sh.sample({"sub": "forms", "part": "stop", "combinations_of_forms": len(combos), "accepted_in_usual_form": accepted})


def _forms_engine(sh, case):
    """The public entry points of a pricing (ConvergenceRates, ConfigurationMultiLevel, Engine.price) with their numbers in
    other forms, and with the pricing run on a copy of the configuration: same run as in the usual form."""
    sigs = set()
    for rates in case["rates"]:
        for rmse in case["rmses"]:
            for sd in case["sds"]:
                for (L0, N0) in case["starts"]:
                    base = scenario(case["a"], case.get("mult"), rates=rates, rmse=rmse, sd=sd, L0=L0, Lmax=6, N0=N0, c=case.get("c", 0.5))
                    _, _, ref = price_step(sh, "forms", ":engine:usual-form", base, "explicit")
                    sigs.add(ref)
                    sh.outcome(ref[:3] if ref else None)
                    for form in ENGINE_FORMS:
                        sc = dict(base, form=form)
                        try:
                            _, _, sig = price_step(sh, "forms", f":engine:{form}", sc, "explicit")
                        except C5.Horizon:
                            raise
                        except Exception as e:  # noqa: BLE001
                            sh.violation(f"C06:forms:engine:raises:{rates}:{form}",
                                         f"pricing {sc} raises {type(e).__name__}: {e}; the usual form returns {ref}", None)
                            continue
                        sh.cls("forms:engine:" + form)
                        if not same_signature(sig, ref):
                            sh.violation(f"C06:forms:engine:pricing-differs-from-the-usual-form:{rates}:{form}",
                                         f"(L, Nl, converged, bias tests, weak rates) = {sig}; with Python floats / ints and the original "
                                         f"configuration: {ref}", {"scenario": sc})
    sh.states += len(sigs)
    if len(sigs) >= 2:
        sh.nontriv()
    if case["a"] == 1.0:
        sh.sample({"sub": "forms", "part": "engine", "case": case, "distinct_runs": len(sigs)})
