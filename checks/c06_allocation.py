"""C06 - sample allocation meets the variance budget; runs stop only on stated criteria.

Sub-checks
 alloc     lattice: every (vl, cl) vector of length 1..5 over V = {0, 1e-16, 1e-6, 1e-2, 1, 50} x C = {0.5, 1, 8, 1e3} (quick: length
           <= 4) and rmse in {1, 0.1, 1e-3}, through the criteria object of GilesConvergenceCriteria:
           N_l non-negative integers; sum_l V_l/N_l (0/0 read as 0) <= rmse^2 - (bias tolerance)^2, the consequence of the
           statement's two clauses. Nothing is read from the source: the bias tolerance is measured from the behaviour of the
           stopping test (sub-check budget), so the variance budget is what the stopping test leaves of rmse^2.
 alloc0    the same with zero costs in the alphabet (the statement's "including zeros"): reported under its own key.
 budget    bias tolerance of the stopping test measured behaviourally: for alpha in {0.5, 1, 2} the largest last-level mean
           the criterion accepts is found by bisection (ml = (x, x, x)), giving tol(alpha) = sup rem accepted / rmse; then
           tol^2 + share <= 1 + 1e-6.
 shape     the criterion is monotone (accepting ml implies accepting any smaller ml on a lattice), and looks at the last three
           levels as stated in Giles' remainder estimate (checked on the lattice {1e-3, 1e-2, 1e-1, 1}^3 x alpha).
 loop      the C05 choice exploration with a different oracle, per run: terminates within the horizon; no simulate call and
           no next_level beyond maximum_level; returns only when the last evaluation of the bias test was True or the maximum
           level is reached; at return every level has Nl >= N*_l / 1.01 with N* recomputed by the criteria object from the
           reported vl, cl.
Not covered: other ConvergenceCriteria objects a user may pass; rmse outside the three values; real coupling processes.
"""
from __future__ import annotations

import itertools
import math

import numpy as np

from checks import c05_mlmc_estimator as C5
from mc import core
from mc import mlmc_driver as D

PID = "C06"
LEVEL = "model_checking"
RULE = (
    "alloc: complete product of variance/cost alphabets for vector lengths 1..5 x 3 rmse; loop: every configuration of the "
    "C05 lattice x every regime sequence with at most D deviations, one evaluation = one complete run of the real "
    "Engine.price; non-trivial = the case compared at least one allocation / completed at least two distinct loop "
    "trajectories; states = distinct loop trajectories, transitions = choice points taken"
)
ASSUMPTIONS = C5.ASSUMPTIONS + [
    "the variance share and the bias tolerance are measured from the behaviour of compute_mc_paths / criteria, not read "
    "from the source",
]
CHUNK = 1

V_ALPHA = [0.0, 1e-16, 1e-6, 1e-2, 1.0, 50.0]  # 1e-16: a positive variance whose optimal size is far below one sample
C_ALPHA = [0.5, 1.0, 8.0, 1e3]
RMSES = [1.0, 0.1, 1e-3]


def cases(tier):
    thorough = tier == "thorough"
    out = []
    maxlen = 5 if thorough else 4
    for n in range(1, maxlen + 1):
        # shard the product by the first variance letter (and second for the long vectors)
        for v0 in range(len(V_ALPHA)):
            if n >= 4:
                for v1 in range(len(V_ALPHA)):
                    out.append({"sub": "alloc", "n": n, "v0": v0, "v1": v1, "zero_cost": False})
            else:
                out.append({"sub": "alloc", "n": n, "v0": v0, "v1": None, "zero_cost": False})
    for n in range(1, 4):
        out.append({"sub": "alloc", "n": n, "v0": None, "v1": None, "zero_cost": True})
    out.append({"sub": "budget"})
    out.append({"sub": "shape"})
    for c in C5.cases(tier):
        if c["sub"] == "adaptive":
            out.append(dict(c, sub="loop"))
    return out


def check_case(sh, case):
    {"alloc": _alloc, "budget": _budget, "shape": _shape, "loop": _loop}[case["sub"]](sh, case)


def _criteria():
    from rpylib.montecarlo.multilevel.criteria import GilesConvergenceCriteria

    return GilesConvergenceCriteria()


def variance_share(crit):
    """sup over large-sample vectors of sum V/N / rmse^2 (rounding negligible): the share the allocation aims at."""
    best = 0.0
    for vl, cl in (([1.0], [1.0]), ([1.0, 0.01], [1.0, 8.0]), ([50.0, 1.0, 0.01], [0.5, 1.0, 8.0])):
        vl, cl = np.array(vl), np.array(cl)
        N = np.asarray(crit.compute_mc_paths(1e-3, vl, cl), dtype=float)
        best = max(best, float(np.sum(vl / N)) / 1e-6)
    return best


def _alloc(sh, case):
    crit = _criteria()
    # The two clauses of the statement combine into: sum V/N <= rmse^2 - (bias tolerance)^2. The bias tolerance is measured
    # from the behaviour of the stopping test, so the budget does not depend on how the source names its constants.
    tol = bias_tolerance(crit, 1.0)
    share = 1.0 - (tol if tol is not None else 0.0) ** 2
    n = case["n"]
    c_alpha = ([0.0] + C_ALPHA) if case["zero_cost"] else C_ALPHA
    v_axes = [V_ALPHA] * n
    if case["v0"] is not None:
        v_axes = [[V_ALPHA[case["v0"]]]] + v_axes[1:]
    if case["v1"] is not None:
        v_axes = v_axes[:1] + [[V_ALPHA[case["v1"]]]] + v_axes[2:]
    worst = 0.0
    for vt in itertools.product(*v_axes):
        vl = np.array(vt, dtype=float)
        for ct in itertools.product(c_alpha, repeat=n):
            if case["zero_cost"] and 0.0 not in ct:
                continue
            cl = np.array(ct, dtype=float)
            for rmse in RMSES:
                sh.count("evaluations")
                with np.errstate(all="ignore"):
                    N = np.asarray(crit.compute_mc_paths(rmse, vl.copy(), cl.copy()))
                zc = "zero-cost-level" if 0.0 in ct else "positive-costs"
                if N.shape != vl.shape or not np.issubdtype(N.dtype, np.integer) or np.any(N < 0):
                    sh.violation(f"C06:alloc:sample-sizes-not-non-negative-integers:{zc}",
                                 f"compute_mc_paths({rmse}, {vl.tolist()}, {cl.tolist()}) = {N.tolist()}", None)
                    continue
                Nf = N.astype(float)
                with np.errstate(all="ignore"):
                    terms = np.where(vl == 0.0, 0.0, vl / Nf)
                est = float(np.sum(terms))
                budget = share * rmse ** 2
                if not (est <= budget * (1 + 1e-6)):
                    which = "zero-variance-present" if 0.0 in vt else "positive-variances"
                    sh.violation(f"C06:alloc:estimator-variance-exceeds-variance-share:{zc}:{which}",
                                 f"rmse={rmse}, vl={vl.tolist()}, cl={cl.tolist()}: N={N.tolist()}, sum V/N = {est:.6g} > "
                                 f"rmse^2 - (accepted bias)^2 = {share:.6g} rmse^2 = {budget:.6g}", {"share": share})
                worst = max(worst, est / budget if budget else 0.0)
    sh.outcome((n, case["v0"], case["v1"], round(worst, 6)))
    sh.nontriv()
    if case["n"] == 2 and case["v0"] == 3:
        sh.sample({"sub": "alloc", "measured_variance_share": share, "worst_ratio_to_budget": worst})


def bias_tolerance(crit, alpha, rmse=1.0):
    """sup x such that criteria(alpha, (x,x,x), rmse) is True, by bisection; returned as accepted remainder / rmse where
    remainder = x / (2^alpha - 1) (Giles' estimate of the remaining bias for a constant tail)."""
    lo, hi = 0.0, 10.0 * rmse * (2 ** alpha)
    if not crit.criteria(alpha, np.array([lo, lo, lo]), rmse):
        return None
    for _ in range(200):
        mid = 0.5 * (lo + hi)
        if crit.criteria(alpha, np.array([mid, mid, mid]), rmse):
            lo = mid
        else:
            hi = mid
    return lo / (2 ** alpha - 1) / rmse


def _budget(sh, case):
    crit = _criteria()
    share = variance_share(crit)
    for alpha in (0.1, 0.25, 0.4, 0.5, 1.0, 2.0):  # weak rates below 0.5 are legitimate (Blumenthal-Getoor index above 1)
        for rmse in RMSES:
            sh.count("evaluations")
            tol = bias_tolerance(crit, alpha, rmse)
            sh.outcome((alpha, rmse, None if tol is None else round(tol, 9)))
            if tol is None:
                sh.violation("C06:budget:criterion-rejects-zero-bias", f"criteria({alpha}, zeros, {rmse}) is False", None)
                continue
            total = tol ** 2 + share
            if total > 1 + 1e-6:
                sh.violation(f"C06:budget:bias-tolerance-squared-plus-variance-share-exceeds-rmse-squared:{'alpha<0.5' if alpha < 0.5 else 'alpha>=0.5'}",
                             f"alpha={alpha}, rmse={rmse}: accepted bias {tol:.6f} rmse (squared {tol ** 2:.4f}) + variance share "
                             f"{share:.4f} = {total:.4f} > 1", {"tol": tol, "share": share})
    sh.nontriv()
    sh.sample({"sub": "budget", "variance_share": share, "bias_tolerance_over_rmse": bias_tolerance(crit, 1.0)})


def _shape(sh, case):
    crit = _criteria()
    vals = [1e-3, 1e-2, 1e-1, 1.0]
    for alpha in (0.25, 0.5, 1.0, 2.0):
        for rmse in (1.0, 0.1):
            acc = {}
            for ml in itertools.product(vals, repeat=3):
                sh.count("evaluations")
                acc[ml] = bool(crit.criteria(alpha, np.array(ml), rmse))
                # a longer history must not matter beyond the last three levels
                longer = bool(crit.criteria(alpha, np.array((5.0,) + ml), rmse))
                if longer != acc[ml]:
                    sh.violation("C06:shape:criterion-depends-on-levels-before-the-last-three",
                                 f"alpha={alpha} rmse={rmse} ml={ml}: {acc[ml]} but {longer} with an extra leading level", None)
            for a, b in itertools.product(acc, repeat=2):
                if all(x <= y for x, y in zip(a, b)) and acc[b] and not acc[a]:
                    sh.violation("C06:shape:criterion-not-monotone", f"alpha={alpha} rmse={rmse}: accepts {b} but rejects {a}", None)
            sh.outcome((alpha, rmse, sum(acc.values())))
    sh.nontriv()


# ----------------------------------------------------------------------------------------------------------------------

def _loop(sh, case):
    trajectories = set()

    def run(ch):
        traj, outcome = run_once(sh, case, ch)
        trajectories.add((traj, outcome))
        sh.count("runs")
        sh.count("evaluations")
        sh.outcome((traj, outcome))

    ex = core.ChoiceExplorer(run, bound=case["bound"], max_runs=200000)
    ex.explore(shard=tuple(case.get("shard", (0, 1))))
    if ex.capped:
        sh.cap(f"run cap hit for {case}")
    sh.states += len(trajectories)
    sh.transitions += ex.points_total
    if len(trajectories) >= 2:
        sh.nontriv()


def run_once(sh, case, chooser):
    import warnings

    eng, rec, product, coupling = C5.build_engine(case, chooser)
    crit = eng.configuration.convergence_criteria
    calls = {"criteria": [], "paths": []}
    orig_criteria, orig_paths = crit.criteria, crit.compute_mc_paths

    def criteria(alpha, ml, rmse):
        r = orig_criteria(alpha, ml, rmse)
        calls["criteria"].append((float(alpha), np.array(ml, dtype=float).tolist(), bool(r)))
        return r

    def compute_mc_paths(rmse, vl, cl):
        r = orig_paths(rmse, vl, cl)
        calls["paths"].append(np.asarray(r).tolist())
        return r

    crit.criteria, crit.compute_mc_paths = criteria, compute_mc_paths
    real_choose = chooser.choose

    def guarded(arity, label=""):
        lvl = int(label.split(":")[1][1:]) if label.startswith("regime:") else 0
        if rec.batches.get(lvl, 0) > C5.HORIZON:
            raise C5.Horizon(label)
        return real_choose(arity, label)

    chooser.choose = guarded
    Lmax = case["Lmax"]
    outcome = "returned"
    stats = None
    try:
        with np.errstate(all="ignore"), warnings.catch_warnings():
            warnings.simplefilter("ignore")
            stats = eng.price(product, case["rmse"])
    except C5.Horizon:
        outcome = "horizon"
        sh.violation("C06:loop:no-termination-within-horizon",
                     f"run still simulating after {C5.HORIZON} batches at one level", {"regimes": rec.regime_log[:40]})
    finally:
        chooser.choose = real_choose
        crit.criteria, crit.compute_mc_paths = orig_criteria, orig_paths
    regimes = rec.regime_log
    # never above the configured maximum
    top_sim = max(rec.simulate_levels) if rec.simulate_levels else 0
    top_next = max(rec.next_level_calls) if rec.next_level_calls else 0
    if top_sim > Lmax:
        sh.violation("C06:loop:simulated-a-level-above-the-maximum", f"simulated level {top_sim} > maximum_level {Lmax}",
                     {"regimes": regimes[:40]})
    if top_next > Lmax:
        sh.violation("C06:loop:created-a-level-above-the-maximum", f"next_level up to {top_next} > maximum_level {Lmax}",
                     {"regimes": regimes[:40]})
    # the weak rate handed to the stopping test: the configured one, or the regression of the very ml vector it is tested on
    # (slope of log2(ml[1:]) against the level, floored at 0.5 - the estimator the engine documents)
    for (alpha_used, ml_used, verdict) in calls["criteria"]:
        if case.get("rates", "given") == "given":
            alpha_ref = 1.0
        else:
            y = np.log2(np.array(ml_used[1:], dtype=float)) if len(ml_used) > 1 else np.array([])
            if y.size < 2 or not np.all(np.isfinite(y)):
                continue
            slope = np.polyfit(np.arange(1, len(ml_used)), y, 1)[0]
            alpha_ref = max(0.5, -float(slope))
        if not core.close(alpha_used, alpha_ref, rtol=1e-6, atol=1e-9):
            sh.violation(f"C06:loop:stopping-test-evaluated-with-another-weak-rate:{case.get('rates', 'given')}",
                         f"criteria called with alpha={alpha_used!r} on ml={ml_used}; the {'configured' if case.get('rates', 'given') == 'given' else 'regressed'} weak rate is {alpha_ref!r}",
                         {"regimes": regimes[:40]})
            break
    traj = ()
    if stats is not None:
        res = stats.mlmc_results
        Nl = np.asarray(res.Nl)
        L = len(Nl) - 1
        last = calls["criteria"][-1] if calls["criteria"] else None
        converged = bool(last and last[2] and len(last[1]) == len(Nl))
        traj = (L, tuple(int(x) for x in Nl), converged)
        if not converged and L != Lmax:
            exit_kind = "without-evaluating-the-bias-test" if (last is None or len(last[1]) != len(Nl)) else "with-a-failed-bias-test"
            sh.violation(f"C06:loop:returned-below-maximum-level-{exit_kind}",
                         f"returned with L={L} < maximum_level={Lmax}, Nl={Nl.tolist()}, last bias test: {last}",
                         {"regimes": regimes[:40]})
        # every level has its optimal number of samples within the 1 % rule (recomputed from the reported vl, cl)
        with np.errstate(all="ignore"):
            vl = np.asarray(res.vl, dtype=float)
            cl = np.asarray(res.cl, dtype=float)
            if np.all(np.isfinite(vl)) and np.all(np.isfinite(cl)):
                Nstar = np.asarray(orig_paths(case["rmse"], vl.copy(), cl.copy()), dtype=float)
                short = [int(l) for l in range(len(Nl)) if Nl[l] < Nstar[l] / 1.01 - 1e-9]
                if short:
                    sh.violation("C06:loop:returned-with-a-level-below-its-optimal-sample-size",
                                 f"levels {short}: Nl={Nl.tolist()} but optimal sizes from the reported vl, cl are {Nstar.tolist()}",
                                 {"regimes": regimes[:40], "vl": vl.tolist(), "cl": cl.tolist()})
            else:
                sh.violation("C06:loop:reported-statistics-not-finite", f"vl={vl.tolist()} cl={cl.tolist()}", {"regimes": regimes[:40]})
    return traj, outcome
