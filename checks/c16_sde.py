"""C16 - the SDE scheme is the Euler scheme of its driver; rate models discount sanely.

Everything is observed the way the engines obtain it.  A real SDE model is built through the public constructors
(``LevyDrivenSDEModel``, ``LevyLiborModel``, ``LevyForwardModel``, ``create_levy_forward_market_model[_copula]``), the grid with
``CTMCUniformGrid(h=0.1, model=model)`` as the scripts under /repo/scripts/mlmc do, the process with ``MarkovChainSDE`` /
``MarkovChainLevyLiborModel`` (standard engine) or ``CouplingSDE`` followed by ``initialisation``, ``pre_computation`` and
``next_level`` once per level with a list of real ``MLMCPath`` managers (multilevel engine).  The *solution* compared is what
the path manager adds up: ``deterministic_path(times) + StochasticSDEPath.value()``.

Sub-checks (all lattice sweeps; a case = one configuration, the scripted driver paths are enumerated inside it)

 euler     drivers, full coefficient menu {1-d HEM, 1-d CGMY y=1.2, 2-d Clayton copula of HEM x VG; thorough: also HEM x CGMY y=1.2}
           x coefficient functions {Constant (default a=None; m=1,2,3 rows), DiagX (d=1,2), LiborSDEFunction (through
             LevyLiborModel with list tenors, and directly with array tenors), ForwardMarketSDEFunction (through
             LevyForwardModel, directly, and through the create_levy_forward_market_model helpers)}
           x two float initial values
           drivers, reduced menu {default function, DiagX, one rate model; first initial value}:
             1-d VG (pure jump, finite variation: identically zero diffusion path), and the RE-INITIALISED twins
             (mc.alphabets ``via: "reinit"``: parameter object built with other values, attributes re-assigned,
             ``initialisation()``, model constructor) of HEM, CGMY y=1.2 and of both margins of the copula (quick: levels 0, 1);
             thorough: also the twin of VG and CGMY y=0.5.  The twin is compared with the chain drift of the DIRECTLY built driver.
             1-d "crash" HEM (sigma .1, p .4, eta1 10, eta2 1.5, intensity 3: mean down-jump 0.67, the Levy measure and the grid
             reach below -100 %): in the captured sub-check the REAL driver hands over steps with 1 + dY < 0 (single and coupled)
           rarely used construction routes (1-d HEM unless said): the Python int x0=1; x0 omitted (default 0.0, on HEM and on
             the copula: Constant(m=1, d=2)); an integer numpy array as x0 (copula, Constant m=2) - words of length <= 2;
             LevyLiborModel with ONE float as its curve (m=1, tenors (1,2)) at every level; a numpy scalar as x0 with DiagX
           x levels {0 (single process, standalone and CouplingSDE at level 0), 1, 2 (coupled pair)}
           x HISTORIES by which the object reaches its state (each on its own fresh model):
             level 0   single              built, initialised, pre-computed
                       single-reused       a second Engine.price on one standard engine: the process simulated a word, its cost
                                           was read and reset, initialisation() + pre_computation() again with a product of
                                           ANOTHER maturity; the object used is a copy.deepcopy of it (pool route)
                       coupling-l0         CouplingSDE at level 0
                       coupling-l0-reused  = coupled-reprice at level 0 (below)
             level>=1  coupled             fast-forward: next_level() `level` times, nothing simulated in between
                       coupled-hist        Engine.price_with_constant_mc_paths_and_level: one object; at every intermediate level
                                           (0 included) pre_computation, one scripted two-step word simulated, cost read, next_level()
                       coupled-hist-copy   Engine.price: as before, but the object is copy.deepcopy-ed after it has simulated and
                                           next_level() is called on the copy
                       coupled-reprice     a second Engine.price on one multilevel engine: the engine's coupling object is
                                           initialised, a deep copy climbs to `level` as in coupled-hist-copy (simulating at every
                                           level, `level` included); then the SAME engine object is initialised and pre-computed
                                           with a product of another maturity, a new list of path managers is started and a new
                                           deep copy climbs again; that one is used
             (state cached on the object by a simulation at level l-1, or by an earlier pricing, must not leak; the *-reused /
              *-reprice objects run the words of length <= 2; thorough: so do coupled-hist and coupled-hist-copy)
           x a SECOND OBJECT OF THE SAME CLASSES used in between (``other_case``): same driver family, coefficient function class,
             model class, process class and level, every parameter different (driver parameters - hence chain drifts -, copula
             parameters, initial value, constant, volatility matrix, tenors).  It is built FIRST, runs 12 words (8 of length 1, 4 of
             length 2) FIRST, the objects of the case run their words of length 1, the second object runs its 12 words again, then
             the rest.  The second object is compared with its own oracle too (names ``other-single``, ``other-coupling-l0``,
             ``other-coupled``): state kept at class / module level / in a shared default argument by whoever comes first shows
             on one of the two, whatever an earlier case left in this worker process.
           x scripted driver paths: all words of length 1..3 over the step alphabet DT x DL x DW with
             quick     DT={0.25,1.0}       DL={-0.2,0.1}       DW={-0.3,0.4}            (8 letters,   584 words)
             thorough  DT={0.25,1.0,0.5}   DL={-0.2,0.1,0.0*}  DW={-0.3,0.4,0.0}        (27 letters, 20439 words)
             (2-d drivers: vectors; coupled pair: fine and coarse letters differ; * coupled third letter: fine 0.05, coarse 0),
             then the EXTREME increments: letters whose increment (drift included), per component, is below -100 % (1 + dY < 0:
             the Euler solution of DiagX changes sign; -1.7+0.1), exactly -100 % (dL = -1 - mu dt - dW with the leg's own reference
             drift: 1 + dY = 0 up to rounding, DiagX stays 0 from there on), between -100 % and 0 (-0.75), large positive (+3.3),
             thorough: far below (-3.4, |1 + dY| > 1).  Component j of leg l (fine 0, coarse 1) of extreme letter k has kind
             k + 2l + j (mod 4 | 5) and its own values: the components of a copula driver and the two legs of the pair never get
             the same kind on one step.  All words of length 1..3 over {extreme letters} + {ordinary letter 1 (thorough: 1, 6)}
             with at least one extreme letter (quick 4+1 letters: 152 words; thorough 5+2: 385), for EVERY coefficient class,
             driver, level, history and initial value, plus (functions without tenors) ONE long path of 24 (thorough 64) steps:
             every letter but the 'exact' one, twice, then that one and an ordinary one.  The second object runs two such words.
             Followed by the words of length 1 AGAIN on the same objects (a shorter path after the longest ones).
           The driver path the scheme consumes is REPLACED by the scripted ``StochasticJumpPath(times, diffusion, jumps)``
           (``markov_chain.simulate_one_path`` for the single process, ``driver_coupling_process.simulate_one_path_with_coupling``
           for the pair), so the check is a deterministic function of the word.  numpy's global generator is replaced by a
           function that raises: no randomness is consumed.
           Oracle, for the single process and for both components of the pair (each with its own increments and its own
           driver drift: fine = drift of a *freshly built* driver chain on the grid refined `level` times, coarse = the one
           refined `level-1` times):
             times    returned times == driver times (exactly); value arrays as long as the times
             step     X_{i+1} = X_i + (sde drift(t_i,X_i) + a(t_i,X_i) mu) dt_i + a(t_i,X_i)(dW_i + dL_i), every i
             closed   Constant: X_i = x0 + a (mu t_i + W_i + L_i);  DiagX: X_i = x0 * prod_{j<i} (1 + mu dt_j + dW_j + dL_j)
           a(t,x) in the oracle: written out here for Constant (the constant matrix) and DiagX (diag(x)), which the statement
           defines; for the two rate functions the statement does not define a, and the oracle evaluates the model's own
           function object on its own state (a column, component by component).  The sde drift is zero except for
           LevyLiborModel, where the oracle calls the process's own ``sde_drift`` on its own state (the statement does not say
           what the Libor drift is; only when and where it is evaluated is checked - and, by ``pure``, that it is a function).
           Tolerance |x-y| <= 1e-9 * max|X| (maximum over the path, which contains x0): the two sides differ by
           re-association only.
 captured  the same configurations (first initial value, same histories; the warm-up paths are simulated by the real driver, the
           re-initialisations with the second maturity act on the real driver), but the real driver is left in place and
           wrapped so that the path it hands over is recorded; 6 paths per object under a *scripted* generator
           (numpy.random.poisson returns 0,1,3,6,2,4 jumps in turn - shorter paths follow longer ones -, uniform/random_sample a
           Weyl sequence, normal a 5-cycle).  Checks that exactly one driver path is consumed per SDE path, that the real path
           has the array layout the scripted words use (times (n,), values (d?,n) / (2,d?,n)), and evaluates the same oracle on
           it.  This binds the scripted words to the real interface.  (No second object here.)
 pure      a(t, x) of LiborSDEFunction / ForwardMarketSDEFunction (built directly and through the two model constructors), the
           Libor drift ``MarkovChainLevyLiborModel.sde_drift(t, x)`` and ``df(t)`` of the two rate models are FUNCTIONS of their
           arguments and of what the object was constructed with.  One case, 7 components x 12 times in [0, 4] (before, at,
           between and after the tenors) x states {two columns (3,1), their (2,3,1) stack}.  Two argument sets ("main": tenors
           (1,2,3,4), HEM; "other": tenors (0.75,1.75,3.25,4), every volatility, rate and driver parameter different; same h).
           Reference = the library itself in a FRESH INTERPRETER PROCESS that builds one argument set alone and evaluates in
           ascending time order (no definition of the functions is assumed).  History in this process: second object built first
           and read first; main read in DESCENDING time order; main read again; a deepcopy of main; a freshly built twin of main;
           second object read again descending.  Every table must equal its reference (rtol 1e-12, same shapes).  If no fresh
           process can be started the case reports a cap, never a violation.
 df        LevyForwardModel, LevyLiborModel with rates {flat 2%, rising, one zero rate} x tenors {(1,2,3), (5,...,10),
           (0.5,1.25,3) periods of unequal length, (0,1,2.5) first tenor at time 0} (thorough: also first rate zero, flat 10%, a
           single period (1,2), quarterly (0.25,...,1)); plus ONE float as the curve (tenors (0.5,1.5)) and numpy arrays as rates
           and tenors; mesh = 401 equidistant points of [0, last tenor] plus every tenor and tenor -+ 1e-9 (clipped to [0, last
           tenor]).  df(0) = 1, df finite and > 0, df non-increasing along the mesh (slack 4 ulp), |df(T +- 1e-9) - df(T)| <= 1e-7
           at every tenor.  History on the re-used model: a second model of the same class (another curve, same tenors) is built
           and read first and is read in between; the mesh is read a second time in DESCENDING order: same value as the first
           reading (exactly), and |df(t + 1e-9) - df(t)| <= 1e-7 at EVERY mesh point; df(T) for T an int / numpy int / numpy float
           equals df(float(T)) (rtol 1e-12).  The other model classes (Levy model, exponential model with r in {0, 0.02, 0.05},
           copula model, plain LevyDrivenSDEModel) on a mesh of [0,10]; every exponential family of mc.alphabets.model_specs
           (HEM, Merton, VG, CGMY y in {-0.5,...,1.5}, Black-Scholes) each followed by its re-initialised twin (none for
           Black-Scholes: no parameter object); their second object has another rate r.

Violation keys: C16:euler:<[other-]single|single-reused|coupling-l0|coupling-l0-reused|coupled|coupled-hist|coupled-hist-copy|
coupled-reprice[:fine|:coarse]>:<coefficient function[:how built]>:<failure>:driver-d=<d>[-reinit]:<t<first-tenor | t>=first-tenor |
no-tenors>:<x0=float|x0=int|x0=default|x0=numpy-scalar>[:dY<=-1][:captured]  (dY<=-1: the leg's driver path has a step with
1 + dY <= 0, drift included - only on step-differs / closed-form-differs),   C16:pure:<component>:<value-depends-on-history|raises-X>:<step>   and
C16:df:<model class>:<failure>:<where>[:side|:time-type=..].
A violation of the euler sub-check carries the failing word(s) (case field ``only_words``; for the "again" phase the last long
word and the short one): its replay runs them alone, after the 12 words of the second object.
For the tenor-based functions the class ``t>=first-tenor`` means that some step of the word starts at or after the first
tenor (the scripts only price products maturing at the first tenor, so only ``t<first-tenor`` is reached by them).

Outside the alphabet (statement silent): times beyond the last tenor (df raises IndexError there); negative rates; unsorted
tenors; the value of the rate coefficient functions and of the Libor drift themselves (only: evaluated at (t_i, X_i), and pure);
the decomposition of the solution into drift / diffusion / jump parts (only the sum is compared); the maximum-step epsilon handed
to the driver (C15); antithetic paths (StochasticSDEPath.antithetic_value raises by construction); drivers, steps and
increments outside the menus (no 3-d copula: minutes per construction); the public attribute ``model.x0`` RE-ASSIGNED after a
CouplingSDE was built on the model (no library route does it; the coupled levels then start from the old value kept in the
coupling object - latent, not judged); the Libor model on a copula driver gets neither the re-priced histories nor a second
object (2 s of double quadrature per initialisation; the 1-d drivers cover the same classes).
"""
from __future__ import annotations

import contextlib
import itertools
import math
import warnings

import numpy as np

from mc import core

PID = "C16"
LEVEL = "exploration"
RULE = (
    "complete product drivers x coefficient functions x initial values x levels x histories (fresh, re-used / re-priced with a "
    "second product, same-object, deepcopy), each with a second object of the same classes built and used in between, and inside "
    "every configuration every word of length 1..3 over the stated step alphabet as the driver path (then the words of length 1 "
    "again); complete product model class x rates x tenors with every point of the stated time mesh, read twice; one purity case "
    "(7 components x 12 times x 6 history steps against two fresh interpreter processes); a case is non-trivial when at least one "
    "solution value (or discount factor, or function value) was compared with the oracle; distinct = distinct case dict"
)
ASSUMPTIONS = [
    "the scheme is observed through MarkovChainSDE.markov_chain.simulate_one_path / "
    "CouplingSDE.driver_coupling_process.simulate_one_path_with_coupling (the seams named in observe_at), replaced by scripted "
    "StochasticJumpPath objects whose array layout is bound to the real drivers by the 'captured' sub-check",
    "driver drifts of the oracle come from freshly built MarkovChainProcess / MarkovChainLevyCopula objects on freshly built "
    "grids refined level / level-1 times (which level's drift is used is checked, not its value: that is C04); a re-initialised "
    "twin of a driver is compared with the drift of the directly constructed driver",
    "for LiborSDEFunction / ForwardMarketSDEFunction and the Libor sde drift the oracle evaluates the library's own function on "
    "the oracle's own state; their values are not checked, only (sub-check pure) that they equal what the library returns in a "
    "fresh interpreter process that builds the same arguments alone",
    "captured sub-check: numpy.random.{poisson,uniform,random_sample,random,normal} are replaced by scripted sequences",
    "pure sub-check: sys.executable can be started as a child process with the environment of the runner",
]
CHUNK = 1

H0 = 0.1
RTOL = 1e-9

# ----------------------------------------------------------------------------------------------------------------------
# alphabets
# ----------------------------------------------------------------------------------------------------------------------

DRIVERS = ["hem", "cgmy12", "cop-hem-vg"]
DRIVERS_THOROUGH = DRIVERS + ["cop-hem-cgmy12"]  # infinite variation copula: non-trivial diffusion matrix, epsilon < 1
# reduced-menu drivers: a pure-jump driver of finite variation (identically zero diffusion path) and the "reinit" twins
# (mc.alphabets.with_reinit: same parameter values reached through a re-assigned and re-initialised parameter object)
DRIVERS_REDUCED = ["vg", "hem@reinit", "cgmy12@reinit", "cop-hem-vg@reinit", "hem-crash"]
DRIVERS_REDUCED_THOROUGH = DRIVERS_REDUCED + ["vg@reinit", "cgmy05"]
DRIVER_SPECS = {
    "hem": {"family": "hem", "exp": False, "params": {}},
    "cgmy12": {"family": "cgmy", "exp": False, "params": {"c": 1.0, "g": 15.0, "m": 20.0, "y": 1.2}},
    "cgmy05": {"family": "cgmy", "exp": False, "params": {"c": 1.0, "g": 15.0, "m": 20.0, "y": 0.5}},
    "vg": {"family": "vg", "exp": False, "params": {}},
    # a driver whose Levy measure has mass below -100 % (mean down-jump 1/eta2 = 0.67; its grid reaches below -1): real driver
    # steps with 1 + dY < 0, on which the Euler solution of dX = diag(X) dY changes sign
    "hem-crash": {"family": "hem", "exp": False, "params": {"sigma": 0.1, "p": 0.4, "eta1": 10.0, "eta2": 1.5, "intensity": 3.0}},
    "hem-crash-b": {"family": "hem", "exp": False, "params": {"sigma": 0.15, "p": 0.3, "eta1": 8.0, "eta2": 1.2, "intensity": 2.0}},
    # drivers of the SECOND object of the same class used in between (other parameters: another chain drift)
    "hem-b": {"family": "hem", "exp": False, "params": {"sigma": 0.08, "p": 0.4, "eta1": 15.0, "eta2": 30.0, "intensity": 2.0}},
    "cgmy12-b": {"family": "cgmy", "exp": False, "params": {"c": 0.5, "g": 6.0, "m": 6.0, "y": 1.2}},
    "cgmy05-b": {"family": "cgmy", "exp": False, "params": {"c": 0.5, "g": 6.0, "m": 6.0, "y": 0.5}},
    "vg-b": {"family": "vg", "exp": False, "params": {"sigma": 0.2, "nu": 0.2, "theta": -0.15}},
}
COPULA_MARGINS = {"cop-hem-vg": ["hem", "vg"], "cop-hem-cgmy12": ["hem", "cgmy12"], "cop-hem-vg-b": ["hem-b", "vg-b"],
                  "cop-hem-cgmy12-b": ["hem-b", "cgmy12-b"]}
COPULA_PARAMS = {"cop-hem-vg-b": {"theta": 1.2, "eta": 0.5}, "cop-hem-cgmy12-b": {"theta": 1.2, "eta": 0.5}}


def _base(drv):
    return drv.split("@")[0]


def _reinit(drv):
    return drv.endswith("@reinit")


class _Dim(dict):
    def __missing__(self, drv):
        return 2 if _base(drv) in COPULA_MARGINS else 1


DRIVER_DIM = _Dim()


def other_driver(drv):
    """Driver of the second object of the same class: same family, other parameters."""
    base = _base(drv)
    return base[:-2] if base.endswith("-b") else base + "-b"


TENORS_SHORT = [1, 2, 3]

DT = [0.25, 1.0, 0.5]
# letters per layout; index 0,1 = quick, 2 = thorough extra
DL_1 = [-0.2, 0.1, 0.0]
DW_1 = [-0.3, 0.4, 0.0]
DL_2 = [(-0.2, 0.1), (0.1, 0.3), (0.0, 0.0)]
DW_2 = [(-0.3, 0.2), (0.4, -0.1), (0.0, 0.0)]
DL_C1 = [(-0.2, -0.2), (0.1, 0.2), (0.05, 0.0)]  # (fine, coarse)
DW_C1 = [(-0.3, -0.25), (0.4, 0.35), (0.0, 0.0)]
DL_C2 = [((-0.2, 0.1), (-0.2, 0.2)), ((0.1, 0.3), (0.2, 0.4)), ((0.05, 0.0), (0.0, 0.0))]
DW_C2 = [((-0.3, 0.2), (-0.25, 0.15)), ((0.4, -0.1), (0.35, -0.05)), ((0.0, 0.0), (0.0, 0.0))]


def _letters(d, coupled, tier):
    k = 3 if tier == "thorough" else 2
    if coupled:
        dl, dw = (DL_C1, DW_C1) if d == 1 else (DL_C2, DW_C2)
    else:
        dl, dw = (DL_1, DW_1) if d == 1 else (DL_2, DW_2)
    return [
        (dt, np.array(l, dtype=float), np.array(w, dtype=float))
        for dt in DT[:k] for l in dl[:k] for w in dw[:k]
    ]


# EXTREME increments (per component, drift included): a step below -100 % (1 + dY < 0: the Euler solution of dX = diag(X) dY
# changes sign), exactly -100 % (1 + dY = 0 up to rounding: the solution of DiagX is 0 from there on), between -100 % and 0, a
# large positive one, and (thorough) far below -100 % (|1 + dY| > 1).  The components of a 2-d driver and the two legs of the
# coupled pair get DIFFERENT kinds on one step (component j of leg l of letter k has kind k + 2 l + j), with other values.
EXT_KINDS = ["below", "exact", "between", "large", "far-below"]
EXT_DT = [0.25, 1.0, 0.25, 1.0, 0.5]


def _ext_component(kind, dt, mu, j):
    s = 1.0 + 0.05 * j
    if kind == "below":
        return -1.7 * s, 0.1
    if kind == "exact":  # mu dt + dL + dW = -1
        dw = 0.25 * s
        return -1.0 - mu * dt - dw, dw
    if kind == "between":
        return -0.6 * s, -0.15
    if kind == "large":
        return 2.5 * s, 0.8
    return -3.0 * s, -0.4


def _extreme_letters(d, coupled, tier, mus):
    """mus = driver drifts (d,) of the legs ([single] or [fine, coarse]): the 'exact' kind needs them."""
    nk = 5 if tier == "thorough" else 4
    shape = ((2,) if coupled else ()) + ((d,) if d > 1 else ())
    out = []
    for k in range(nk):
        dt = EXT_DT[k]
        vals = [[_ext_component(EXT_KINDS[(k + 2 * leg + j) % nk], dt, float(np.ravel(mus[leg])[j]), 2 * leg + j)
                 for j in range(d)] for leg in range(2 if coupled else 1)]
        dl = np.array([[v[0] for v in row] for row in vals], dtype=float).reshape(shape)
        dw = np.array([[v[1] for v in row] for row in vals], dtype=float).reshape(shape)
        out.append((dt, dl, dw))
    return out


def increment_classes(dY):
    """Classes of the driver increments dY (drift included) of one leg: set of names."""
    out = set()
    f = 1.0 + np.asarray(dY, dtype=float)
    if np.any(f < -1e-12):
        out.add("below-100%")
    if np.any(np.abs(f) <= 1e-12):
        out.add("exactly-100%")
    if np.any((f > 1e-12) & (f < 1.0)):
        out.add("between-100%-and-0")
    if np.any(f > 2.0):
        out.add("above+100%")
    return out


def _x0_menu(m, rates):
    if rates:
        return {1: [[0.02], [0.03]], 2: [[0.02, 0.02], [0.01, 0.03]], 3: [[0.02, 0.02, 0.02], [0.01, 0.03, 0.02]]}[m]
    return {1: [1.5, -0.75], 2: [[1.5, 0.5], [-0.75, 2.0]], 3: [[1.5, 0.5, 1.0], [-0.75, 2.0, 0.25]]}[m]


def coef_specs(d):
    """Coefficient functions offered, for a driver of dimension d. 'm' = dimension of X."""
    out = [
        {"kind": "default", "m": 1},
        {"kind": "constant", "m": d, "c": 2.0},
        {"kind": "constant", "m": d + 1, "c": -0.5},
        {"kind": "diagx", "m": d},
        {"kind": "libor-model", "m": 2, "tenors": TENORS_SHORT},
        {"kind": "libor-direct", "m": 2, "tenors": TENORS_SHORT},
        {"kind": "forward-model", "m": 2, "tenors": TENORS_SHORT},
        {"kind": "forward-direct", "m": 2, "tenors": TENORS_SHORT},
        {"kind": "forward-helper", "m": 5, "tenors": [5, 6, 7, 8, 9, 10]},
    ]
    if d == 2:
        out[0] = {"kind": "default", "m": 2}
    return out


def coef_specs_reduced(drv):
    """Menu of the reduced-menu drivers (DRIVERS_REDUCED): the default function, DiagX and one rate model.  The Libor model
    on a copula driver costs a double quadrature per construction (6 s), so the copula twin takes the forward model."""
    d = DRIVER_DIM[drv]
    rate = {"kind": "libor-model", "m": 2, "tenors": TENORS_SHORT} if d == 1 and _base(drv) != "vg" else \
        {"kind": "forward-model", "m": 2, "tenors": TENORS_SHORT}
    return [{"kind": "default", "m": d}, {"kind": "diagx", "m": d}, rate]


SCALAR_LIBOR = {"kind": "libor-model", "m": 1, "tenors": [1, 2], "scalar": True}  # `libor_rates` given as one float

OTHER_TENORS = {3: [0.75, 1.75, 3.25], 2: [0.75, 2.5]}


def other_case(case):
    """The configuration of the SECOND object of the same classes that is built before, and used in between, the objects of
    `case`: same classes (driver family, coefficient function class, model class, process class, level), every parameter
    different (driver parameters hence chain drifts, initial value, constant, volatility matrix, tenors)."""
    c = dict(case["coef"])
    kind = c["kind"]
    if kind == "constant":
        c["c"] = -1.5 * c["c"]
    elif kind == "forward-helper":  # the helper has no parameter: the same function class through the model constructor
        c = {"kind": "forward-model", "m": 2, "tenors": OTHER_TENORS[3], "sigma_scale": 0.6}
    elif "sigma_scale" in c:  # the second object of a second object (replay of a violation found on it): back again
        c["tenors"] = {3: TENORS_SHORT, 2: [1, 2]}[len(c["tenors"])]
        del c["sigma_scale"]
    elif "tenors" in c:
        c["tenors"] = OTHER_TENORS[len(c["tenors"])]
        c["sigma_scale"] = 0.6
    x0 = case["x0"]
    x0 = 1 if x0 in (0, None, "int", "default", "int-array", "np-float") else 0
    out = {"sub": case["sub"], "driver": other_driver(case["driver"]), "coef": c, "x0": x0, "level": case["level"],
           "tier": case["tier"]}
    return out


def coef_label(c, d):
    k = c["kind"]
    if k == "default":
        return "Constant:default"
    if k == "constant":
        return f"Constant:m={c['m']}"
    if k == "diagx":
        return f"DiagX:d={d}"
    return {"libor-model": "LiborSDEFunction:LevyLiborModel", "libor-direct": "LiborSDEFunction:direct",
            "forward-model": "ForwardMarketSDEFunction:LevyForwardModel", "forward-direct": "ForwardMarketSDEFunction:direct",
            "forward-helper": "ForwardMarketSDEFunction:helper"}[k]


def _sigma(m, d, scale=1.0):
    base = np.array([[0.50, 1.50], [0.80, 1.25], [1.00, 1.00], [1.25, 0.80], [1.50, 0.50]])
    if scale != 1.0:  # the second object: other entries in every row
        return (scale * base[::-1])[:m, :d].copy()
    return base[:m, :d].copy()


DF_OTHER_MODELS = ["levy-hem", "levy-cgmy12", "copula", "sde-plain", "exp-hem:0.0", "exp-hem:0.02", "exp-cgmy12:0.05", "exp-bs:0.02",
                   "exp-copula:0.02"]


def cases(tier):
    from mc import alphabets as A

    out = []
    thorough = tier == "thorough"
    # ---- df (cheapest first)
    rate_menu = ["flat2", "rising", "one-zero"] + (["first-zero", "flat10"] if thorough else [])
    # unit periods as the library's helpers have them; periods of unequal lengths; a first tenor at time 0
    tenor_menu = [[1, 2, 3], [5, 6, 7, 8, 9, 10], [0.5, 1.25, 3.0], [0.0, 1.0, 2.5]] + ([[1, 2], [0.25, 0.5, 0.75, 1.0]] if thorough else [])
    for cls in ("LevyForwardModel", "LevyLiborModel"):
        for tenors in tenor_menu:
            for rates in rate_menu:
                if len(tenors) == 2 and rates in ("one-zero", "first-zero"):
                    continue
                for drv in (["hem"] if not thorough else ["hem", "cop-hem-vg"]):
                    out.append({"sub": "df", "model": cls, "tenors": tenors, "rates": rates, "driver": drv})
        # rarely used construction routes: one float as the curve (one period); numpy arrays as rates and tenors
        out.append({"sub": "df", "model": cls, "tenors": [0.5, 1.5], "rates": "scalar2", "driver": "hem"})
        out.append({"sub": "df", "model": cls, "tenors": [1, 2, 3], "rates": "rising", "driver": "hem", "args": "array"})
    for other in DF_OTHER_MODELS:
        out.append({"sub": "df", "model": other})
    # every exponential family of the shared alphabet, each followed by its re-initialised twin
    for spec in A.with_reinit(A.model_specs(tier, families=("hem", "merton", "vg", "cgmy", "bs"), exp=(True,))):  # (no twin for Black-Scholes: no parameter object)
        out.append({"sub": "df", "model": "spec", "spec": spec})
    # ---- purity of the coefficient functions, of the Libor drift and of df (references from fresh interpreter processes)
    out.append({"sub": "pure"})
    # ---- euler + captured
    for sub in ("euler", "captured"):
        for level in (0, 1, 2):
            for drv in (DRIVERS_THOROUGH if thorough else DRIVERS):
                d = DRIVER_DIM[drv]
                for c in coef_specs(d):
                    if c["kind"] == "forward-helper":
                        x0s = [None]
                    else:
                        x0s = list(range(2))
                    if sub == "captured":
                        x0s = x0s[:1]
                    for x0i in x0s:
                        base = {"sub": sub, "driver": drv, "coef": c, "x0": x0i, "level": level, "tier": tier}
                        out.append(base)
            # reduced menus: pure-jump driver, re-initialised twins (levels 0 and 1 in quick), one float as the Libor curve
            for drv in (DRIVERS_REDUCED_THOROUGH if thorough else DRIVERS_REDUCED):
                if level == 2 and _reinit(drv) and not thorough:
                    continue
                for c in coef_specs_reduced(drv):
                    if sub == "captured" and _reinit(drv) and c["kind"] != "default":
                        continue
                    out.append({"sub": sub, "driver": drv, "coef": c, "x0": 0, "level": level, "tier": tier})
            out.append({"sub": sub, "driver": "hem", "coef": SCALAR_LIBOR, "x0": 0, "level": level, "tier": tier})
        if sub == "euler":
            for level in (0, 1):
                out.append({"sub": "euler", "driver": "hem", "coef": {"kind": "constant", "m": 1, "c": 2.0}, "x0": "int",
                            "level": level, "tier": tier, "max_steps": 2})
                # x0 omitted (the default 0.0, m = 1) on a 1-d and on a 2-d driver; an integer array as x0
                for drv in ("hem", "cop-hem-vg"):
                    out.append({"sub": "euler", "driver": drv, "coef": {"kind": "default", "m": 1}, "x0": "default",
                                "level": level, "tier": tier, "max_steps": 2})
                out.append({"sub": "euler", "driver": "cop-hem-vg", "coef": {"kind": "constant", "m": 2, "c": 2.0}, "x0": "int-array",
                            "level": level, "tier": tier, "max_steps": 2})
                # a numpy scalar as x0, with the state-dependent coefficient
                out.append({"sub": "euler", "driver": "hem", "coef": {"kind": "diagx", "m": 1}, "x0": "np-float",
                            "level": level, "tier": tier, "max_steps": 2})
    return out


# ----------------------------------------------------------------------------------------------------------------------
# building the real objects
# ----------------------------------------------------------------------------------------------------------------------

def _quiet():
    warnings.filterwarnings("ignore")


def make_driver(name):
    from mc import alphabets as A
    from rpylib.model.utils import create_clayton_copula, create_levy_copula_model

    base = _base(name)
    if base in DRIVER_SPECS:
        spec = DRIVER_SPECS[base]
        return A.make_model(dict(spec, via="reinit") if _reinit(name) else spec)
    if base in COPULA_MARGINS:
        return create_levy_copula_model(models=_margins(name), copula=create_clayton_copula(**COPULA_PARAMS.get(base, {})))
    raise ValueError(name)


def _margins(name):
    suffix = "@reinit" if _reinit(name) else ""
    return [make_driver(mg + suffix) for mg in COPULA_MARGINS[_base(name)]]


def make_model(drv, c, x0i):
    """-> (model, x0 as float vector (m,), info dict)"""
    from rpylib.model.levydrivensde import levydrivensde as S
    from rpylib.model.levydrivensde.levyforwardmodel import LevyForwardModel
    from rpylib.model.levydrivensde.levylibormodel import LevyLiborModel
    from rpylib.model import utils as U

    d = DRIVER_DIM[drv]
    kind, m = c["kind"], c["m"]
    if kind == "forward-helper":
        if d == 1:
            model = U.create_levy_forward_market_model(driver=make_driver(drv))
        else:
            model = U.create_levy_forward_market_model_copula(driver=_margins(drv))
        return model, np.array([0.02] * 5)
    driver = make_driver(drv)
    rates = kind not in ("default", "constant", "diagx")
    scale = c.get("sigma_scale", 1.0)
    if x0i == "default":  # x0 omitted: the constructor's default 0.0 (and with it the default coefficient function)
        return S.LevyDrivenSDEModel(driver=driver), np.array([0.0])
    if x0i == "int":
        x0_arg, x0 = 1, np.array([1.0])
    elif x0i == "np-float":  # a numpy scalar as initial value
        x0_arg, x0 = np.float64(1.5), np.array([1.5])
    elif x0i == "int-array":  # an integer numpy array as initial value
        x0_arg = np.array([1, 2, 3][:m])
        x0 = x0_arg.astype(float)
    else:
        v = _x0_menu(m, rates)[x0i]
        x0 = np.atleast_1d(np.array(v, dtype=float))
        x0_arg = float(np.ravel(v)[0]) if m == 1 else np.array(v, dtype=float)
    if kind == "default":
        model = S.LevyDrivenSDEModel(driver=driver, x0=x0_arg)
    elif kind == "constant":
        model = S.LevyDrivenSDEModel(driver=driver, x0=x0_arg, a=S.Constant(m=m, d=d, constant=c["c"]))
    elif kind == "diagx":
        model = S.LevyDrivenSDEModel(driver=driver, x0=x0_arg, a=S.DiagX(dimension=d))
    elif kind == "libor-model":
        rates_arg = float(v[0]) if c.get("scalar") else list(v)
        model = LevyLiborModel(libor_rates=rates_arg, tenors=list(c["tenors"]), sigma=_sigma(m, d, scale), driver=driver)
    elif kind == "forward-model":
        model = LevyForwardModel(ois_rates=list(v), tenors=list(c["tenors"]), sigma=_sigma(m, d, scale), driver=driver)
    elif kind == "libor-direct":
        a = S.LiborSDEFunction(sigma=_sigma(m, d, scale), tenors=np.array(c["tenors"], dtype=float))
        model = S.LevyDrivenSDEModel(driver=driver, x0=x0_arg, a=a)
    elif kind == "forward-direct":
        a = S.ForwardMarketSDEFunction(sigma=_sigma(m, d, scale), tenors=np.array(c["tenors"], dtype=float))
        model = S.LevyDrivenSDEModel(driver=driver, x0=x0_arg, a=a)
    else:
        raise ValueError(kind)
    return model, x0


def make_product(model, maturity):
    from rpylib.product import payoff as P
    from rpylib.product.product import Product
    from rpylib.product.underlying import Libors, Spot

    if hasattr(model, "deltas"):
        return Product(payoff_underlying=Libors(),
                       payoff=P.Swaption(underlying_rates=model.x0, deltas=model.deltas, strike=np.average(model.x0)),
                       maturity=maturity, notional=100.0)
    return Product(payoff_underlying=Spot(), payoff=P.Vanilla(strike=1.0, payoff_type=P.PayoffType.CALL), maturity=maturity)


def _method(d):
    from rpylib.distribution.sampling import SamplingMethod

    return SamplingMethod.BINARYSEARCHTREEADAPTED1D if d == 1 else SamplingMethod.BINARYSEARCHTREEADAPTED


def make_grid(model):
    from rpylib.grid.spatial import CTMCUniformGrid

    return CTMCUniformGrid(h=H0, model=model)


def _second_maturity(maturity):
    return 0.5 * maturity


def build_single(model, d, maturity, history="fresh", warm=None):
    """Standalone process, as the standard engine uses it. -> (process, warm-up errors)

    history   "fresh":  built, initialised and pre-computed once;
              "reused": a second Engine.price on one standard engine, with another product - the process has simulated a
                        path (warm(proc, 0)), its simulation cost was read and reset, then initialisation() and
                        pre_computation() are called again with a product of ANOTHER maturity; the object handed over is a
                        copy.deepcopy of that process (what the pool branch of the engine simulates on).
    """
    import copy

    from rpylib.model.levydrivensde.levylibormodel import LevyLiborModel
    from rpylib.process.markovchain.markovchainsde import MarkovChainLevyLiborModel, MarkovChainSDE

    cls = MarkovChainLevyLiborModel if isinstance(model, LevyLiborModel) else MarkovChainSDE
    proc = cls(model=model, method=_method(d), grid=make_grid(model))
    product = make_product(model, maturity)
    product.update(proc.process_representation)
    proc.initialisation(product)
    proc.pre_computation(1, product)
    errors = []
    if history == "reused":
        try:
            warm(proc, 0)
            proc.one_simulation_cost(product)
        except Exception as e:  # reported by the "fresh" object of the same configuration
            errors.append(f"single: {type(e).__name__}")
        proc.reset_one_simulation_cost()
        product_b = make_product(model, _second_maturity(maturity))
        product_b.update(proc.process_representation)
        proc.initialisation(product_b)
        proc.pre_computation(2, product_b)
        proc = copy.deepcopy(proc)
    return proc, errors


HISTORIES = ["fast-forward", "same-object", "deepcopy", "reprice"]
HISTORY_NAME = {"fast-forward": "coupled", "same-object": "coupled-hist", "deepcopy": "coupled-hist-copy",
                "reprice": "coupled-reprice"}
SHORT_HISTORIES = ("single-reused", "coupling-l0-reused", "coupled-reprice")  # objects that run the words of length <= 2


def build_coupling(model, d, level, maturity, history="fast-forward", warm=None):
    """CouplingSDE taken to `level` the way the multilevel engine does. -> (coupling, path managers, warm-up errors)

    history   "fast-forward": next_level() `level` times on a fresh object, nothing simulated in between;
              "same-object":  Engine.price_with_constant_mc_paths_and_level - one object; at every level pre_computation, one
                              path simulated (warm(cp, lvl)), then next_level();
              "deepcopy":     Engine.price - the level l-1 object simulates, is deep-copied, and next_level() is called on the
                              copy;
              "reprice":      a second Engine.price on one multilevel engine, with another product: the engine's coupling
                              object is initialised and pre-computed, a deep copy of it goes through the "deepcopy" history
                              up to `level` (simulating at every level, `level` included, and reading the simulation cost);
                              then the SAME engine object is initialised and pre-computed with a product of another
                              maturity, a new list of path managers is started, and a new deep copy goes through the
                              "deepcopy" history again.  At level 0 this is the object "coupling-l0-reused".
    """
    import copy

    from rpylib.montecarlo.path import MLMCPath
    from rpylib.process.coupling.couplingsde import CouplingSDE

    cp = CouplingSDE(model=model, method=_method(d), grid=make_grid(model))
    product = make_product(model, maturity)
    product.update(cp.fine_process.process_representation)
    cp.initialisation(product)
    pms = [MLMCPath(deterministic_path=cp.fine_process.deterministic_path, activate_spot_underlying=False)]
    cp.pre_computation(1, product)
    errors = []

    def climb(cp, pms, product, hist, simulate_at_top):
        for lvl in range(level + 1):
            if hist != "fast-forward" and (lvl < level or simulate_at_top):
                cp.reset_one_simulation_cost()
                cp.pre_computation(mc_paths=1, product=product)
                try:
                    warm(cp, lvl)
                    cp.one_simulation_cost(product=product)
                except Exception as e:  # reported by the configuration of that level, not by this one
                    errors.append(f"level {lvl}: {type(e).__name__}")
            if lvl == level:
                break
            if hist == "deepcopy":
                cp = copy.deepcopy(cp)
            cp.next_level(1, pms, product=product)
        if hist != "fast-forward":
            cp.reset_one_simulation_cost()
            cp.pre_computation(mc_paths=1, product=product)
        return cp

    if history == "reprice":
        climb(copy.deepcopy(cp), pms, product, "deepcopy", True)
        product = make_product(model, _second_maturity(maturity))
        product.update(cp.fine_process.process_representation)
        cp.initialisation(product)
        pms = [MLMCPath(deterministic_path=cp.fine_process.deterministic_path, activate_spot_underlying=False)]
        cp.pre_computation(1, product)
        cp = climb(copy.deepcopy(cp), pms, product, "deepcopy", False)
    else:
        cp = climb(cp, pms, product, history, False)
    return cp, pms, errors


def seam_of(cp, lvl):
    """(owner, attribute, simulate) of the driver seam of a CouplingSDE standing at level lvl, or of a standalone process."""
    if not hasattr(cp, "fine_process"):
        return cp.markov_chain, "simulate_one_path", cp.simulate_one_path
    if lvl == 0:
        return cp.fine_process.markov_chain, "simulate_one_path", cp.simulate_one_path
    return cp.driver_coupling_process, "simulate_one_path_with_coupling", cp.simulate_one_path_with_coupling


def scripted_warm(d, tier):
    """Warm-up for the euler sub-check: one scripted two-step word is simulated at the intermediate level, then the seam is
    removed again so that the object (and its deep copy) is the library's own."""

    def warm(cp, lvl):
        letters = _letters(d, lvl > 0, tier)
        path = scripted_path([letters[1], letters[6]], lvl > 0, d)
        owner, attr, simulate = seam_of(cp, lvl)
        setattr(owner, attr, lambda _p=path: _p)
        try:
            simulate()
        finally:
            delattr(owner, attr)

    return warm


def real_warm(cp, lvl):
    """Warm-up for the captured sub-check: the real driver simulates one path (under the scripted generator)."""
    seam_of(cp, lvl)[2]()


_DRIFT_CACHE = {}


def reference_drift(drv, level):
    """Drift (d,) of a freshly built driver chain on a freshly built grid refined `level` times.  A "reinit" twin is compared
    with the drift of the DIRECTLY constructed driver: the twin has the same parameter values."""
    drv = _base(drv)
    key = (drv, level)
    if key not in _DRIFT_CACHE:
        from rpylib.model.levydrivensde.levydrivensde import LevyDrivenSDEModel
        from rpylib.process.markovchain.markovchain import MarkovChainProcess
        from rpylib.process.markovchain.markovchainlevycopula import MarkovChainLevyCopula

        d = DRIVER_DIM[drv]
        driver = make_driver(drv)
        model = LevyDrivenSDEModel(driver=driver, x0=0.0 if d == 1 else np.zeros(d))
        grid = make_grid(model)
        for _ in range(level):
            grid.refine()
        if d == 1:
            chain = MarkovChainProcess(model=driver, method=_method(d), grid=grid)
        else:
            chain = MarkovChainLevyCopula(levy_copula_model=driver, grid=grid, method=_method(d))
        chain.initialisation(product=make_product(model, 1.0), max_step_epsilon=1.0)
        _DRIFT_CACHE[key] = np.array(chain.process_drift(), dtype=float).reshape(d)
    return _DRIFT_CACHE[key]


# ----------------------------------------------------------------------------------------------------------------------
# scripted randomness
# ----------------------------------------------------------------------------------------------------------------------

_RNG_NAMES = ["uniform", "random_sample", "random", "normal", "poisson", "choice", "rand", "randn", "standard_normal",
              "exponential", "randint", "seed"]


@contextlib.contextmanager
def forbidden_rng():
    """No random variate may be drawn: the driver path is scripted."""
    import numpy.random as npr

    def make(name):
        def f(*a, **k):
            raise AssertionError(f"numpy.random.{name} called although the driver path is scripted")
        return f

    saved = {n: getattr(npr, n) for n in _RNG_NAMES}
    try:
        for n in _RNG_NAMES:
            if n != "seed":
                setattr(npr, n, make(n))
        yield
    finally:
        for n, f in saved.items():
            setattr(npr, n, f)


class ScriptedRNG:
    """Deterministic replacement of the numpy.random functions the library calls."""

    POISSON = [0, 1, 3, 6, 2, 4]
    NORMAL = [0.5, -1.0, 1.5, -0.25, 0.0]
    PHI = 0.6180339887498949

    def __init__(self):
        self.ku = 0
        self.kn = 0
        self.kp = 0

    def _u(self, n):
        k = np.arange(self.ku + 1, self.ku + n + 1, dtype=float)
        self.ku += n
        return (k * self.PHI) % 1.0

    @staticmethod
    def _shape(size):
        if size is None:
            return None, 1
        shp = (size,) if np.isscalar(size) else tuple(size)
        return shp, int(np.prod(shp)) if shp else 1

    def uniform(self, low=0.0, high=1.0, size=None):
        shp, n = self._shape(size)
        u = low + (high - low) * self._u(n)
        return float(u[0]) if shp is None else u.reshape(shp)

    def random_sample(self, size=None):
        return self.uniform(0.0, 1.0, size)

    def normal(self, loc=0.0, scale=1.0, size=None):
        shp, n = self._shape(size)
        z = np.array([self.NORMAL[(self.kn + i) % len(self.NORMAL)] for i in range(n)], dtype=float)
        self.kn += n
        z = loc + scale * z
        return float(z[0]) if shp is None else z.reshape(shp)

    def poisson(self, lam=1.0, size=None):
        shp, n = self._shape(size)
        v = np.array([self.POISSON[(self.kp + i) % len(self.POISSON)] for i in range(n)], dtype=int)
        self.kp += n
        return int(v[0]) if shp is None else v.reshape(shp)

    def choice(self, a, *args, **kw):
        return list(a)[0] if not np.isscalar(a) else 0

    @contextlib.contextmanager
    def active(self):
        import numpy.random as npr

        repl = {"uniform": self.uniform, "random_sample": self.random_sample, "random": self.random_sample,
                "normal": self.normal, "poisson": self.poisson, "choice": self.choice}
        saved = {n: getattr(npr, n) for n in repl}
        try:
            for n, f in repl.items():
                setattr(npr, n, f)
            yield self
        finally:
            for n, f in saved.items():
                setattr(npr, n, f)


# ----------------------------------------------------------------------------------------------------------------------
# oracle
# ----------------------------------------------------------------------------------------------------------------------

def a_reference(c, d, model):
    """-> function (t, x (m,)) -> matrix (m,d).  Constant and DiagX are written out; the rate functions are the model's own."""
    kind, m = c["kind"], c["m"]
    if kind == "default":
        mat = np.ones((m, d))
        return lambda t, x: mat
    if kind == "constant":
        mat = np.full((m, d), float(c["c"]))
        return lambda t, x: mat
    if kind == "diagx":
        return lambda t, x: np.diag(x)
    fun = model.a

    def own(t, x):
        r = np.asarray(fun(t, x.reshape(m, 1)), dtype=float)
        if r.shape != (m, d):
            raise ValueError(f"coefficient function returned shape {r.shape} for a column state, expected {(m, d)}")
        return r

    return own


def sde_reference(model, proc):
    """-> function (t, x (m,)) -> (m,): zero unless the process has its own drift (Libor model)."""
    from rpylib.model.levydrivensde.levylibormodel import LevyLiborModel

    m = model.dimension()
    if isinstance(model, LevyLiborModel):
        return lambda t, x: np.asarray(proc.sde_drift(t, x.reshape(m, 1).copy()), dtype=float).reshape(m)
    zero = np.zeros(m)
    return lambda t, x: zero


def euler_reference(x0, times, W, L, mu, a_fun, sde_fun):
    """Explicit recursion. W, L: (d, n+1) cumulative; mu: (d,). -> X (m, n+1)"""
    n = times.size - 1
    X = np.empty((x0.size, n + 1))
    X[:, 0] = x0
    x = x0.astype(float).copy()
    for i in range(n):
        t = times[i]  # numpy scalar, exactly what the schemes hand to a(t, x)
        dt = times[i + 1] - times[i]
        A = a_fun(t, x.copy())
        dY = (W[:, i + 1] - W[:, i]) + (L[:, i + 1] - L[:, i])
        x = x + (sde_fun(t, x.copy()) + A @ mu) * dt + A @ dY
        X[:, i + 1] = x
    return X


def closed_form(c, d, x0, times, W, L, mu):
    """Constant: x0 + a Y_t;  DiagX: x0 * prod(1 + dY).  None for the other functions."""
    kind, m = c["kind"], c["m"]
    Y = mu[:, None] * times[None, :] + W + L  # (d, n+1)
    if kind in ("default", "constant"):
        mat = np.ones((m, d)) if kind == "default" else np.full((m, d), float(c["c"]))
        return x0[:, None] + mat @ Y
    if kind == "diagx":
        dY = np.diff(Y, axis=1)
        fac = np.concatenate((np.ones((d, 1)), np.cumprod(1.0 + dY, axis=1)), axis=1)
        return x0[:, None] * fac
    return None


def _first_bad(obs, ref, scale):
    bad = ~(np.abs(obs - ref) <= RTOL * scale)  # nan -> bad
    if not bad.any():
        return None
    idx = np.argwhere(bad)[0]
    return tuple(int(v) for v in idx)


def time_class(c, times):
    """Where the step starting times lie with respect to the first tenor (only for the tenor-based functions)."""
    if "tenors" not in c:
        return "no-tenors"
    return "t>=first-tenor" if float(np.max(times[:-1])) >= c["tenors"][0] else "t<first-tenor"


def _as2d(arr, d):
    """Driver component array -> (d, n)."""
    arr = np.asarray(arr, dtype=float)
    return arr.reshape(d, -1) if arr.ndim == 1 else arr


def is_heavy(case):
    """The Libor model on a copula driver: every initialisation costs a double quadrature (2 s).  These configurations keep
    the histories they had (fresh / fast-forward, same-object, deepcopy) and get neither the re-priced objects nor a second
    object of the same classes (the 1-d drivers cover both for the same classes)."""
    return DRIVER_DIM[case["driver"]] == 2 and case["coef"]["kind"] == "libor-model"


def x0_class(x0i):
    return {"int": "x0=int", "int-array": "x0=int", "default": "x0=default", "np-float": "x0=numpy-scalar"}.get(x0i, "x0=float")


class Config:
    """One configuration with its real objects and its oracle pieces."""

    def __init__(self, case, maturity=3.0, warm=None, second=False):
        """second=True: the configuration of the second object of the same classes (other_case): the standalone process /
        the fast-forward coupling only, names prefixed with 'other-'."""
        _quiet()
        self.case = case
        self.drv = case["driver"]
        self.d = DRIVER_DIM[self.drv]
        self.c = case["coef"]
        self.level = case["level"]
        self.label = coef_label(self.c, self.d)
        self.x0cls = x0_class(case["x0"])
        self.drvcls = f"driver-d={self.d}" + ("-reinit" if _reinit(self.drv) else "")
        self.model, self.x0 = make_model(self.drv, self.c, case["x0"])
        self.m = self.x0.size
        self.objects = []  # (name, obj, simulate, seam owner, seam attribute, deterministic path, sde owner)
        self.warmup_errors = []
        pre = "other-" if second else ""
        light = second or is_heavy(case)
        if self.level == 0:
            for history in (["fresh"] if light else ["fresh", "reused"]):
                model_h, _ = make_model(self.drv, self.c, case["x0"])
                if history == "fresh":
                    self.model = model_h
                proc, errs = build_single(model_h, self.d, maturity, history=history, warm=warm)
                self.warmup_errors += errs
                self.objects.append((pre + ("single" if history == "fresh" else "single-reused"), proc, proc.simulate_one_path,
                                     proc.markov_chain, "simulate_one_path", proc.deterministic_path, proc))
            for history in (["fast-forward"] if light else ["fast-forward", "reprice"]):
                model_h, _ = make_model(self.drv, self.c, case["x0"])
                cp, pms, errs = build_coupling(model_h, self.d, 0, maturity, history=history, warm=warm)
                self.warmup_errors += errs
                self.objects.append((pre + ("coupling-l0" if history == "fast-forward" else "coupling-l0-reused"), cp,
                                     cp.simulate_one_path, cp.fine_process.markov_chain, "simulate_one_path",
                                     pms[0].deterministic_path, cp.fine_process))
            self.mus = [reference_drift(self.drv, 0)]
        else:
            for history in (["fast-forward"] if second else HISTORIES[:3] if light else HISTORIES):
                model_h, _ = make_model(self.drv, self.c, case["x0"])
                if history == "fast-forward":
                    self.model = model_h
                cp, pms, errs = build_coupling(model_h, self.d, self.level, maturity, history=history, warm=warm)
                self.warmup_errors += errs
                self.objects.append((pre + HISTORY_NAME[history], cp, cp.simulate_one_path_with_coupling,
                                     cp.driver_coupling_process, "simulate_one_path_with_coupling", pms[-1].deterministic_path,
                                     cp.fine_process))
            self.mus = [reference_drift(self.drv, self.level), reference_drift(self.drv, self.level - 1)]
        self.coupled = self.level > 0

    def key(self, name, comp, failure, tcls, inc=""):
        comp = f":{comp}" if comp else ""
        return f"C16:euler:{name}{comp}:{self.label}:{failure}:{self.drvcls}:{tcls}:{self.x0cls}{inc}"

    def compare(self, sh, name, obj_model, sde_owner, det_path, sde_path, drv_times, drv_W, drv_L, what):
        """Evaluate the oracle for one returned SDE path against the driver path (arrays as handed over by the driver)."""
        d, m = self.d, self.m
        times = np.asarray(drv_times, dtype=float)
        tcls = time_class(self.c, times)
        sh.cls(f"time:{tcls}")
        rt = np.asarray(sde_path.times(), dtype=float)
        if rt.shape != times.shape or not np.array_equal(rt, times):
            sh.violation(self.key(name, "", "times-differ", tcls), f"{what}: returned times {rt.tolist()} != driver times {times.tolist()}", None)
            return False
        try:
            sol = np.asarray(det_path(times) + sde_path.value(), dtype=float)
        except ValueError as e:  # the components of the returned path do not have the length of its times
            sh.violation(self.key(name, "", "solution-shape-differs", tcls), f"{what}: deterministic path + returned value raises {e!r} "
                         f"for {times.size} times", None)
            return False
        comps = [("fine", 0), ("coarse", 1)] if self.coupled else [("", None)]
        expected_shape = ((2, m, times.size) if self.coupled else (m, times.size))
        if sol.shape != expected_shape:
            sh.violation(self.key(name, "", "solution-shape-differs", tcls), f"{what}: solution has shape {sol.shape}, expected {expected_shape}", None)
            return False
        a_fun = a_reference(self.c, d, obj_model)
        sde_fun = sde_reference(obj_model, sde_owner)
        ok = True
        for (comp, ci), mu in zip(comps, self.mus):
            W = _as2d(drv_W if ci is None else drv_W[ci], d)
            L = _as2d(drv_L if ci is None else drv_L[ci], d)
            obs = sol if ci is None else sol[ci]
            sh.count("evaluations")
            icls = increment_classes(np.diff(mu[:, None] * times[None, :] + W + L, axis=1))
            for k_ in sorted(icls):
                sh.cls(f"increment:{k_}:{'coupled' if self.coupled else 'single'}:{self.label}")
            # a path with a step at or below -100 % gets its own input class (the older keys are unchanged)
            inc = ":dY<=-1" if icls & {"below-100%", "exactly-100%"} else ""
            try:
                ref = euler_reference(self.x0, times, W, L, mu, a_fun, sde_fun)
            except Exception as e:  # the model's own coefficient function fails on the oracle's state
                sh.violation(self.key(name, comp, f"coefficient-raises-in-oracle-{type(e).__name__}", tcls),
                             f"{what}: the scheme returned but a(t,x) evaluated on a column state raises {e!r}", None)
                ok = False
                continue
            scale = max(1e-3, float(np.max(np.abs(ref))))
            bad = _first_bad(obs, ref, scale)
            if bad is not None:
                i = bad[-1]
                sh.violation(self.key(name, comp, "step-differs", tcls, inc),
                             f"{what}: solution at time index {i} (t={times[i]}) is {obs[:, i].tolist()}, Euler recursion gives {ref[:, i].tolist()}",
                             {"times": times, "W": W, "L": L, "mu": mu, "x0": self.x0, "observed": obs, "euler": ref})
                ok = False
            cf = closed_form(self.c, d, self.x0, times, W, L, mu)
            if cf is not None:
                sh.count("evaluations")
                scale = max(1e-3, float(np.max(np.abs(cf))))
                bad = _first_bad(obs, cf, scale)
                if bad is not None:
                    i = bad[-1]
                    sh.violation(self.key(name, comp, "closed-form-differs", tcls, inc),
                                 f"{what}: solution at time index {i} is {obs[:, i].tolist()}, closed form gives {cf[:, i].tolist()}",
                                 {"times": times, "W": W, "L": L, "mu": mu, "x0": self.x0, "observed": obs, "closed": cf})
                    ok = False
        return ok


def scripted_path(word, coupled, d):
    """word = list of letters (dt, dL, dW) with dL, dW of the layout's prefix shape -> StochasticJumpPath"""
    from rpylib.montecarlo.path import StochasticJumpPath

    times = np.concatenate(([0.0], np.cumsum([w[0] for w in word])))
    dL = np.stack([w[1] for w in word], axis=-1)
    dW = np.stack([w[2] for w in word], axis=-1)
    zero = np.zeros(dL.shape[:-1] + (1,))
    L = np.concatenate((zero, np.cumsum(dL, axis=-1)), axis=-1)
    W = np.concatenate((zero, np.cumsum(dW, axis=-1)), axis=-1)
    return StochasticJumpPath(times, W, L)


def expected_layout(coupled, d, n):
    pre = ((2,) if coupled else ()) + ((d,) if d > 1 else ())
    return pre + (n,)


# ----------------------------------------------------------------------------------------------------------------------
# sub-checks
# ----------------------------------------------------------------------------------------------------------------------

def check_case(sh, case):
    _quiet()
    {"euler": _sub_euler, "captured": _sub_captured, "df": _sub_df, "pure": _sub_pure}[case["sub"]](sh, case)


def _build(sh, case, maturity, warm=None, second=False):
    """Build the configuration; a failure to build the real objects is reported (the constructors are part of the way users
    reach the scheme)."""
    d = DRIVER_DIM[case["driver"]]
    label = coef_label(case["coef"], d)
    x0cls = x0_class(case["x0"])
    try:
        cfg = Config(case, maturity, warm, second=second)
        if cfg.warmup_errors:
            sh.count("warmup_simulations_that_raised", len(cfg.warmup_errors))
        return cfg
    except Exception as e:
        proc = ("other-" if second else "") + ("single" if case["level"] == 0 else "coupled")
        drvcls = f"driver-d={d}" + ("-reinit" if _reinit(case["driver"]) else "")
        sh.violation(f"C16:euler:{proc}:{label}:construction-raises-{type(e).__name__}:{drvcls}:level={case['level']}:{x0cls}",
                     f"building the process for {label} on driver {case['driver']} at level {case['level']} raises {e!r}", None)
        return None


def _run_words(sh, cfg, case, letters, words, tag=""):
    """Run the scripted words (tuples of letter indices), in order, on every object of the configuration and evaluate the oracle.
    -> (number of words, number of fully agreeing (word, object) pairs, last agreeing path).  A violation carries the words
    that lead to it (`only_words`): the word itself, preceded by the last word of the preceding phase when the phase is a
    history (tag)."""
    n_ok = 0
    n_words = 0
    last = None
    previous = case.get("_previous_word")
    for idx in words:
        word = [letters[i] for i in idx]
        n_words += 1
        history = ([list(previous)] if previous is not None and tag else []) + [list(idx)]
        sh.case = dict({k: v for k, v in case.items() if not k.startswith("_")}, only_words=history)
        for (name, obj, simulate, seam_owner, seam_attr, det_path, sde_owner) in cfg.objects:
            if len(idx) > 2 and name in SHORT_HISTORIES:
                continue  # the re-used / re-priced objects run the words of length <= 2
            if len(idx) > 2 and name in ("coupled-hist", "coupled-hist-copy") and case["tier"] == "thorough":
                continue  # thorough: the two history variants run the words of length <= 2 (756 of them)
            path = scripted_path(word, cfg.coupled, cfg.d)
            keep = (path.jump_times.copy(), path.diffusion_path.copy(), path.jump_path.copy())
            calls = []

            def scripted(_p=path, _c=calls):
                _c.append(1)
                return _p

            setattr(seam_owner, seam_attr, scripted)
            what = f"{name} level {cfg.level}, driver {cfg.drv}, word {list(idx)}{tag}"
            tcls = time_class(cfg.c, keep[0])
            try:
                res = simulate()
            except Exception as e:
                sh.count("evaluations")
                sh.violation(cfg.key(name, "", f"raises-{type(e).__name__}", tcls), f"{what}: simulate raises {e!r}",
                             {"times": keep[0], "W": keep[1], "L": keep[2]})
                continue
            if len(calls) != 1:
                sh.violation(cfg.key(name, "", "driver-path-not-consumed-exactly-once", tcls), f"{what}: {len(calls)} driver paths requested", None)
            obj_model = obj.model
            if cfg.compare(sh, name, obj_model, sde_owner, det_path, res, *keep, what):
                n_ok += 1
                last = res
    return n_words, n_ok, last


def _sub_euler(sh, case):
    d = DRIVER_DIM[case["driver"]]
    tier = case["tier"]
    with forbidden_rng():
        # the second object of the same classes (other parameters) is built FIRST and simulates FIRST: state kept at class or
        # module level by whoever comes first then shows on the objects of the case, and the other way round when such state
        # was left by an earlier case of this worker process (the second object is compared with its own oracle as well)
        ocase = other_case(case)
        other = None if is_heavy(case) else _build(sh, ocase, maturity=3.0, warm=scripted_warm(d, tier), second=True)
        cfg = _build(sh, case, maturity=3.0, warm=scripted_warm(d, tier))
        if cfg is None:
            return
        sh.cls(f"coef:{cfg.label}")
        sh.cls(f"driver:{cfg.drv}")
        sh.cls(f"level:{cfg.level}")
        letters = _letters(cfg.d, cfg.coupled, tier)
        nl = len(letters)
        # the extreme letters follow the ordinary ones in the list (indices nl, nl+1, ...): a word is a tuple of indices
        ext = _extreme_letters(cfg.d, cfg.coupled, tier, cfg.mus)
        letters = letters + ext
        mixed = list(range(nl, nl + len(ext))) + ([1, 6] if tier == "thorough" else [1])
        max_steps = case.get("max_steps", 3)
        extreme = [w for n in range(1, max_steps + 1) for w in itertools.product(mixed, repeat=n) if max(w) >= nl]
        if "tenors" not in cfg.c:  # ONE long path (times beyond any tenor): every letter but the 'exact' one, twice, then that one
            extreme.append(tuple(i for i in range(nl + len(ext)) if i != nl + 1) * 2 + (nl + 1, 1))
        ones = [(i,) for i in range(nl)]
        other_words = ones + [(1, 6), (6, 1), (4, 4), (3, 5), (nl,), (nl + 1, nl + 3)]
        n_ok = n_words = n_other = 0
        last = None
        if case.get("only_words") is not None or case.get("only_word") is not None:  # replay of the words of one violation
            words = [tuple(w) for w in case["only_words"]] if case.get("only_words") is not None else [tuple(case["only_word"])]
            phases = [("other", other_words, ""), ("main", words, "")]  # the second object still comes first
        else:
            longer = list(itertools.chain.from_iterable(itertools.product(range(nl), repeat=n) for n in range(2, max_steps + 1)))
            phases = [("other", other_words, ""), ("main", ones, ""), ("other", other_words, " (after the objects of the case)"),
                      ("main", longer, ""),
                      # increments below, at and near -100 %, and large ones, mixed with an ordinary letter
                      ("main", extreme, ""),
                      # a SHORTER path after the longest ones, on the same objects
                      ("main", ones, " (again, after the longest words)")]
        previous = None
        for who, words, tag in phases:
            if who == "other":
                if other is not None:
                    n_other += _run_words(sh, other, dict(ocase, _previous_word=None), letters, words, tag)[0]
                continue
            a, b, c = _run_words(sh, cfg, dict(case, _previous_word=previous), letters, words, tag)
            n_words += a
            n_ok += b
            last = c if c is not None else last
            previous = words[-1] if words else previous
        sh.case = case
        sh.count("words", n_words)
        sh.count("words_on_second_object", n_other)
        sh.nontriv()
        fin = None if last is None else np.round(np.asarray(last.value())[..., -1], 9).tolist()
        sh.outcome((cfg.drv, cfg.label, case["x0"], cfg.level, n_ok, fin))
        if case["x0"] in (0, None) and last is not None and cfg.drv not in ("cgmy12", "cgmy12@reinit"):
            sh.sample({"sub": "euler", "driver": cfg.drv, "coef": cfg.label, "level": cfg.level, "words": n_words,
                       "objects": [o[0] for o in cfg.objects], "second_object": None if other is None else
                       {"driver": other.drv, "coef": other.c, "objects": [o[0] for o in other.objects]},
                       "driver_drifts": [mu.tolist() for mu in cfg.mus],
                       "last_word_final_value_minus_x0": fin})


def _sub_captured(sh, case):
    rng = ScriptedRNG()
    d = DRIVER_DIM[case["driver"]]
    c = case["coef"]
    # maturity as users choose it: the first tenor for the rate models; 2.5 for the direct Libor function so that steps start
    # beyond the first tenor as well; 1.0 otherwise
    maturity = float(c["tenors"][0]) if "tenors" in c else 1.0
    if c["kind"] == "libor-direct":
        maturity = 2.5
    with rng.active():
        cfg = _build(sh, case, maturity, warm=real_warm)
        if cfg is None:
            return
        sh.cls(f"captured:{cfg.label}:level={cfg.level}")
        n_ok = 0
        sizes = []
        for k in range(6):
            for (name, obj, simulate, seam_owner, seam_attr, det_path, sde_owner) in cfg.objects:
                orig = getattr(seam_owner, seam_attr)
                got = []

                def wrapper(_o=orig, _g=got):
                    p = _o()
                    _g.append((np.array(p.jump_times, dtype=float), np.array(p.diffusion_path, dtype=float),
                               np.array(p.jump_path, dtype=float)))
                    return p

                setattr(seam_owner, seam_attr, wrapper)
                what = f"{name} level {cfg.level}, driver {cfg.drv}, captured path {k}"
                try:
                    res = simulate()
                except Exception as e:
                    sh.count("evaluations")
                    tcls = time_class(cfg.c, got[0][0]) if got and got[0][0].size > 1 else "no-path"
                    sh.violation(cfg.key(name, "", f"raises-{type(e).__name__}", tcls) + ":captured", f"{what}: simulate raises {e!r}", None)
                    continue
                finally:
                    setattr(seam_owner, seam_attr, orig)
                if len(got) != 1:
                    sh.violation(cfg.key(name, "", "driver-path-not-consumed-exactly-once", "any") + ":captured",
                                 f"{what}: {len(got)} driver paths requested", None)
                    continue
                times, W, L = got[0]
                lay = expected_layout(cfg.coupled, cfg.d, times.size)
                if times.ndim != 1 or W.shape != lay or L.shape != lay:
                    sh.violation(f"C16:conformance:{name}:driver-path-layout-differs-from-scripted-words:driver-d={cfg.d}",
                                 f"{what}: real driver path has times {times.shape}, diffusion {W.shape}, jumps {L.shape}; the scripted "
                                 f"words use {lay}", None)
                    continue
                sizes.append(int(times.size))
                if cfg.compare(sh, name, obj.model, sde_owner, det_path, res, times, W, L, what):
                    n_ok += 1
        sh.nontriv()
        sh.count("captured_paths", len(sizes))
        sh.outcome((cfg.drv, cfg.label, cfg.m, cfg.level, n_ok, sizes))
        if cfg.drv == "hem":
            sh.sample({"sub": "captured", "driver": cfg.drv, "coef": cfg.label, "level": cfg.level, "path_lengths": sizes, "ok": n_ok})


# -------------------------------------------------------------------------------------------------------------- pure

PURE_T = [0.0, 0.5, 0.75, 1.0, 1.5, 1.75, 2.0, 2.5, 3.0, 3.25, 3.5, 4.0]
PURE_ARGS = {
    "main": {"tenors": [1, 2, 3, 4], "scale": 1.0, "rates": [0.01, 0.03, 0.02], "driver": "hem"},
    "other": {"tenors": [0.75, 1.75, 3.25, 4.0], "scale": 0.6, "rates": [0.03, 0.005, 0.04], "driver": "hem-b"},
}
PURE_X = [[[0.02], [0.02], [0.02]], [[0.01], [0.03], [0.02]]]
PURE_WHATS = ["LiborSDEFunction:direct", "ForwardMarketSDEFunction:direct", "LiborSDEFunction:LevyLiborModel",
              "ForwardMarketSDEFunction:LevyForwardModel", "sde_drift:MarkovChainLevyLiborModel", "df:LevyLiborModel", "df:LevyForwardModel"]


def _pure_objects(which):
    """The objects of one argument set ("main" | "other"): what -> (owner object, function owner -> callable (t, x), states x).
    Within one argument set every object of a class has the same parameters (the reference process is one consistent world)."""
    from rpylib.model.levydrivensde import levydrivensde as S
    from rpylib.model.levydrivensde.levyforwardmodel import LevyForwardModel
    from rpylib.model.levydrivensde.levylibormodel import LevyLiborModel

    _quiet()
    arg = PURE_ARGS[which]
    m, d = 3, 1
    tenors, rates = arg["tenors"], arg["rates"]
    cols = [np.array(x, dtype=float) for x in PURE_X]
    states = cols + [np.stack(cols)]  # the column of the single scheme, the (fine, coarse) stack of the coupled scheme
    libor = LevyLiborModel(libor_rates=list(rates), tenors=list(tenors), sigma=_sigma(m, d, arg["scale"]), driver=make_driver(arg["driver"]))
    forward = LevyForwardModel(ois_rates=list(rates), tenors=list(tenors), sigma=_sigma(m, d, arg["scale"]), driver=make_driver(arg["driver"]))
    proc, _ = build_single(libor, d, float(tenors[0]))
    same = lambda o: o  # noqa: E731
    return {
        "LiborSDEFunction:direct": (S.LiborSDEFunction(sigma=_sigma(m, d, arg["scale"]), tenors=np.array(tenors, dtype=float)), same, states),
        "ForwardMarketSDEFunction:direct": (S.ForwardMarketSDEFunction(sigma=_sigma(m, d, arg["scale"]), tenors=np.array(tenors, dtype=float)), same, states),
        "LiborSDEFunction:LevyLiborModel": (libor, lambda o: o.a, states),
        "ForwardMarketSDEFunction:LevyForwardModel": (forward, lambda o: o.a, states),
        "sde_drift:MarkovChainLevyLiborModel": (proc, lambda o: o.sde_drift, cols),
        "df:LevyLiborModel": (libor, lambda o: (lambda t, x: o.df(t)), [None]),
        "df:LevyForwardModel": (forward, lambda o: (lambda t, x: o.df(t)), [None]),
    }


def _pure_eval(entry, descending=False):
    """Values on PURE_T x states, in ascending time order whatever the order of evaluation. -> nested lists"""
    owner, get, states = entry
    f = get(owner)
    order = list(reversed(range(len(PURE_T)))) if descending else list(range(len(PURE_T)))
    out = [None] * len(PURE_T)
    for i in order:
        out[i] = [np.asarray(f(PURE_T[i], None if x is None else x.copy()), dtype=float).tolist() for x in states]
    return out


def _pure_reference_main(which):
    """Entry point of the fresh interpreter process: prints the table of one argument set."""
    import json

    objs = _pure_objects(which)
    print("@@" + json.dumps({w: _pure_eval(objs[w]) for w in PURE_WHATS}))


def _pure_reference(which):
    import json
    import subprocess
    import sys

    import os

    code = "import sys; from checks import c16_sde as M; M._pure_reference_main(sys.argv[1])"
    env = dict(os.environ, PYTHONPATH=os.pathsep.join(q for q in sys.path if q))  # the same import path: the same tree
    r = subprocess.run([sys.executable, "-c", code, which], capture_output=True, text=True, timeout=900, env=env)
    lines = [ln for ln in r.stdout.splitlines() if ln.startswith("@@")]
    if r.returncode != 0 or len(lines) != 1:
        raise RuntimeError(f"reference process for '{which}' failed (exit {r.returncode}): {r.stderr[-400:]}")
    return json.loads(lines[0][2:])


def _same_table(a, b):
    if len(a) != len(b):
        return None, False
    for i, (ra, rb) in enumerate(zip(a, b)):
        for xa, xb in zip(ra, rb):
            xa, xb = np.asarray(xa, dtype=float), np.asarray(xb, dtype=float)
            if xa.shape != xb.shape or not np.allclose(xa, xb, rtol=1e-12, atol=0.0, equal_nan=False):
                return i, False
    return None, True


def _sub_pure(sh, case):
    """a(t, x), the Libor drift and df(t) are FUNCTIONS: their value depends on the arguments and on what the object was
    constructed with, not on what other objects of the class exist or on what was evaluated before.  Reference = the library
    itself in a fresh interpreter process that builds one argument set only and evaluates in ascending time order."""
    import copy

    with forbidden_rng():
        others = _pure_objects("other")  # built first
        mains = _pure_objects("main")
        try:
            ref = {"main": _pure_reference("main"), "other": _pure_reference("other")}
        except Exception as e:  # no reference: nothing is compared (a cap, never an alarm); raising evaluations still show
            sh.cap(f"pure: the fresh interpreter process gave no reference table, nothing compared: {e}")
            ref = None
        steps = [
            ("second-object-read-first", "other", lambda w: _pure_eval(others[w])),
            ("after-second-object:descending-times", "main", lambda w: _pure_eval(mains[w], descending=True)),
            ("read-again", "main", lambda w: _pure_eval(mains[w])),
            ("deepcopy", "main", lambda w: _pure_eval((copy.deepcopy(mains[w][0]),) + mains[w][1:])),
            ("fresh-twin", "main", None),
            ("second-object-read-again:descending-times", "other", lambda w: _pure_eval(others[w], descending=True)),
        ]
        n_ok = 0
        for step, which, run in steps:
            if run is None:
                twins = _pure_objects("main")
                run = lambda w, _t=twins: _pure_eval(_t[w])  # noqa: E731
            for w in PURE_WHATS:
                sh.count("evaluations", len(PURE_T))
                sh.cls(f"pure:{w}")
                try:
                    got = run(w)
                except Exception as e:
                    sh.violation(f"C16:pure:{w}:raises-{type(e).__name__}:{step}", f"{w} ({which} arguments), step {step}: raises {e!r}", None)
                    continue
                if ref is None:
                    continue
                i, ok = _same_table(got, ref[which][w])
                if ok:
                    n_ok += 1
                    continue
                sh.violation(f"C16:pure:{w}:value-depends-on-history:{step}",
                             f"{w} built with the '{which}' arguments {PURE_ARGS[which]}: at t={PURE_T[i] if i is not None else None} the value is "
                             f"{got[i] if i is not None else got}, a fresh interpreter process that builds this argument set alone gives "
                             f"{ref[which][w][i] if i is not None else ref[which][w]}", None)
        sh.nontriv()
        sh.outcome(("pure", n_ok))
        sh.sample({"sub": "pure", "whats": PURE_WHATS, "times": PURE_T, "steps": [s_[0] for s_ in steps], "agreeing": n_ok,
                   "reference_main_at_t=1": None if ref is None else {w: ref["main"][w][3] for w in PURE_WHATS}})


# ---------------------------------------------------------------------------------------------------------------- df

def _rates(name, m):
    if name == "flat2":
        return [0.02] * m
    if name == "flat10":
        return [0.10] * m
    if name == "rising":
        return [round(0.01 * (k + 1), 10) for k in range(m)]
    if name == "one-zero":
        r = [0.02] * m
        r[1] = 0.0
        return r
    if name == "first-zero":
        r = [0.02] * m
        r[0] = 0.0
        return r
    if name in ("scalar2", "scalar5"):  # one float instead of a list: a curve of one period
        return {"scalar2": 0.02, "scalar5": 0.05}[name]
    raise ValueError(name)


OTHER_RATES = {"flat2": "rising", "flat10": "rising", "rising": "flat10", "one-zero": "flat10", "first-zero": "flat10", "scalar2": "scalar5"}


def _df_model(case, second=False):
    """-> (model, tenors).  second=True: the second object of the same class (another curve on the same tenors), for the rate
    models and the exponential models; None for the others."""
    from mc import alphabets as A
    from rpylib.model.levydrivensde.levydrivensde import LevyDrivenSDEModel
    from rpylib.model.levydrivensde.levyforwardmodel import LevyForwardModel
    from rpylib.model.levydrivensde.levylibormodel import LevyLiborModel
    from rpylib.model.model import ModelType
    from rpylib.model.utils import (create_clayton_copula, create_exponential_of_levy_model, create_levy_copula_model)

    name = case["model"]
    if name in ("LevyForwardModel", "LevyLiborModel"):
        tenors = list(case["tenors"])
        m = len(tenors) - 1
        d = DRIVER_DIM[case["driver"]]
        rates = _rates(OTHER_RATES[case["rates"]] if second else case["rates"], m)
        t_arg = tenors
        if case.get("args") == "array":
            rates, t_arg = np.array(rates), np.array(tenors, dtype=float)
        kw = "ois_rates" if name == "LevyForwardModel" else "libor_rates"
        cls = LevyForwardModel if name == "LevyForwardModel" else LevyLiborModel
        return cls(**{kw: rates}, tenors=t_arg, sigma=_sigma(m, d), driver=make_driver(case["driver"])), tenors
    if name == "spec":
        spec = case["spec"]
        if second:
            spec = dict(spec, r=spec["r"] + 0.03)
        return A.make_model(spec), None
    if second:
        return None, None
    if name == "levy-hem":
        return make_driver("hem"), None
    if name == "levy-cgmy12":
        return make_driver("cgmy12"), None
    if name == "copula":
        return make_driver("cop-hem-vg"), None
    if name == "sde-plain":
        return LevyDrivenSDEModel(driver=make_driver("hem"), x0=1.0), None
    kind, r = name.split(":")
    r = float(r)
    if kind == "exp-hem":
        return create_exponential_of_levy_model(ModelType.HEM)(r=r, d=0.0), None
    if kind == "exp-cgmy12":
        return create_exponential_of_levy_model(ModelType.CGMY)(r=r, d=0.01, c=1.0, g=15.0, m=20.0, y=1.2), None
    if kind == "exp-bs":
        return create_exponential_of_levy_model(ModelType.BLACKSCHOLES)(r=r, d=0.0, sigma=0.2), None
    if kind == "exp-copula":
        ms = [create_exponential_of_levy_model(ModelType.HEM)(r=r, d=0.0), create_exponential_of_levy_model(ModelType.VG)(r=r, d=0.0)]
        return create_levy_copula_model(models=ms, copula=create_clayton_copula()), None
    raise ValueError(name)


def _where(t, tenors):
    """Position class of a time with respect to the tenors."""
    if tenors is None:
        return "no-tenors"
    T = [float(x) for x in tenors]
    eps = 2e-9
    for k, x in enumerate(T):
        if abs(t - x) <= eps:
            return "at-first-tenor" if k == 0 else ("at-last-tenor" if k == len(T) - 1 else "at-inner-tenor")
    if t < T[0]:
        return "before-first-tenor"
    return "between-tenors"


def _sub_df(sh, case):
    # the second object of the same class (another curve, same tenors) is built and read first: state kept at class or module
    # level by whoever comes first shows on the model of the case
    other, _ = _df_model(case, second=True)
    model, tenors = _df_model(case)
    cls = type(model).__name__
    sh.cls(f"df:{cls}")
    t_last = float(tenors[-1]) if tenors else 10.0
    if other is not None:
        for k in range(41):
            try:
                other.df(t_last * k / 40.0)
            except Exception:  # the second object is judged by its own case
                pass
    mesh = {t_last * k / 400.0 for k in range(401)}
    if tenors:
        for T in tenors:
            for t in (T - 1e-9, float(T), T + 1e-9):
                if 0.0 <= t <= t_last:
                    mesh.add(float(t))
    mesh = sorted(mesh)
    vals = []
    for t in mesh:
        sh.count("evaluations")
        try:
            v = float(model.df(t))
        except Exception as e:
            sh.violation(f"C16:df:{cls}:raises-{type(e).__name__}:{_where(t, tenors)}", f"df({t!r}) raises {e!r} (tenors {tenors}, case {case})", None)
            v = math.nan
        vals.append(v)
        if not math.isnan(v) and not (math.isfinite(v) and v > 0.0):
            sh.violation(f"C16:df:{cls}:not-positive:{_where(t, tenors)}", f"df({t!r}) = {v!r}", None)
    v0 = vals[0]
    if not math.isnan(v0) and not core.close(v0, 1.0, rtol=1e-12):
        sh.violation(f"C16:df:{cls}:not-one-at-time-zero", f"df(0) = {v0!r}", None)
    for (t1, v1), (t2, v2) in zip(zip(mesh, vals), zip(mesh[1:], vals[1:])):
        if math.isnan(v1) or math.isnan(v2):
            continue
        sh.count("evaluations")
        if v2 > v1 + 4 * np.spacing(max(abs(v1), abs(v2))):
            w1, w2 = _where(t1, tenors), _where(t2, tenors)
            w = w1 if w1.startswith("at-") else w2
            sh.violation(f"C16:df:{cls}:increases:{w}", f"df({t1!r}) = {v1!r} < df({t2!r}) = {v2!r} (rates {case.get('rates')}, tenors {tenors})",
                         {"t1": t1, "t2": t2, "df1": v1, "df2": v2})
    at = dict(zip(mesh, vals))
    if tenors:
        for k, T in enumerate(tenors):
            T = float(T)
            for t in (T - 1e-9, T + 1e-9):
                if t in at and not math.isnan(at[t]) and not math.isnan(at[T]):
                    sh.count("evaluations")
                    if abs(at[t] - at[T]) > 1e-7:
                        side = "left" if t < T else "right"
                        sh.violation(f"C16:df:{cls}:discontinuous:{_where(T, tenors)}:{side}",
                                     f"df({t!r}) = {at[t]!r} but df({T!r}) = {at[T]!r} (rates {case.get('rates')}, tenors {tenors})",
                                     {"t": t, "T": T, "df_t": at[t], "df_T": at[T]})
    # history on the re-used model object: the mesh once more, in DESCENDING order, interleaved with a continuity probe
    # df(t + 1e-9) at every mesh point (not only at the tenors) and with the second object: df is a function of t
    for t in reversed(mesh):
        v1 = at[t]
        if math.isnan(v1):
            continue
        sh.count("evaluations", 2)
        try:
            if other is not None:
                other.df(t)
        except Exception:
            pass
        try:
            v2 = float(model.df(t))
            v3 = float(model.df(t + 1e-9)) if t + 1e-9 <= t_last else v2
        except Exception as e:
            sh.violation(f"C16:df:{cls}:raises-{type(e).__name__}:{_where(t, tenors)}:second-reading", f"df({t!r}) read a second time raises {e!r}", None)
            continue
        if v2 != v1:
            sh.violation(f"C16:df:{cls}:second-reading-differs:{_where(t, tenors)}",
                         f"df({t!r}) = {v1!r} at the first reading (ascending mesh) and {v2!r} at the second (descending mesh, the second "
                         f"object of the same class read in between); rates {case.get('rates')}, tenors {tenors}", {"t": t, "first": v1, "second": v2})
        elif not abs(v3 - v2) <= 1e-7:
            sh.violation(f"C16:df:{cls}:discontinuous:{_where(t, tenors)}:right",
                         f"df({t + 1e-9!r}) = {v3!r} but df({t!r}) = {v2!r} (rates {case.get('rates')}, tenors {tenors})", {"t": t, "df_t": v2, "df_t+": v3})
    # times of other number types (a product maturity is often a Python int): the same value as for the float
    if tenors:
        for T in tenors:
            if float(T) in at and not math.isnan(at[float(T)]) and float(T) == int(T):
                for name, t in (("int", int(T)), ("numpy-int", np.int64(int(T))), ("numpy-float", np.float64(T))):
                    sh.count("evaluations")
                    try:
                        v = float(model.df(t))
                    except Exception as e:
                        sh.violation(f"C16:df:{cls}:raises-{type(e).__name__}:{_where(float(T), tenors)}:time-type={name}", f"df({t!r}) raises {e!r}", None)
                        continue
                    if not core.close(v, at[float(T)], rtol=1e-12):
                        sh.violation(f"C16:df:{cls}:depends-on-number-type-of-time:{_where(float(T), tenors)}:time-type={name}",
                                     f"df({t!r}) = {v!r} but df({float(T)!r}) = {at[float(T)]!r}", None)
    sh.nontriv()
    label = case["model"] if case["model"] != "spec" else repr(sorted(case["spec"].items(), key=str))
    sh.outcome((label, case.get("rates"), case.get("tenors"), case.get("args"), [round(v, 12) for v in vals[::50] if not math.isnan(v)]))
    if case.get("rates") == "rising" and case.get("tenors") == [1, 2, 3] and not case.get("args"):
        sh.sample({"sub": "df", "model": cls, "rates": _rates("rising", 2), "tenors": tenors,
                   "df": {str(t): at[t] for t in (0.0, 0.5, 1.0 - 1e-9, 1.0, 1.0 + 1e-9, 2.0, 2.0 + 1e-9, 3.0) if t in at}})
