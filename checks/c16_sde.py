"""C16 - the SDE scheme is the Euler scheme of its driver; rate models discount sanely.

Everything is observed the way the engines obtain it.  A real SDE model is built through the public constructors
(``LevyDrivenSDEModel``, ``LevyLiborModel``, ``LevyForwardModel``, ``create_levy_forward_market_model[_copula]``), the grid with
``CTMCUniformGrid(h=0.1, model=model)`` as the scripts under /repo/scripts/mlmc do, the process with ``MarkovChainSDE`` /
``MarkovChainLevyLiborModel`` (standard engine) or ``CouplingSDE`` followed by ``initialisation``, ``pre_computation`` and
``next_level`` once per level with a list of real ``MLMCPath`` managers (multilevel engine).  The *solution* compared is what
the path manager adds up: ``deterministic_path(times) + StochasticSDEPath.value()``.

Sub-checks (all lattice sweeps; a case = one configuration, the scripted driver paths are enumerated inside it)

 euler     drivers {1-d HEM, 1-d CGMY y=1.2, 2-d Clayton copula of HEM x VG; thorough: also HEM x CGMY y=1.2}
           x coefficient functions {Constant (default a=None; m=1,2,3 rows), DiagX (d=1,2), LiborSDEFunction (through
             LevyLiborModel with list tenors, and directly with array tenors), ForwardMarketSDEFunction (through
             LevyForwardModel, directly, and through the create_levy_forward_market_model helpers)}
           x two float initial values (plus the Python int x0=1 for Constant, 1-d HEM)
           x levels {0 (single process, standalone and CouplingSDE at level 0), 1, 2 (coupled pair)}
           x for the coupled pair, three HISTORIES by which the object reaches its level (each on its own fresh model):
               coupled            fast-forward: next_level() `level` times, nothing simulated in between
               coupled-hist       Engine.price_with_constant_mc_paths_and_level: one object; at every intermediate level
                                  (0 included) pre_computation, one scripted two-step word simulated, then next_level()
               coupled-hist-copy  Engine.price: as before, but the object is copy.deepcopy-ed after it has simulated and
                                  next_level() is called on the copy
             (state cached on the object by a simulation at level l-1 must not leak into level l; thorough: the two history
              variants run the words of length <= 2)
           x scripted driver paths: all words of length 1..3 over the step alphabet DT x DL x DW with
             quick     DT={0.25,1.0}       DL={-0.2,0.1}       DW={-0.3,0.4}            (8 letters,   584 words)
             thorough  DT={0.25,1.0,0.5}   DL={-0.2,0.1,0.0*}  DW={-0.3,0.4,0.0}        (27 letters, 20439 words)
             (2-d drivers: vectors; coupled pair: fine and coarse letters differ; * coupled third letter: fine 0.05, coarse 0).
           The driver path the scheme consumes is REPLACED by the scripted ``StochasticJumpPath(times, diffusion, jumps)``
           (``markov_chain.simulate_one_path`` for the single process, ``driver_coupling_process.simulate_one_path_with_coupling``
           for the pair), so the check is a deterministic function of the word.  numpy's global generator is replaced by a
           function that raises: no randomness is consumed.
           Oracle, for the single process and for both components of the pair (each with its own increments and its own
           driver drift: fine = drift of a *freshly built* driver chain on the grid refined `level` times, coarse = the one
           refined `level-1` times):
             times    returned times == driver times (exactly)
             step     X_{i+1} = X_i + (sde drift(t_i,X_i) + a(t_i,X_i) mu) dt_i + a(t_i,X_i)(dW_i + dL_i), every i
             closed   Constant: X_i = x0 + a (mu t_i + W_i + L_i);  DiagX: X_i = x0 * prod_{j<i} (1 + mu dt_j + dW_j + dL_j)
           a(t,x) in the oracle: written out here for Constant (the constant matrix) and DiagX (diag(x)), which the statement
           defines; for the two rate functions the statement does not define a, and the oracle evaluates the model's own
           function object on its own state (a column, component by component).  The sde drift is zero except for
           LevyLiborModel, where the oracle calls the process's own ``sde_drift`` on its own state (the statement does not say
           what the Libor drift is; only when and where it is evaluated is checked).
           Tolerance |x-y| <= 1e-9 * max|X| (maximum over the path, which contains x0): the two sides differ by
           re-association only.
 captured  the same configurations (first initial value, same three histories; the warm-up path at the intermediate levels is
           simulated by the real driver), but the real driver is left in place and wrapped so that the path
           it hands over is recorded; 6 paths per configuration under a *scripted* generator (numpy.random.poisson returns
           0,1,3,6,2,4 jumps in turn, uniform/random_sample a Weyl sequence, normal a 5-cycle).  Checks that exactly one driver
           path is consumed per SDE path, that the real path has the array layout the scripted words use (times (n,), values
           (d?,n) / (2,d?,n)), and evaluates the same oracle on it.  This binds the scripted words to the real interface.
 df        LevyForwardModel, LevyLiborModel with rates {flat 2%, rising, one zero rate} x tenors {(1,2,3), (5,...,10)}
           (thorough: also first rate zero, flat 10%, a single period (1,2)); mesh = 401 equidistant points of [0, last tenor]
           plus every tenor and tenor -+ 1e-9 (clipped to [0, last tenor]).  df(0) = 1, df finite and > 0, df non-increasing
           along the mesh (slack 4 ulp), |df(T +- 1e-9) - df(T)| <= 1e-7 at every tenor.  The other model classes (Levy model,
           exponential model with r in {0, 0.02, 0.05}, copula model, plain LevyDrivenSDEModel) on a mesh of [0,10].

Violation keys: C16:euler:<single|coupling-l0|coupled|coupled-hist|coupled-hist-copy[:fine|:coarse]>:<coefficient function[:how built]>:<failure>:driver-d=<d>:
<t<first-tenor | t>=first-tenor | no-tenors>:<x0=float|x0=int>[:captured]   and   C16:df:<model class>:<failure>:<where>[:side].
A violation of the euler sub-check carries the failing word (case field ``only_word``): its replay runs that word alone.
For the tenor-based functions the class ``t>=first-tenor`` means that some step of the word starts at or after the first
tenor (the scripts only price products maturing at the first tenor, so only ``t<first-tenor`` is reached by them).

Outside the alphabet (statement silent): times beyond the last tenor (df raises IndexError there); negative rates; the
value of the rate coefficient functions and of the Libor drift themselves; the decomposition of the solution into
drift / diffusion / jump parts (only the sum is compared); the maximum-step epsilon handed to the driver (C15); antithetic
paths (StochasticSDEPath.antithetic_value raises by construction); drivers, steps and increments outside the menus.
"""
from __future__ import annotations

import contextlib
import itertools
import math
import warnings

import numpy as np

from mc import core

PID = "C16"
LEVEL = "exploration"
RULE = (
    "complete product drivers x coefficient functions x initial values x levels, and inside every configuration every word "
    "of length 1..3 over the stated step alphabet as the driver path; complete product model class x rates x tenors with "
    "every point of the stated time mesh; a case is non-trivial when at least one solution value (or discount factor) was "
    "compared with the oracle; distinct = distinct case dict"
)
ASSUMPTIONS = [
    "the scheme is observed through MarkovChainSDE.markov_chain.simulate_one_path / "
    "CouplingSDE.driver_coupling_process.simulate_one_path_with_coupling (the seams named in observe_at), replaced by scripted "
    "StochasticJumpPath objects whose array layout is bound to the real drivers by the 'captured' sub-check",
    "driver drifts of the oracle come from freshly built MarkovChainProcess / MarkovChainLevyCopula objects on freshly built "
    "grids refined level / level-1 times (which level's drift is used is checked, not its value: that is C04)",
    "for LiborSDEFunction / ForwardMarketSDEFunction and the Libor sde drift the oracle evaluates the library's own function on "
    "the oracle's own state; their values are not checked",
    "captured sub-check: numpy.random.{poisson,uniform,random_sample,random,normal} are replaced by scripted sequences",
]
CHUNK = 1

H0 = 0.1
RTOL = 1e-9

# ----------------------------------------------------------------------------------------------------------------------
# alphabets
# ----------------------------------------------------------------------------------------------------------------------

DRIVERS = ["hem", "cgmy12", "cop-hem-vg"]
DRIVERS_THOROUGH = DRIVERS + ["cop-hem-cgmy12"]  # infinite variation copula: non-trivial diffusion matrix, epsilon < 1
DRIVER_DIM = {"hem": 1, "cgmy12": 1, "cop-hem-vg": 2, "cop-hem-cgmy12": 2}

TENORS_SHORT = [1, 2, 3]

DT = [0.25, 1.0, 0.5]
# letters per layout; index 0,1 = quick, 2 = thorough extra
DL_1 = [-0.2, 0.1, 0.0]
DW_1 = [-0.3, 0.4, 0.0]
DL_2 = [(-0.2, 0.1), (0.1, 0.3), (0.0, 0.0)]
DW_2 = [(-0.3, 0.2), (0.4, -0.1), (0.0, 0.0)]
DL_C1 = [(-0.2, -0.2), (0.1, 0.2), (0.05, 0.0)]  # (fine, coarse)
DW_C1 = [(-0.3, -0.25), (0.4, 0.35), (0.0, 0.0)]
DL_C2 = [((-0.2, 0.1), (-0.2, 0.2)), ((0.1, 0.3), (0.2, 0.4)), ((0.05, 0.0), (0.0, 0.0))]
DW_C2 = [((-0.3, 0.2), (-0.25, 0.15)), ((0.4, -0.1), (0.35, -0.05)), ((0.0, 0.0), (0.0, 0.0))]


def _letters(d, coupled, tier):
    k = 3 if tier == "thorough" else 2
    if coupled:
        dl, dw = (DL_C1, DW_C1) if d == 1 else (DL_C2, DW_C2)
    else:
        dl, dw = (DL_1, DW_1) if d == 1 else (DL_2, DW_2)
    return [
        (dt, np.array(l, dtype=float), np.array(w, dtype=float))
        for dt in DT[:k] for l in dl[:k] for w in dw[:k]
    ]


def _x0_menu(m, rates):
    if rates:
        return {2: [[0.02, 0.02], [0.01, 0.03]]}[m]
    return {1: [1.5, -0.75], 2: [[1.5, 0.5], [-0.75, 2.0]], 3: [[1.5, 0.5, 1.0], [-0.75, 2.0, 0.25]]}[m]


def coef_specs(d):
    """Coefficient functions offered, for a driver of dimension d. 'm' = dimension of X."""
    out = [
        {"kind": "default", "m": 1},
        {"kind": "constant", "m": d, "c": 2.0},
        {"kind": "constant", "m": d + 1, "c": -0.5},
        {"kind": "diagx", "m": d},
        {"kind": "libor-model", "m": 2, "tenors": TENORS_SHORT},
        {"kind": "libor-direct", "m": 2, "tenors": TENORS_SHORT},
        {"kind": "forward-model", "m": 2, "tenors": TENORS_SHORT},
        {"kind": "forward-direct", "m": 2, "tenors": TENORS_SHORT},
        {"kind": "forward-helper", "m": 5, "tenors": [5, 6, 7, 8, 9, 10]},
    ]
    if d == 2:
        out[0] = {"kind": "default", "m": 2}
    return out


def coef_label(c, d):
    k = c["kind"]
    if k == "default":
        return "Constant:default"
    if k == "constant":
        return f"Constant:m={c['m']}"
    if k == "diagx":
        return f"DiagX:d={d}"
    return {"libor-model": "LiborSDEFunction:LevyLiborModel", "libor-direct": "LiborSDEFunction:direct",
            "forward-model": "ForwardMarketSDEFunction:LevyForwardModel", "forward-direct": "ForwardMarketSDEFunction:direct",
            "forward-helper": "ForwardMarketSDEFunction:helper"}[k]


def _sigma(m, d):
    base = np.array([[0.50, 1.50], [0.80, 1.25], [1.00, 1.00], [1.25, 0.80], [1.50, 0.50]])
    return base[:m, :d].copy()


def cases(tier):
    out = []
    # ---- df (cheapest first)
    rate_menu = ["flat2", "rising", "one-zero"] + (["first-zero", "flat10"] if tier == "thorough" else [])
    tenor_menu = [[1, 2, 3], [5, 6, 7, 8, 9, 10]] + ([[1, 2]] if tier == "thorough" else [])
    for cls in ("LevyForwardModel", "LevyLiborModel"):
        for tenors in tenor_menu:
            for rates in rate_menu:
                if len(tenors) == 2 and rates in ("one-zero", "first-zero"):
                    continue
                for drv in (["hem"] if tier == "quick" else ["hem", "cop-hem-vg"]):
                    out.append({"sub": "df", "model": cls, "tenors": tenors, "rates": rates, "driver": drv})
    for other in ("levy-hem", "levy-cgmy12", "copula", "sde-plain", "exp-hem:0.0", "exp-hem:0.02", "exp-cgmy12:0.05",
                  "exp-bs:0.02", "exp-copula:0.02"):
        out.append({"sub": "df", "model": other})
    # ---- euler + captured
    for sub in ("euler", "captured"):
        for level in (0, 1, 2):
            for drv in (DRIVERS_THOROUGH if tier == "thorough" else DRIVERS):
                d = DRIVER_DIM[drv]
                for c in coef_specs(d):
                    rates = c["kind"] not in ("default", "constant", "diagx")
                    if c["kind"] == "forward-helper":
                        x0s = [None]
                    else:
                        x0s = list(range(2))
                    if sub == "captured":
                        x0s = x0s[:1]
                    for x0i in x0s:
                        base = {"sub": sub, "driver": drv, "coef": c, "x0": x0i, "level": level, "tier": tier}
                        out.append(base)
        if sub == "euler":
            for level in (0, 1):
                out.append({"sub": "euler", "driver": "hem", "coef": {"kind": "constant", "m": 1, "c": 2.0}, "x0": "int",
                            "level": level, "tier": tier, "max_steps": 2})
    return out


# ----------------------------------------------------------------------------------------------------------------------
# building the real objects
# ----------------------------------------------------------------------------------------------------------------------

def _quiet():
    warnings.filterwarnings("ignore")


def make_driver(name):
    from rpylib.model.model import ModelType
    from rpylib.model.utils import create_clayton_copula, create_levy_copula_model, create_levy_model

    if name == "hem":
        return create_levy_model(ModelType.HEM)()
    if name == "cgmy12":
        return create_levy_model(ModelType.CGMY)(c=1.0, g=15.0, m=20.0, y=1.2)
    if name in ("cop-hem-vg", "cop-hem-cgmy12"):
        return create_levy_copula_model(models=_margins(name), copula=create_clayton_copula())
    raise ValueError(name)


def _margins(name):
    from rpylib.model.model import ModelType
    from rpylib.model.utils import create_levy_model

    if name == "cop-hem-vg":
        return [create_levy_model(ModelType.HEM)(), create_levy_model(ModelType.VG)()]
    if name == "cop-hem-cgmy12":
        return [create_levy_model(ModelType.HEM)(), create_levy_model(ModelType.CGMY)(c=1.0, g=15.0, m=20.0, y=1.2)]
    raise ValueError(name)


def make_model(drv, c, x0i):
    """-> (model, x0 as float vector (m,), info dict)"""
    from rpylib.model.levydrivensde import levydrivensde as S
    from rpylib.model.levydrivensde.levyforwardmodel import LevyForwardModel
    from rpylib.model.levydrivensde.levylibormodel import LevyLiborModel
    from rpylib.model import utils as U

    d = DRIVER_DIM[drv]
    kind, m = c["kind"], c["m"]
    if kind == "forward-helper":
        if d == 1:
            model = U.create_levy_forward_market_model(driver=make_driver(drv))
        else:
            model = U.create_levy_forward_market_model_copula(driver=_margins(drv))
        return model, np.array([0.02] * 5)
    driver = make_driver(drv)
    rates = kind not in ("default", "constant", "diagx")
    if x0i == "int":
        x0_arg, x0 = 1, np.array([1.0])
    else:
        v = _x0_menu(m, rates)[x0i]
        x0 = np.atleast_1d(np.array(v, dtype=float))
        x0_arg = float(v) if m == 1 else np.array(v, dtype=float)
    if kind == "default":
        model = S.LevyDrivenSDEModel(driver=driver, x0=x0_arg)
    elif kind == "constant":
        model = S.LevyDrivenSDEModel(driver=driver, x0=x0_arg, a=S.Constant(m=m, d=d, constant=c["c"]))
    elif kind == "diagx":
        model = S.LevyDrivenSDEModel(driver=driver, x0=x0_arg, a=S.DiagX(dimension=d))
    elif kind == "libor-model":
        model = LevyLiborModel(libor_rates=list(v), tenors=list(c["tenors"]), sigma=_sigma(m, d), driver=driver)
    elif kind == "forward-model":
        model = LevyForwardModel(ois_rates=list(v), tenors=list(c["tenors"]), sigma=_sigma(m, d), driver=driver)
    elif kind == "libor-direct":
        a = S.LiborSDEFunction(sigma=_sigma(m, d), tenors=np.array(c["tenors"], dtype=float))
        model = S.LevyDrivenSDEModel(driver=driver, x0=x0_arg, a=a)
    elif kind == "forward-direct":
        a = S.ForwardMarketSDEFunction(sigma=_sigma(m, d), tenors=np.array(c["tenors"], dtype=float))
        model = S.LevyDrivenSDEModel(driver=driver, x0=x0_arg, a=a)
    else:
        raise ValueError(kind)
    return model, x0


def make_product(model, maturity):
    from rpylib.product import payoff as P
    from rpylib.product.product import Product
    from rpylib.product.underlying import Libors, Spot

    if hasattr(model, "deltas"):
        return Product(payoff_underlying=Libors(),
                       payoff=P.Swaption(underlying_rates=model.x0, deltas=model.deltas, strike=np.average(model.x0)),
                       maturity=maturity, notional=100.0)
    return Product(payoff_underlying=Spot(), payoff=P.Vanilla(strike=1.0, payoff_type=P.PayoffType.CALL), maturity=maturity)


def _method(d):
    from rpylib.distribution.sampling import SamplingMethod

    return SamplingMethod.BINARYSEARCHTREEADAPTED1D if d == 1 else SamplingMethod.BINARYSEARCHTREEADAPTED


def make_grid(model):
    from rpylib.grid.spatial import CTMCUniformGrid

    return CTMCUniformGrid(h=H0, model=model)


def build_single(model, d, maturity):
    """Standalone process, as the standard engine uses it."""
    from rpylib.model.levydrivensde.levylibormodel import LevyLiborModel
    from rpylib.process.markovchain.markovchainsde import MarkovChainLevyLiborModel, MarkovChainSDE

    cls = MarkovChainLevyLiborModel if isinstance(model, LevyLiborModel) else MarkovChainSDE
    proc = cls(model=model, method=_method(d), grid=make_grid(model))
    product = make_product(model, maturity)
    product.update(proc.process_representation)
    proc.initialisation(product)
    proc.pre_computation(1, product)
    return proc


HISTORIES = ["fast-forward", "same-object", "deepcopy"]
HISTORY_NAME = {"fast-forward": "coupled", "same-object": "coupled-hist", "deepcopy": "coupled-hist-copy"}


def build_coupling(model, d, level, maturity, history="fast-forward", warm=None):
    """CouplingSDE taken to `level` the way the multilevel engine does. -> (coupling, path managers, warm-up errors)

    history   "fast-forward": next_level() `level` times on a fresh object, nothing simulated in between;
              "same-object":  Engine.price_with_constant_mc_paths_and_level - one object; at every level pre_computation, one
                              path simulated (warm(cp, lvl)), then next_level();
              "deepcopy":     Engine.price - the level l-1 object simulates, is deep-copied, and next_level() is called on the
                              copy.
    """
    import copy

    from rpylib.montecarlo.path import MLMCPath
    from rpylib.process.coupling.couplingsde import CouplingSDE

    cp = CouplingSDE(model=model, method=_method(d), grid=make_grid(model))
    product = make_product(model, maturity)
    product.update(cp.fine_process.process_representation)
    cp.initialisation(product)
    pms = [MLMCPath(deterministic_path=cp.fine_process.deterministic_path, activate_spot_underlying=False)]
    cp.pre_computation(1, product)
    errors = []
    for lvl in range(level):
        if history != "fast-forward":
            cp.reset_one_simulation_cost()
            cp.pre_computation(mc_paths=1, product=product)
            try:
                warm(cp, lvl)
            except Exception as e:  # reported by the configuration of that level, not by this one
                errors.append(f"level {lvl}: {type(e).__name__}")
            if history == "deepcopy":
                cp = copy.deepcopy(cp)
        cp.next_level(1, pms, product=product)
    if history != "fast-forward":
        cp.reset_one_simulation_cost()
        cp.pre_computation(mc_paths=1, product=product)
    return cp, pms, errors


def seam_of(cp, lvl):
    """(owner, attribute, simulate) of the driver seam of a CouplingSDE standing at level lvl."""
    if lvl == 0:
        return cp.fine_process.markov_chain, "simulate_one_path", cp.simulate_one_path
    return cp.driver_coupling_process, "simulate_one_path_with_coupling", cp.simulate_one_path_with_coupling


def scripted_warm(d, tier):
    """Warm-up for the euler sub-check: one scripted two-step word is simulated at the intermediate level, then the seam is
    removed again so that the object (and its deep copy) is the library's own."""

    def warm(cp, lvl):
        letters = _letters(d, lvl > 0, tier)
        path = scripted_path([letters[1], letters[6]], lvl > 0, d)
        owner, attr, simulate = seam_of(cp, lvl)
        setattr(owner, attr, lambda _p=path: _p)
        try:
            simulate()
        finally:
            delattr(owner, attr)

    return warm


def real_warm(cp, lvl):
    """Warm-up for the captured sub-check: the real driver simulates one path (under the scripted generator)."""
    seam_of(cp, lvl)[2]()


_DRIFT_CACHE = {}


def reference_drift(drv, level):
    """Drift (d,) of a freshly built driver chain on a freshly built grid refined `level` times."""
    key = (drv, level)
    if key not in _DRIFT_CACHE:
        from rpylib.model.levydrivensde.levydrivensde import LevyDrivenSDEModel
        from rpylib.process.markovchain.markovchain import MarkovChainProcess
        from rpylib.process.markovchain.markovchainlevycopula import MarkovChainLevyCopula

        d = DRIVER_DIM[drv]
        driver = make_driver(drv)
        model = LevyDrivenSDEModel(driver=driver, x0=0.0 if d == 1 else np.zeros(d))
        grid = make_grid(model)
        for _ in range(level):
            grid.refine()
        if d == 1:
            chain = MarkovChainProcess(model=driver, method=_method(d), grid=grid)
        else:
            chain = MarkovChainLevyCopula(levy_copula_model=driver, grid=grid, method=_method(d))
        chain.initialisation(product=make_product(model, 1.0), max_step_epsilon=1.0)
        _DRIFT_CACHE[key] = np.array(chain.process_drift(), dtype=float).reshape(d)
    return _DRIFT_CACHE[key]


# ----------------------------------------------------------------------------------------------------------------------
# scripted randomness
# ----------------------------------------------------------------------------------------------------------------------

_RNG_NAMES = ["uniform", "random_sample", "random", "normal", "poisson", "choice", "rand", "randn", "standard_normal",
              "exponential", "randint", "seed"]


@contextlib.contextmanager
def forbidden_rng():
    """No random variate may be drawn: the driver path is scripted."""
    import numpy.random as npr

    def make(name):
        def f(*a, **k):
            raise AssertionError(f"numpy.random.{name} called although the driver path is scripted")
        return f

    saved = {n: getattr(npr, n) for n in _RNG_NAMES}
    try:
        for n in _RNG_NAMES:
            if n != "seed":
                setattr(npr, n, make(n))
        yield
    finally:
        for n, f in saved.items():
            setattr(npr, n, f)


class ScriptedRNG:
    """Deterministic replacement of the numpy.random functions the library calls."""

    POISSON = [0, 1, 3, 6, 2, 4]
    NORMAL = [0.5, -1.0, 1.5, -0.25, 0.0]
    PHI = 0.6180339887498949

    def __init__(self):
        self.ku = 0
        self.kn = 0
        self.kp = 0

    def _u(self, n):
        k = np.arange(self.ku + 1, self.ku + n + 1, dtype=float)
        self.ku += n
        return (k * self.PHI) % 1.0

    @staticmethod
    def _shape(size):
        if size is None:
            return None, 1
        shp = (size,) if np.isscalar(size) else tuple(size)
        return shp, int(np.prod(shp)) if shp else 1

    def uniform(self, low=0.0, high=1.0, size=None):
        shp, n = self._shape(size)
        u = low + (high - low) * self._u(n)
        return float(u[0]) if shp is None else u.reshape(shp)

    def random_sample(self, size=None):
        return self.uniform(0.0, 1.0, size)

    def normal(self, loc=0.0, scale=1.0, size=None):
        shp, n = self._shape(size)
        z = np.array([self.NORMAL[(self.kn + i) % len(self.NORMAL)] for i in range(n)], dtype=float)
        self.kn += n
        z = loc + scale * z
        return float(z[0]) if shp is None else z.reshape(shp)

    def poisson(self, lam=1.0, size=None):
        shp, n = self._shape(size)
        v = np.array([self.POISSON[(self.kp + i) % len(self.POISSON)] for i in range(n)], dtype=int)
        self.kp += n
        return int(v[0]) if shp is None else v.reshape(shp)

    def choice(self, a, *args, **kw):
        return list(a)[0] if not np.isscalar(a) else 0

    @contextlib.contextmanager
    def active(self):
        import numpy.random as npr

        repl = {"uniform": self.uniform, "random_sample": self.random_sample, "random": self.random_sample,
                "normal": self.normal, "poisson": self.poisson, "choice": self.choice}
        saved = {n: getattr(npr, n) for n in repl}
        try:
            for n, f in repl.items():
                setattr(npr, n, f)
            yield self
        finally:
            for n, f in saved.items():
                setattr(npr, n, f)


# ----------------------------------------------------------------------------------------------------------------------
# oracle
# ----------------------------------------------------------------------------------------------------------------------

def a_reference(c, d, model):
    """-> function (t, x (m,)) -> matrix (m,d).  Constant and DiagX are written out; the rate functions are the model's own."""
    kind, m = c["kind"], c["m"]
    if kind == "default":
        mat = np.ones((m, d))
        return lambda t, x: mat
    if kind == "constant":
        mat = np.full((m, d), float(c["c"]))
        return lambda t, x: mat
    if kind == "diagx":
        return lambda t, x: np.diag(x)
    fun = model.a

    def own(t, x):
        r = np.asarray(fun(t, x.reshape(m, 1)), dtype=float)
        if r.shape != (m, d):
            raise ValueError(f"coefficient function returned shape {r.shape} for a column state, expected {(m, d)}")
        return r

    return own


def sde_reference(model, proc):
    """-> function (t, x (m,)) -> (m,): zero unless the process has its own drift (Libor model)."""
    from rpylib.model.levydrivensde.levylibormodel import LevyLiborModel

    m = model.dimension()
    if isinstance(model, LevyLiborModel):
        return lambda t, x: np.asarray(proc.sde_drift(t, x.reshape(m, 1).copy()), dtype=float).reshape(m)
    zero = np.zeros(m)
    return lambda t, x: zero


def euler_reference(x0, times, W, L, mu, a_fun, sde_fun):
    """Explicit recursion. W, L: (d, n+1) cumulative; mu: (d,). -> X (m, n+1)"""
    n = times.size - 1
    X = np.empty((x0.size, n + 1))
    X[:, 0] = x0
    x = x0.astype(float).copy()
    for i in range(n):
        t = times[i]  # numpy scalar, exactly what the schemes hand to a(t, x)
        dt = times[i + 1] - times[i]
        A = a_fun(t, x.copy())
        dY = (W[:, i + 1] - W[:, i]) + (L[:, i + 1] - L[:, i])
        x = x + (sde_fun(t, x.copy()) + A @ mu) * dt + A @ dY
        X[:, i + 1] = x
    return X


def closed_form(c, d, x0, times, W, L, mu):
    """Constant: x0 + a Y_t;  DiagX: x0 * prod(1 + dY).  None for the other functions."""
    kind, m = c["kind"], c["m"]
    Y = mu[:, None] * times[None, :] + W + L  # (d, n+1)
    if kind in ("default", "constant"):
        mat = np.ones((m, d)) if kind == "default" else np.full((m, d), float(c["c"]))
        return x0[:, None] + mat @ Y
    if kind == "diagx":
        dY = np.diff(Y, axis=1)
        fac = np.concatenate((np.ones((d, 1)), np.cumprod(1.0 + dY, axis=1)), axis=1)
        return x0[:, None] * fac
    return None


def _first_bad(obs, ref, scale):
    bad = ~(np.abs(obs - ref) <= RTOL * scale)  # nan -> bad
    if not bad.any():
        return None
    idx = np.argwhere(bad)[0]
    return tuple(int(v) for v in idx)


def time_class(c, times):
    """Where the step starting times lie with respect to the first tenor (only for the tenor-based functions)."""
    if "tenors" not in c:
        return "no-tenors"
    return "t>=first-tenor" if float(np.max(times[:-1])) >= c["tenors"][0] else "t<first-tenor"


def _as2d(arr, d):
    """Driver component array -> (d, n)."""
    arr = np.asarray(arr, dtype=float)
    return arr.reshape(d, -1) if arr.ndim == 1 else arr


class Config:
    """One configuration with its real objects and its oracle pieces."""

    def __init__(self, case, maturity=3.0, warm=None):
        _quiet()
        self.case = case
        self.drv = case["driver"]
        self.d = DRIVER_DIM[self.drv]
        self.c = case["coef"]
        self.level = case["level"]
        self.label = coef_label(self.c, self.d)
        self.x0cls = "x0=int" if case["x0"] == "int" else "x0=float"
        self.model, self.x0 = make_model(self.drv, self.c, case["x0"])
        self.m = self.c["m"]
        self.objects = []  # (name, obj, simulate, seam owner, seam attribute, deterministic path, sde owner)
        if self.level == 0:
            proc = build_single(self.model, self.d, maturity)
            self.objects.append(("single", proc, proc.simulate_one_path, proc.markov_chain, "simulate_one_path",
                                 proc.deterministic_path, proc))
            model2, _ = make_model(self.drv, self.c, case["x0"])
            cp, pms, _ = build_coupling(model2, self.d, 0, maturity)
            self.objects.append(("coupling-l0", cp, cp.simulate_one_path, cp.fine_process.markov_chain, "simulate_one_path",
                                 pms[0].deterministic_path, cp.fine_process))
            self.mus = [reference_drift(self.drv, 0)]
        else:
            self.warmup_errors = []
            for history in HISTORIES:
                model_h, _ = make_model(self.drv, self.c, case["x0"])
                if history == "fast-forward":
                    self.model = model_h
                cp, pms, errs = build_coupling(model_h, self.d, self.level, maturity, history=history, warm=warm)
                self.warmup_errors += errs
                self.objects.append((HISTORY_NAME[history], cp, cp.simulate_one_path_with_coupling, cp.driver_coupling_process,
                                     "simulate_one_path_with_coupling", pms[-1].deterministic_path, cp.fine_process))
            self.mus = [reference_drift(self.drv, self.level), reference_drift(self.drv, self.level - 1)]
        self.coupled = self.level > 0

    def key(self, name, comp, failure, tcls):
        comp = f":{comp}" if comp else ""
        return f"C16:euler:{name}{comp}:{self.label}:{failure}:driver-d={self.d}:{tcls}:{self.x0cls}"

    def compare(self, sh, name, obj_model, sde_owner, det_path, sde_path, drv_times, drv_W, drv_L, what):
        """Evaluate the oracle for one returned SDE path against the driver path (arrays as handed over by the driver)."""
        d, m = self.d, self.m
        times = np.asarray(drv_times, dtype=float)
        tcls = time_class(self.c, times)
        sh.cls(f"time:{tcls}")
        rt = np.asarray(sde_path.times(), dtype=float)
        if rt.shape != times.shape or not np.array_equal(rt, times):
            sh.violation(self.key(name, "", "times-differ", tcls), f"{what}: returned times {rt.tolist()} != driver times {times.tolist()}", None)
            return False
        sol = np.asarray(det_path(times) + sde_path.value(), dtype=float)
        comps = [("fine", 0), ("coarse", 1)] if self.coupled else [("", None)]
        expected_shape = ((2, m, times.size) if self.coupled else (m, times.size))
        if sol.shape != expected_shape:
            sh.violation(self.key(name, "", "solution-shape-differs", tcls), f"{what}: solution has shape {sol.shape}, expected {expected_shape}", None)
            return False
        a_fun = a_reference(self.c, d, obj_model)
        sde_fun = sde_reference(obj_model, sde_owner)
        ok = True
        for (comp, ci), mu in zip(comps, self.mus):
            W = _as2d(drv_W if ci is None else drv_W[ci], d)
            L = _as2d(drv_L if ci is None else drv_L[ci], d)
            obs = sol if ci is None else sol[ci]
            sh.count("evaluations")
            try:
                ref = euler_reference(self.x0, times, W, L, mu, a_fun, sde_fun)
            except Exception as e:  # the model's own coefficient function fails on the oracle's state
                sh.violation(self.key(name, comp, f"coefficient-raises-in-oracle-{type(e).__name__}", tcls),
                             f"{what}: the scheme returned but a(t,x) evaluated on a column state raises {e!r}", None)
                ok = False
                continue
            scale = max(1e-3, float(np.max(np.abs(ref))))
            bad = _first_bad(obs, ref, scale)
            if bad is not None:
                i = bad[-1]
                sh.violation(self.key(name, comp, "step-differs", tcls),
                             f"{what}: solution at time index {i} (t={times[i]}) is {obs[:, i].tolist()}, Euler recursion gives {ref[:, i].tolist()}",
                             {"times": times, "W": W, "L": L, "mu": mu, "x0": self.x0, "observed": obs, "euler": ref})
                ok = False
            cf = closed_form(self.c, d, self.x0, times, W, L, mu)
            if cf is not None:
                sh.count("evaluations")
                scale = max(1e-3, float(np.max(np.abs(cf))))
                bad = _first_bad(obs, cf, scale)
                if bad is not None:
                    i = bad[-1]
                    sh.violation(self.key(name, comp, "closed-form-differs", tcls),
                                 f"{what}: solution at time index {i} is {obs[:, i].tolist()}, closed form gives {cf[:, i].tolist()}",
                                 {"times": times, "W": W, "L": L, "mu": mu, "x0": self.x0, "observed": obs, "closed": cf})
                    ok = False
        return ok


def scripted_path(word, coupled, d):
    """word = list of letters (dt, dL, dW) with dL, dW of the layout's prefix shape -> StochasticJumpPath"""
    from rpylib.montecarlo.path import StochasticJumpPath

    times = np.concatenate(([0.0], np.cumsum([w[0] for w in word])))
    dL = np.stack([w[1] for w in word], axis=-1)
    dW = np.stack([w[2] for w in word], axis=-1)
    zero = np.zeros(dL.shape[:-1] + (1,))
    L = np.concatenate((zero, np.cumsum(dL, axis=-1)), axis=-1)
    W = np.concatenate((zero, np.cumsum(dW, axis=-1)), axis=-1)
    return StochasticJumpPath(times, W, L)


def expected_layout(coupled, d, n):
    pre = ((2,) if coupled else ()) + ((d,) if d > 1 else ())
    return pre + (n,)


# ----------------------------------------------------------------------------------------------------------------------
# sub-checks
# ----------------------------------------------------------------------------------------------------------------------

def check_case(sh, case):
    _quiet()
    {"euler": _sub_euler, "captured": _sub_captured, "df": _sub_df}[case["sub"]](sh, case)


def _build(sh, case, maturity, warm=None):
    """Build the configuration; a failure to build the real objects is reported (the constructors are part of the way users
    reach the scheme)."""
    d = DRIVER_DIM[case["driver"]]
    label = coef_label(case["coef"], d)
    x0cls = "x0=int" if case["x0"] == "int" else "x0=float"
    try:
        cfg = Config(case, maturity, warm)
        if getattr(cfg, "warmup_errors", None):
            sh.count("warmup_simulations_that_raised", len(cfg.warmup_errors))
        return cfg
    except Exception as e:
        proc = "single" if case["level"] == 0 else "coupled"
        sh.violation(f"C16:euler:{proc}:{label}:construction-raises-{type(e).__name__}:driver-d={d}:level={case['level']}:{x0cls}",
                     f"building the process for {label} on driver {case['driver']} at level {case['level']} raises {e!r}", None)
        return None


def _sub_euler(sh, case):
    with forbidden_rng():
        cfg = _build(sh, case, maturity=3.0, warm=scripted_warm(DRIVER_DIM[case["driver"]], case["tier"]))
        if cfg is None:
            return
        sh.cls(f"coef:{cfg.label}")
        sh.cls(f"driver:{cfg.drv}")
        sh.cls(f"level:{cfg.level}")
        letters = _letters(cfg.d, cfg.coupled, case["tier"])
        n_ok = 0
        n_words = 0
        last = None
        if case.get("only_word") is not None:  # replay of one word of the configuration
            words = [tuple(case["only_word"])]
        else:
            words = itertools.chain.from_iterable(
                itertools.product(range(len(letters)), repeat=n) for n in range(1, case.get("max_steps", 3) + 1))
        for idx in words:
            word = [letters[i] for i in idx]
            n_words += 1
            sh.case = dict(case, only_word=list(idx))  # a violation carries the word, so that its replay runs that word alone
            for (name, obj, simulate, seam_owner, seam_attr, det_path, sde_owner) in cfg.objects:
                if len(idx) > 2 and name in ("coupled-hist", "coupled-hist-copy") and case["tier"] == "thorough":
                    continue  # thorough: the two history variants run the words of length <= 2 (756 of them)
                path = scripted_path(word, cfg.coupled, cfg.d)
                keep = (path.jump_times.copy(), path.diffusion_path.copy(), path.jump_path.copy())
                calls = []

                def scripted(_p=path, _c=calls):
                    _c.append(1)
                    return _p

                setattr(seam_owner, seam_attr, scripted)
                what = f"{name} level {cfg.level}, driver {cfg.drv}, word {list(idx)}"
                tcls = time_class(cfg.c, keep[0])
                try:
                    res = simulate()
                except Exception as e:
                    sh.count("evaluations")
                    sh.violation(cfg.key(name, "", f"raises-{type(e).__name__}", tcls), f"{what}: simulate raises {e!r}",
                                 {"times": keep[0], "W": keep[1], "L": keep[2]})
                    continue
                if len(calls) != 1:
                    sh.violation(cfg.key(name, "", "driver-path-not-consumed-exactly-once", tcls), f"{what}: {len(calls)} driver paths requested", None)
                obj_model = obj.model
                if cfg.compare(sh, name, obj_model, sde_owner, det_path, res, *keep, what):
                    n_ok += 1
                    last = res
        sh.case = case
        sh.count("words", n_words)
        sh.nontriv()
        fin = None if last is None else np.round(np.asarray(last.value())[..., -1], 9).tolist()
        sh.outcome((cfg.drv, cfg.label, case["x0"], cfg.level, n_ok, fin))
        if case["x0"] in (0, None) and last is not None and cfg.drv != "cgmy12":
            sh.sample({"sub": "euler", "driver": cfg.drv, "coef": cfg.label, "level": cfg.level, "words": n_words,
                       "objects": [o[0] for o in cfg.objects], "driver_drifts": [mu.tolist() for mu in cfg.mus],
                       "last_word_final_value_minus_x0": fin})


def _sub_captured(sh, case):
    rng = ScriptedRNG()
    d = DRIVER_DIM[case["driver"]]
    c = case["coef"]
    # maturity as users choose it: the first tenor for the rate models; 2.5 for the direct Libor function so that steps start
    # beyond the first tenor as well; 1.0 otherwise
    maturity = float(c["tenors"][0]) if "tenors" in c else 1.0
    if c["kind"] == "libor-direct":
        maturity = 2.5
    with rng.active():
        cfg = _build(sh, case, maturity, warm=real_warm)
        if cfg is None:
            return
        sh.cls(f"captured:{cfg.label}:level={cfg.level}")
        n_ok = 0
        sizes = []
        for k in range(6):
            for (name, obj, simulate, seam_owner, seam_attr, det_path, sde_owner) in cfg.objects:
                orig = getattr(seam_owner, seam_attr)
                got = []

                def wrapper(_o=orig, _g=got):
                    p = _o()
                    _g.append((np.array(p.jump_times, dtype=float), np.array(p.diffusion_path, dtype=float),
                               np.array(p.jump_path, dtype=float)))
                    return p

                setattr(seam_owner, seam_attr, wrapper)
                what = f"{name} level {cfg.level}, driver {cfg.drv}, captured path {k}"
                try:
                    res = simulate()
                except Exception as e:
                    sh.count("evaluations")
                    tcls = time_class(cfg.c, got[0][0]) if got and got[0][0].size > 1 else "no-path"
                    sh.violation(cfg.key(name, "", f"raises-{type(e).__name__}", tcls) + ":captured", f"{what}: simulate raises {e!r}", None)
                    continue
                finally:
                    setattr(seam_owner, seam_attr, orig)
                if len(got) != 1:
                    sh.violation(cfg.key(name, "", "driver-path-not-consumed-exactly-once", "any") + ":captured",
                                 f"{what}: {len(got)} driver paths requested", None)
                    continue
                times, W, L = got[0]
                lay = expected_layout(cfg.coupled, cfg.d, times.size)
                if times.ndim != 1 or W.shape != lay or L.shape != lay:
                    sh.violation(f"C16:conformance:{name}:driver-path-layout-differs-from-scripted-words:driver-d={cfg.d}",
                                 f"{what}: real driver path has times {times.shape}, diffusion {W.shape}, jumps {L.shape}; the scripted "
                                 f"words use {lay}", None)
                    continue
                sizes.append(int(times.size))
                if cfg.compare(sh, name, obj.model, sde_owner, det_path, res, times, W, L, what):
                    n_ok += 1
        sh.nontriv()
        sh.count("captured_paths", len(sizes))
        sh.outcome((cfg.drv, cfg.label, cfg.level, n_ok, sizes))
        if cfg.drv == "hem":
            sh.sample({"sub": "captured", "driver": cfg.drv, "coef": cfg.label, "level": cfg.level, "path_lengths": sizes, "ok": n_ok})


# ---------------------------------------------------------------------------------------------------------------- df

def _rates(name, m):
    if name == "flat2":
        return [0.02] * m
    if name == "flat10":
        return [0.10] * m
    if name == "rising":
        return [round(0.01 * (k + 1), 10) for k in range(m)]
    if name == "one-zero":
        r = [0.02] * m
        r[1] = 0.0
        return r
    if name == "first-zero":
        r = [0.02] * m
        r[0] = 0.0
        return r
    raise ValueError(name)


def _df_model(case):
    from rpylib.model.levydrivensde.levydrivensde import LevyDrivenSDEModel
    from rpylib.model.levydrivensde.levyforwardmodel import LevyForwardModel
    from rpylib.model.levydrivensde.levylibormodel import LevyLiborModel
    from rpylib.model.model import ModelType
    from rpylib.model.utils import (create_clayton_copula, create_exponential_of_levy_model, create_levy_copula_model)

    name = case["model"]
    if name in ("LevyForwardModel", "LevyLiborModel"):
        tenors = list(case["tenors"])
        m = len(tenors) - 1
        d = DRIVER_DIM[case["driver"]]
        rates = _rates(case["rates"], m)
        if name == "LevyForwardModel":
            return LevyForwardModel(ois_rates=rates, tenors=tenors, sigma=_sigma(m, d), driver=make_driver(case["driver"])), tenors
        return LevyLiborModel(libor_rates=rates, tenors=tenors, sigma=_sigma(m, d), driver=make_driver(case["driver"])), tenors
    if name == "levy-hem":
        return make_driver("hem"), None
    if name == "levy-cgmy12":
        return make_driver("cgmy12"), None
    if name == "copula":
        return make_driver("cop-hem-vg"), None
    if name == "sde-plain":
        return LevyDrivenSDEModel(driver=make_driver("hem"), x0=1.0), None
    kind, r = name.split(":")
    r = float(r)
    if kind == "exp-hem":
        return create_exponential_of_levy_model(ModelType.HEM)(r=r, d=0.0), None
    if kind == "exp-cgmy12":
        return create_exponential_of_levy_model(ModelType.CGMY)(r=r, d=0.01, c=1.0, g=15.0, m=20.0, y=1.2), None
    if kind == "exp-bs":
        return create_exponential_of_levy_model(ModelType.BLACKSCHOLES)(r=r, d=0.0, sigma=0.2), None
    if kind == "exp-copula":
        ms = [create_exponential_of_levy_model(ModelType.HEM)(r=r, d=0.0), create_exponential_of_levy_model(ModelType.VG)(r=r, d=0.0)]
        return create_levy_copula_model(models=ms, copula=create_clayton_copula()), None
    raise ValueError(name)


def _where(t, tenors):
    """Position class of a time with respect to the tenors."""
    if tenors is None:
        return "no-tenors"
    T = [float(x) for x in tenors]
    eps = 2e-9
    for k, x in enumerate(T):
        if abs(t - x) <= eps:
            return "at-first-tenor" if k == 0 else ("at-last-tenor" if k == len(T) - 1 else "at-inner-tenor")
    if t < T[0]:
        return "before-first-tenor"
    return "between-tenors"


def _sub_df(sh, case):
    model, tenors = _df_model(case)
    cls = type(model).__name__
    sh.cls(f"df:{cls}")
    t_last = float(tenors[-1]) if tenors else 10.0
    mesh = {t_last * k / 400.0 for k in range(401)}
    if tenors:
        for T in tenors:
            for t in (T - 1e-9, float(T), T + 1e-9):
                if 0.0 <= t <= t_last:
                    mesh.add(float(t))
    mesh = sorted(mesh)
    vals = []
    for t in mesh:
        sh.count("evaluations")
        try:
            v = float(model.df(t))
        except Exception as e:
            sh.violation(f"C16:df:{cls}:raises-{type(e).__name__}:{_where(t, tenors)}", f"df({t!r}) raises {e!r} (tenors {tenors}, case {case})", None)
            v = math.nan
        vals.append(v)
        if not math.isnan(v) and not (math.isfinite(v) and v > 0.0):
            sh.violation(f"C16:df:{cls}:not-positive:{_where(t, tenors)}", f"df({t!r}) = {v!r}", None)
    v0 = vals[0]
    if not math.isnan(v0) and not core.close(v0, 1.0, rtol=1e-12):
        sh.violation(f"C16:df:{cls}:not-one-at-time-zero", f"df(0) = {v0!r}", None)
    for (t1, v1), (t2, v2) in zip(zip(mesh, vals), zip(mesh[1:], vals[1:])):
        if math.isnan(v1) or math.isnan(v2):
            continue
        sh.count("evaluations")
        if v2 > v1 + 4 * np.spacing(max(abs(v1), abs(v2))):
            w1, w2 = _where(t1, tenors), _where(t2, tenors)
            w = w1 if w1.startswith("at-") else w2
            sh.violation(f"C16:df:{cls}:increases:{w}", f"df({t1!r}) = {v1!r} < df({t2!r}) = {v2!r} (rates {case.get('rates')}, tenors {tenors})",
                         {"t1": t1, "t2": t2, "df1": v1, "df2": v2})
    if tenors:
        at = dict(zip(mesh, vals))
        for k, T in enumerate(tenors):
            T = float(T)
            for t in (T - 1e-9, T + 1e-9):
                if t in at and not math.isnan(at[t]) and not math.isnan(at[T]):
                    sh.count("evaluations")
                    if abs(at[t] - at[T]) > 1e-7:
                        side = "left" if t < T else "right"
                        sh.violation(f"C16:df:{cls}:discontinuous:{_where(T, tenors)}:{side}",
                                     f"df({t!r}) = {at[t]!r} but df({T!r}) = {at[T]!r} (rates {case.get('rates')}, tenors {tenors})",
                                     {"t": t, "T": T, "df_t": at[t], "df_T": at[T]})
    sh.nontriv()
    sh.outcome((case["model"], case.get("rates"), case.get("tenors"), [round(v, 12) for v in vals[::50] if not math.isnan(v)]))
    if case.get("rates") == "rising" and case.get("tenors") == [1, 2, 3]:
        sh.sample({"sub": "df", "model": cls, "rates": _rates("rising", 2), "tenors": tenors,
                   "df": {str(t): at[t] for t in (0.0, 0.5, 1.0 - 1e-9, 1.0, 1.0 + 1e-9, 2.0, 2.0 + 1e-9, 3.0) if t in at}})
