"""C07 - standard Monte-Carlo price, error and control-variate adjustment are textbook.

Mode      lattice sweep over complete runs of the REAL rpylib.montecarlo.standard.engine.Engine.price (real
          ConfigurationStandard, MCStatistics, MCPath, Product, Vanilla/Forward payoffs, ControlVariates), closed by the
          scripted duck-typed process of mc/c07_util.py which hands out a known list of paths and logs every call.

Space     N in {1,2,3,5,8} paths  x  ALL sequences of terminal spot values over the 3-letter alphabet A3 = (0.5, 1, 1.5)
          (3^N <= 6561)  x  payoff = call with scalar strike / vector of 2 / vector of 3 strikes (Vanilla with list strikes)
          x  controls in {none, 1r, 1a, 2r, 2a, 2u}  x  notional in {1, 2.5}  x  discount factor in {1, 0.9}
          x  spot statistics on/off;   nb_of_processes = 1 here, the multiprocessing branch is the sub "pool" below.
          Control kinds: the digit is the number of controls (forward; forward + call). 'r' = the given prices are real
          numbers, one per (scalar) control, as the ControlVariates signature allows; 'a' = the given prices are arrays with
          one entry per payoff component (for a vector payoff the controls have one strike per component, as in
          scripts/statistics/direct/direct.py); '2u' = forward + (S-1)^2 (PayoffOnTheFly), two controls that are exactly
          uncorrelated on samples symmetric about 1 while their covariance matrix is invertible.
          Additions beyond DESIGN section 6 (cheap, same oracle): alphabet A4 = (0.5, 1, 1.5, 2) for N <= 5 (4^N <= 1024), so
          that two controls plus an intercept do not interpolate the payoff; the LOG process representation for N <= 3.
          Sub "mixed" (both tiers): controls on an underlying TYPE different from the product's, in both directions - product on
          Spot with controls on LogSpot (1x: forward on log S; 2x: forward on S + call on log S), product on LogSpot with
          controls on Spot (1x: forward on S; 2x: forward on log S + call on S), product on Mean with controls on Spot /
          LogSpot (1x: forward on S; 2x: forward on S + forward on log S) - scalar and 2-vector strikes, notional {1, 2.5},
          df 0.9, spot statistics on, N <= 5, all A3 sequences, and the sequences of representations (identity), (log),
          (identity, log), (log, identity), (log, log): the SAME product / ControlVariates objects are priced by successive
          fresh engines, so that a control's value function captured at the wrong moment (before or without
          Underlying.update) is seen in the stored control rows, which are compared with the control payoffs of the SPOT path.
          Small-notional controls (both tiers): control kinds 1t (forward with notional 1e-7) and 2t (forward with notional
          1e-3 + call with notional 1e-6), payoff s / v2, notional {1, 2.5}, df 0.9, A3 with N <= 5 and A4 with N in {3, 5}: the
          regression coefficient does not depend on the scale of a control, so the full regression oracle applies; the
          reference divides every centred control column by its own norm before the SVD / least-squares solve, and the
          comparison tolerance is max(1e-9, 16 eps cond(Sigma_X of the raw samples)) (forward error of any covariance route).
          Path-dependent payoffs (both tiers): Barrier call, the four types (up 1.25 / down 0.75, strike 0.25), over the alphabet
          B9 of (spot at T/2, terminal spot) pairs {1, 2, 0.25} x {0.5, 1, 1.5} - the value at T/2 crosses up, down or not at
          all, the terminal values 1.5 / 0.5 cross on their own, the path starts at spot 1 - N <= 3 (9^N <= 729), controls
          none / 1a, spot statistics on/off, both representations; rows compared with the reference payoff of the whole path.
          Rarely used options (both tiers): configuration seed = 7, the variance-reduction flag RICHARDSONEXTRAPOLATION (accepted
          by the standard engine, must change nothing), a model WITHOUT a theoretical density (spot rows must still be stored
          when spot statistics are on), and the three together - N <= 3, all A3 sequences, every payoff / control kind, on the
          two corners (notional 2.5, df 0.9, spot on) and (notional 1, df 1, spot off). Key label `options-<names>`.
          Sub "history" (both tiers): ONE Engine object (one ConfigurationStandard, one scripted process re-loaded with a new
          script) priced two or three times; EVERY pricing is judged with the complete oracle above against its own script and
          its own configured number of paths, and every MCStatistics object handed out earlier in the history is read again
          after every later pricing (its figures must still be those of its own pricing). Numbers of paths from {1,2,3,5}:
          all ordered pairs / triples (fewer, same, more). Between two pricings configuration.mc_paths is set and one
          operation of the menu is applied:
            plain     nothing else;
            other     a second, completely separate engine (own configuration, process, product, controls; 4 paths, its own
                      script) is priced in between and judged too (leaks through class attributes, shared default arguments,
                      module-level state);
            deepcopy  the history goes on with copy.deepcopy(engine);
            fork      a deep copy of the engine is priced in between (4 paths, same product object, judged too) and the
                      ORIGINAL goes on.
          The same Product / ControlVariates objects are priced again when a later pricing has the same payoff / controls.
          (a) "paths": the same configuration re-priced - payoff s / v2, controls none / 1a / 2a, spot statistics on / off,
              notional 2.5, df 0.9; all four operations in the identity representation, `plain` in the LOG representation
              (these also carry seed = 7 and the variance-reduction flag); pairs (N1, N2); the first pricing runs the fixed
              script A4 cycled from offset k (k = position of the pricing; contains the letter 2.0 which is not in A3), the
              last pricing runs ALL A3 sequences for N2 <= 3 and, for N2 = 5, the 27 sequences starting with (0.5, 1.5)
              (thorough: all 243 for `plain`/identity; payoff v3 and every control kind as well).
          (b) "paths3": three pricings of the same configuration, triples (N1, N2, N3), operations (plain, plain) (thorough:
              all 16 pairs of operations on the quick configurations); last pricing: all A3 sequences for N3 <= 2, the fixed
              script for N3 in {3, 5}.
          (c) "config": the configuration changes between two pricings of one engine (`plain`): every ordered pair of
              different (payoff, controls, spot statistics) configurations of (a) - configuration.control_variates /
              activate_spot_statistics re-assigned, another product priced - and, on every configuration, every ordered pair of
              different (notional, df) in {(2.5, .9), (1, .9), (2.5, 1)} (another product object / another discount factor
              of the process); and the TYPE of the product's underlying changes - scalar call on Spot / LogSpot / Mean, all
              ordered pairs, both representations - while the SAME ControlVariates object (1a, 2a: controls on Spot) stays in
              the configuration; all pairs (N1, N2); fixed scripts (thorough: all A3 sequences for N2 <= 2).
          (d) "pool": the pool branch on ONE engine (simulated pool, see sub "pool"): payoff s / v2, controls none / 2a, spot
              statistics on / off (thorough: the configurations of (a)); chains of nb_of_processes (first, second pricing) and
              operation: (2,2) (3,3) (None,None) plain; (2,2) deepcopy; (3,3) dill; (None,None) fork; (2,2) other; nb_of_processes
              re-assigned between the pricings (1,2) (2,1) (2,3) (3,None) (None,1) plain, (1,3) deepcopy, (1,2) dill; all pairs
              (N1, N2); last pricing: all A3 sequences for N2 <= 2, the fixed script for N2 in {3, 5}.
          (e) copies: operations copy (copy.copy(engine) goes on), dill (a dill round trip of the engine goes on),
              deepcopy-objects / dill-objects (the same engine goes on with a deep copy / a dill round trip of the Product and of
              the ControlVariates object) on the configurations of (a), identity representation, all pairs (N1, N2); last
              pricing as in (d) (thorough: as in (a)).
          Keys of this sub end with `history:<rep>:<first-pricing | re-pricing-with-{fewer,same-number-of,more}-paths:
          {same-configuration | changed-<fields>}:after-<operation> | side-engine-{other,fork}>`; the re-read sub-check reports
          `C07:history:result-of-earlier-pricing-changed-by-later-pricing:<earlier>:then:<later>`.
          (a pricing in the pool branch appends `:pool-<2|3|cpu-count>-workers:<fewer-paths-than-workers |
          paths-not-multiple-of-workers | paths-multiple-of-workers>` to its label.)
          Sub "pool" (both tiers): the multiprocessing branch of Engine.price, nb_of_processes in {2, 3, None}. The engine's
          module sees mc/c07_util.SimPool instead of pathos.multiprocessing (same model as the SimPool of C08, which is
          validated there against the real pool: `processes` workers, None = the 4 cpus of the simulated machine, also answered
          by the stand-in's cpu_count(); initializer once per worker; map_async / map / imap cut the items into chunks of
          ceil(len / (4 workers)); EVERY chunk works on its own dill round-trip copy of the task; results in item order, the
          callback once in the parent). The dill copies of the scripted process share the call counter of the original through
          a uid registry, so the script's paths are handed out one after the other, each once, and the number of calls is
          observed. Numbers of paths smaller than the number of workers, not a multiple of it, a multiple of it, and beyond
          4 x workers (chunks of several items): N in {1,2,3} with all A3 sequences on the full lattice (payoff x controls x
          notional x df x spot statistics); on the sub-lattice (2.5, 0.9, spot on) also N = 5 (the 27 sequences starting with
          (0.5, 1.5); thorough: all 243, full lattice), the fixed scripts (A4 cycled) of 8, 13, 17, 33 paths, and the LOG
          representation for N <= 3; the three rare options together (3 workers, N <= 3, the two corners); the four barrier
          payoffs over B9 (N <= 2, controls 1a, 2 workers; thorough: 2, 3, None). Which task index a worker's path is stored
          at is the pool's business: the stored rows are first matched with the paths handed out (row i must hold payoff,
          controls and spot of ONE path, every path used once - on the built-against tree the order is the task order,
          counted `pool_rows_in_task_order`), then the complete oracle applies. Two cases run the REAL pathos pool
          ((2 workers, 5 paths), (3 workers, 2 paths)) on a constant script (the worker processes cannot share the script's
          position; the number of calls is then not observable). If the engine's module has no attribute `mp` to replace,
          the pool cases are a cap, not an alarm.
          Argument forms (both tiers, sub "sweep"/"pool" with `forms`, key label `forms-<names>` / `options-<names>`): the same
          values handed over in another legal form, judged by the complete oracle: strikes as tuple / ndarray / numpy
          scalars / Python ints / integer array (payoffs si = call strike 1, vi2 = strikes (0, 1)) / one-element list for a
          scalar; notional as int / numpy scalar (product and controls); given prices as tuple / list of lists / 2-d array /
          1-d array of reals / numpy scalars; products as tuple; mc_paths / nb_of_processes as numpy integers; price(product=...)
          by keyword; and three combinations of them with one and with three processes - N <= 3 all A3 sequences, N = 5 the 27
          sequences (thorough: 243). Forms the built-against tree rejects are outside: strikes of shape (1, n) or 0-d, mc_paths
          as a float, 0-d prices. A constructor that raises on a listed form is reported as `C07:engine:construction-raises:...`.
          Caller's arrays (every pricing of every sub): the strikes of the product and of the controls and the given prices are
          copied before Engine.price and compared after it (`C07:inputs:argument-array-modified-by-pricing:<which>`).
          Accumulation (both tiers): fixed scripts of 257 and 1000 paths, payoff v2, controls none / 2a, 1 and 3 processes.
          Long scripts (both tiers; beyond the row-count thresholds of the statistics helpers): 65536 + 1 and 65536 + 4465 =
          70001 paths (thorough also 32769, 65536, 131073), a fixed non-periodic script over A4, single process, payoff v2 with
          controls 2a and payoff s without controls; complete oracle (rows, raw price / error, regression adjustment against
          math.fsum references); one run each (no determinism re-run). Key label `at-most-65536-paths` /
          `more-than-65536-paths:<multiple-of-65536 | not-a-multiple-of-65536>`.
          Ragged time grids (both tiers; label `ragged-grids`): every path brings its OWN dates, as the jump-adapted grids of
          products with stochastic dates do - same number of dates and same end points as its neighbours, other interior dates.
          A ragged letter is (grid, spots at the dates of the grid after the first), the path starts at spot 1; grids
          q = (0, 1/4, 1), h = (0, 1/2, 1), t = (0, 3/4, 1), qh, ht, qt (four dates), e = (0, 1). The deterministic part of the
          scripted process is x0 + drift t with x0 = 0.5, drift 0.75 (non-zero at 0, time dependent; the other cases use the line
          0.25 t). Payoffs that read the interior dates - the four barriers, calls on the Asian underlying (scalar strike `as`,
          two strikes `av2`; the library's own definition: sum of spot(t_i)(t_i - t_{i-1}) / T) - next to the call on the spot;
          the reference values every path on its own dates, path by path. Enumerated: alphabet R27 = {q, h, t} x B9, ALL sequences
          for N <= 2 (thorough: N = 3 for as / b-uo / b-di), controls none / 1a, spot statistics on / off, identity (log: controls
          1a; thorough both). Fixed ragged scripts over all seven grids (7, 13, 33 paths; neighbours of equal length are different
          grids; lengths 2, 3, 4 alternate): payoffs as / av2 / b-uo / b-di (thorough: all), controls none / 2a, one process in both
          representations and the pool branch with 2 and 3 workers. History kind "ragged" (f): ONE engine priced twice on ragged
          scripts (the k-th pricing starts the cycle of grids at position k), operations plain / other / deepcopy / fork / dill
          (thorough: all copies), identity and log, all pairs (N1, N2), same payoff, and the payoff changed between the pricings
          (as / b-uo / s, same ControlVariates object).
          Path-dependent CONTROLS (both tiers): control kinds 1b (up-and-out barrier call on Spot), 2b (forward + down-and-in
          barrier call), 2c (up-and-in + down-and-out), strike 0.875, barriers 1.25 / 0.75, given price 0.25 - for products on
          Spot (s, v2, b-uo, b-di: the control's underlying is IMPLIED from the product's and never computed from the path) and
          for the Asian product (computed from the path); the stored control rows are compared row by row with the control
          product valued on its own on the same scripted path, then the complete regression oracle applies. All B9 sequences
          for N <= 2 in both representations (N = 3: s / b-di with 1b / 2b, identity; thorough everything and b-ui / b-do / av2),
          all R27 sequences for N = 1 (N = 2: s / as with 2b; thorough all), the fixed ragged scripts (payoffs s / v2 / as / b-uo,
          controls 2b / 2c, one process in both representations and 2 workers), the pool branch over B9 (N <= 2), and ragged
          histories (f): same configuration re-priced (s / b-uo with 2b; plain / deepcopy / dill / deepcopy-objects, log plain) and
          the product changed among as / b-uo / s while the SAME ControlVariates object (2b, 2c) stays in the configuration.
          Products on the DEFAULT TIME (both tiers; label `ragged-grids`): the underlying DefaultTime(-0.25) reads the PURE-JUMP
          component handed over by MCPath next to the path value. Payoffs cds (the library's CDS payoff, discounting
          exp(-0.0625 t), recovery 0.375, spread 0.046875; the reference writes the documented formula out), dput / dpv2
          (put(s) on the default time); controls none / 1d (put on the default time, strike 0.875: implied) / 2d (forward on
          Spot, computed from the path, + that put). A default-time letter is (grid, diffusion increments, log-jump
          increments) with BOTH components moving: per interval (log-jump, diffusion) in {(0, .25), (0, -.5), (-.5, .5),
          (-.125, -.5)} - a Brownian move below the threshold must not default, a jump below the threshold compensated by
          the diffusion must, a jump above it pushed below by the diffusion must not; the reference finds the default time
          from the scripted log-jump increments ALONE. Alphabet D32 = {q, t} x 4 x 4: all sequences for N = 1 (every payoff /
          control kind, both representations; in the identity representation the jump component is exp(log-jump sums)) and
          for N = 2 on (cds, none), (dput, 2d), (dpv2, 1d) (thorough: all); fixed scripts of 7, 13, 29 paths over grids of 2, 3
          and 4 dates, one process in both representations and 2 workers; history kind "default" (g): one engine priced twice
          (plain / deepcopy / dill in log, plain in identity; cds <-> dput with the same controls), all pairs (N1, N2).
          Simulated path objects (every pricing of every sub): the times / diffusion / jump arrays of every path object handed
          out by the scripted process (first 4096 of a pricing) are copied when handed out and compared after Engine.price
          (`C07:inputs:simulated-path-modified-by-pricing:<component>-component`): the engine reads value() and value_jump()
          of the same object, so neither may be computed in place.
          Signs and conditioning (both tiers): the product is a forward (`f`, payoff of both signs) or a strip of puts (`pv2`),
          (notional, df) in {(2.5, .9), (-2.5, .9), (2.5, 1.0625), (-1, 1.0625)} (short positions - the controls then have the
          negative notional too - and discount factors above 1) for payoffs f / pv2 / s / v2, controls none / 1a / 2a, N <= 3 all
          A3 sequences, N = 5 the 27 sequences (thorough 243); the narrow alphabet N3 = 1024 + (0, 2^-10, 2^-9) (|mean| / standard
          deviation about 1e6), payoffs s / v2, controls none / 1a, N in {2, 3, 5}: the raw error must agree to 1e-7 of ITSELF
          (a two-pass standard deviation is accurate to eps |mean| / std, a one-pass one only to eps (mean / std)^2).
          Second public routes (every pricing): price(True) / price(False) / mc_stddev(True) / mc_stddev(False) (flag given
          positionally) and get_mean() / get_mean(no_control_variates=True) must equal the usual keyword calls
          (`C07:routes:<route>:differs-from-the-keyword-form`); a missing get_mean is not an alarm.
          quick = the full lattice for N <= 5 on A3 (and LOG for N <= 3), A4 for N <= 3 in full and N = 5 on the sub-lattice
          notional 2.5 / df 0.9 / spot on, N = 8 on that sub-lattice for payoff s, v2 and controls none, 1a, 2a;
          thorough = everything (N = 8 and A4 with N = 5 on the full lattice).

Oracle    (pure-Python reference, math.fsum; least squares by SVD - independent of the library's covariance/inverse route)
  calls   simulate_one_path is called exactly N times;
  rows    stored payoff row i = (notional*payoff(path_i))*df for i = 0..N-1 in order, exactly N rows; same for the control
          rows; spot row i = terminal spot of path i when spot statistics are activated;
  price   price(no_control_variates=True) = arithmetic mean of the rows, one value per payoff component;
          without controls price() is the same number;
  error   mc_stddev(no_control_variates=True) = unbiased sample standard deviation / sqrt(N) PER payoff component (N >= 2);
  cv      per payoff component, with Xc the centred control samples:
          * Xc well conditioned (smallest/largest singular value >= 1e-3): price() = mean of Y - b*(X - price_X) with b* the
            least-squares coefficient, adjusted rows and mc_stddev() likewise; hence price() = raw mean whenever
            mean(X) = price_X (counted separately), and sample variance(adjusted) <= variance(raw) + slack;
          * Xc rank deficient (ratio <= 1e-9: constant control, N = 1, N = 2 with two controls, two-letter sample with two
            controls): the regression coefficient is not unique and the statement does not say which one to take, so only
            the consequences that hold for every admissible choice are asserted: the adjusted rows are Y - b(X - price_X) for
            SOME b, price()/mc_stddev() are the mean / standard error of those rows, variance(adjusted) <= variance(raw)
            + slack, price() = raw mean when mean(X) = price_X. (b = 0, the library's documented fall-back, passes; so does
            the minimum-norm solution of the normal equations.)
          * in between: counted as oracle_inconclusive (does not occur on these alphabets).

Findings on the tree this module was built against (reproducers and proposed patches are in the builder's report):
  ...:mc_stddev:...:divided-by-sqrt-of-N-times-dimension:dim2|dim3        tools.mc_stddev divides by sqrt(array size)
  C07:engine:price-raises:IndexError:1r|2r:dim2|dim3 and
  ...:cv:adjustment:...:real-given-prices-indexed-by-payoff-component:2r   compute_coefficients reads real given prices with
                                                                           the payoff-component index: the 2nd control is
                                                                           centred on the 1st control's price / IndexError
  ...:cv:adjustment:...:controls-dropped-because-two-controls-are-uncorrelated:2u   the 1e-12 test is on ALL entries of Sigma_X
  ...:cv:variance:adjusted-sample-variance-exceeds-raw:rank-deficient:*    inverse of a numerically singular Sigma_X (controls
                                                                           collinear on the sample) when inv() does not raise

Outside the statement / alphabet (not asserted): histories with path-dependent payoffs on the COMMON grid (the ragged
histories (f) carry the barrier and Asian payoffs) or with a change of the
process / representation on one engine (the sub "mixed" re-uses product and controls across representations with fresh
engines); direct calls of Engine.initialisation; mc_stddev for N = 1 (the unbiased standard deviation does not exist);
which coefficient is taken when the controls' sample covariance is singular; controls whose variance is below the
library's absolute 1e-12 threshold although the matrix is invertible (needs payoffs of size 1e-6: not in the notional
alphabet; mentioned in the report); get_variance(); antithetic sampling (raises NotImplementedError); the random streams of
the worker processes (C08); path-dependent controls on NthSpot for a multi-asset Spot product (the scripted process is
one-dimensional; Barrier.process raises on a 2-d path on the built-against tree); exact ties log-jump increment = threshold
(the definition of the default event, C17 / C19); mc_paths = 0 (mean of an empty sample); strike / price arrays modified by the CALLER after the
construction (Vanilla, Forward and ControlVariates keep a reference to what they are given: public attributes, re-assignable,
the statement promises nothing); exact ties spot = barrier (whether touching is crossing is the payoff's definition, C17);
the definition of the Asian average itself (the reference takes the library's documented time-weighted sum over the dates of
the path, C17's subject); long scripts in the pool branch (the statistics helpers do not know the route the rows came by).
Tolerances: rows rtol 1e-12 (same arithmetic); means / errors / adjusted values |x-y| <= 1e-9*scale + 1e-12*scale with
scale = max(|notional|*df, largest |sample|) - for the raw error min(1e-9*scale, 1e-7*reference error) + 1e-12*scale; variance inequality slack 1e-10*scale^2 (rounding of the adjusted rows with
cond(Sigma_X) <= 1e6; a wrong coefficient changes the variance at order scale^2).
"""
from __future__ import annotations

import copy
import math
import warnings

import numpy as np

from mc import core
from mc import c07_util as U

PID = "C07"
LEVEL = "exploration"
RULE = (
    "complete product of the stated lattice (N, alphabet, payoff dimension, control kind, notional, discount factor, spot "
    "statistics, representation) x every sequence of terminal values over the alphabet; one evaluation = one complete run of "
    "the real Engine.price on a fresh engine compared with the pure-Python reference; sub 'history': complete product of "
    "(configuration chain, operation menu, ordered tuples of path numbers from {1,2,3,5}) x every A3 sequence of the last "
    "pricing in the stated range, every pricing on the ONE re-used engine judged by the same reference and every earlier "
    "result object re-read; sub 'pool': complete product of (nb_of_processes in {2,3,None}, configuration lattice, N) x every A3 "
    "sequence in the stated range plus the stated fixed scripts; ragged grids: complete product of (payoff, controls, spot "
    "statistics, representation) x every sequence over R27 for N <= 2 plus the stated fixed ragged scripts and histories; long "
    "scripts of 65536 + k paths; signs / narrow alphabet: the stated lattice x every sequence; argument forms: every listed form x its configurations x the "
    "same sequences; a case (block of consecutive "
    "sequences of one configuration) is non-trivial when at least one of its runs had two different terminal values; "
    "distinct = distinct case dict"
)
ASSUMPTIONS = [
    "the process is a scripted stand-in (mc/c07_util.py) implementing the interface the standard engine uses; engine, "
    "configuration, statistics, path manager, product, payoffs and control variates are the real ones",
    "the multiprocessing branch is closed by a simulated pool (mc/c07_util.SimPool: the chunking and per-chunk dill copies of "
    "multiprocess.Pool, deterministic, in this process; the same model is validated against the real pool by C08's conformance "
    "sub-check); two cases run the real pathos pool on a constant script",
    "sub 'history': the MCStatistics object returned by a pricing is taken to be the report of THAT pricing (no 'valid until "
    "the next price() call' clause in the statement), so it must read the same after later pricings",
    "stored rows are read from MCStatistics._payoff_statistics / _control_variates_statistics / "
    "_payoff_statistics_with_cv / _spot_underlying_statistics (.stats); if an attribute is missing the row sub-checks are "
    "skipped and counted, the public price()/mc_stddev() sub-checks remain",
    "when the controls' sample covariance is singular only the coefficient-independent consequences are asserted",
]
CHUNK = 1
BLOCK = 729

WELL = 1e-3
DEFICIENT = 1e-9

MIXED_PAYOFFS = ("s", "v2", "ls", "lv2", "m", "mv2")  # product on Spot / LogSpot / Mean
MIXED_REPS = (("identity",), ("log",), ("identity", "log"), ("log", "identity"), ("log", "log"))


# ----------------------------------------------------------------------------------------------------------------------
# the space
# ----------------------------------------------------------------------------------------------------------------------

def _configs():
    out = []
    for payoff in ("s", "v2", "v3"):
        for cv in U.CV_KINDS:
            for notional in (1.0, 2.5):
                for df in (1.0, 0.9):
                    for spot in (0, 1):
                        out.append({"payoff": payoff, "cv": cv, "notional": notional, "df": df, "spot": spot})
    return out


def _blocks(n, base):
    total = base ** n
    return [(lo, min(total, lo + BLOCK)) for lo in range(0, total, BLOCK)]


def cases(tier):
    thorough = tier == "thorough"
    out = []
    confs = _configs()
    # simplest first: N ascending
    for n in (1, 2, 3, 5):
        for c in confs:
            for lo, hi in _blocks(n, 3):
                out.append(dict(c, sub="sweep", alphabet="A3", rep="identity", N=n, lo=lo, hi=hi))
    for n in (1, 2, 3):
        for c in confs:
            out.append(dict(c, sub="sweep", alphabet="A3", rep="log", N=n, lo=0, hi=3 ** n))
    def sub_lattice(c):
        return c["notional"] == 2.5 and c["df"] == 0.9 and c["spot"] == 1

    for n in (1, 2, 3, 5):
        for c in confs:
            if n == 5 and not thorough and not sub_lattice(c):
                continue
            for lo, hi in _blocks(n, 4):
                out.append(dict(c, sub="sweep", alphabet="A4", rep="identity", N=n, lo=lo, hi=hi))
    # controls on an underlying type different from the product's (both directions), both representations, and the same
    # product / controls objects priced a second time by a second engine (after a first pricing in either representation)
    for n in (1, 2, 3, 5):
        for payoff in MIXED_PAYOFFS:
            for cv in U.CROSS_CV_KINDS:
                for notional in (1.0, 2.5):
                    for reps in MIXED_REPS:
                        out.append({"sub": "mixed", "payoff": payoff, "cv": cv, "notional": notional, "df": 0.9, "spot": 1,
                                    "alphabet": "A3", "reps": list(reps), "N": n, "lo": 0, "hi": 3 ** n})
    # control products with small notionals (1e-7; the pair 1e-3 / 1e-6): the regression coefficient does not depend on the
    # scale of a control, so the full regression oracle applies (scale-invariant reference solve)
    for alphabet, ns in (("A3", (1, 2, 3, 5)), ("A4", (3, 5))):
        for n in ns:
            for payoff in ("s", "v2"):
                for cv in U.TINY_CV_KINDS:
                    for notional in (1.0, 2.5):
                        for lo, hi in _blocks(n, len(U.ALPHABETS[alphabet])):
                            out.append({"sub": "sweep", "payoff": payoff, "cv": cv, "notional": notional, "df": 0.9, "spot": 1,
                                        "alphabet": alphabet, "rep": "identity", "N": n, "lo": lo, "hi": hi})
    # path-dependent payoffs: the four barrier types; letters are (spot at T/2, terminal spot) pairs, the stored rows are
    # compared with the reference payoff of each WHOLE path; spot statistics on/off, both representations
    for n in (1, 2, 3):
        for payoff in U.BARRIER_KINDS:
            for cv in ("none", "1a"):
                for spot in (0, 1):
                    for rep in ("identity", "log"):
                        for lo, hi in _blocks(n, 9):
                            out.append({"sub": "sweep", "payoff": payoff, "cv": cv, "notional": 2.5, "df": 0.9, "spot": spot,
                                        "alphabet": "B9", "rep": rep, "N": n, "lo": lo, "hi": hi})
    # rarely used options of the configuration / the model: a seed, a variance-reduction flag the standard engine accepts
    # (Richardson extrapolation), a model without a theoretical density under activated spot statistics
    for n in (1, 2, 3):
        for c in confs:
            if sub_lattice(c) or (c["notional"] == 1.0 and c["df"] == 1.0 and c["spot"] == 0):
                for opt in ({"seed": 7}, {"vr": 1}, {"nodensity": 1}, {"seed": 7, "vr": 1, "nodensity": 1}):
                    out.append(dict(c, sub="sweep", alphabet="A3", rep="identity", N=n, lo=0, hi=3 ** n, **opt))
    out.extend(_ragged_cases(thorough))
    out.extend(_path_control_cases(thorough))
    out.extend(_default_time_cases(thorough))
    out.extend(_signed_and_narrow_cases(thorough))
    out.extend(_pool_cases(thorough, confs, sub_lattice))
    out.extend(_forms_cases(thorough))
    out.extend(_history_cases(thorough))
    for c in confs:
        if not thorough and not (sub_lattice(c) and c["payoff"] in ("s", "v2") and c["cv"] in ("none", "1a", "2a")):
            continue
        for lo, hi in _blocks(8, 3):
            out.append(dict(c, sub="sweep", alphabet="A3", rep="identity", N=8, lo=lo, hi=hi))
    return out


RAGGED_SCRIPT_NS = (7, 13, 33)  # fixed ragged scripts (grids of 2, 3 and 4 dates; the cycle of grids has length 10)
LONG_SCRIPT_NS = (65537, 70001)  # one path / 4465 paths beyond 65536 rows
LONG_SCRIPT_NS_THOROUGH = (32769, 65536, 131073)


def _ragged_cases(thorough):
    """Ragged time grids: every path on its own dates (same number of dates and same end points as its neighbours, other
    interior dates), a deterministic part x0 + drift t with x0 = 0.5 and drift 0.75, and payoffs that read the interior
    dates (the four barriers, calls on the Asian underlying) next to one that does not (call on the spot)."""
    out = []
    base = {"sub": "sweep", "notional": 2.5, "df": 0.9, "alphabet": "R27", "det": list(U.RAGGED_DET)}
    payoffs = U.BARRIER_KINDS + U.ASIAN_KINDS + ("s",)
    for n in (1, 2):  # all sequences over the 27 letters (3 grids x 3 interior spots x 3 terminal spots)
        for rep in ("identity", "log"):
            for payoff in payoffs:
                for cv in ("none", "1a"):
                    if rep == "log" and cv == "none" and not thorough:
                        continue
                    for spot in (0, 1):
                        for lo, hi in _blocks(n, 27):
                            out.append(dict(base, payoff=payoff, cv=cv, spot=spot, rep=rep, N=n, lo=lo, hi=hi))
    if thorough:
        for payoff in ("as", "b-uo", "b-di"):
            for lo, hi in _blocks(3, 27):
                out.append(dict(base, payoff=payoff, cv="none", spot=1, rep="identity", N=3, lo=lo, hi=hi))
    # fixed ragged scripts over all seven grids, single process and the pool branch
    for n in RAGGED_SCRIPT_NS:
        for payoff in (payoffs if thorough else ("as", "av2", "b-uo", "b-di")):
            for cv in ("none", "2a"):
                for procs, rep in ((1, "identity"), (1, "log"), (2, "identity"), (3, "identity")) + (((0, "identity"), (3, "log")) if thorough else ()):
                    c = dict(base, sub="pool" if procs != 1 else "sweep", payoff=payoff, cv=cv, spot=1, rep=rep, script="ragged", N=n, lo=0, hi=1)
                    out.append(dict(c, procs=procs) if procs != 1 else c)
    return out


def _path_control_cases(thorough):
    """PATH-DEPENDENT controls (barrier calls on Spot): for products on Spot - vanilla, vector of strikes, barrier - the
    control's underlying is implied from the product's, for the Asian product it is computed from the path; the stored control
    rows are compared, row by row, with the control product valued on its own on the same scripted path."""
    out = []
    base = {"notional": 2.5, "df": 0.9}
    for n in (1, 2, 3):  # all sequences over B9 (common grid)
        for payoff in ("s", "v2", "b-uo", "b-di", "as") + (("b-ui", "b-do", "av2") if thorough else ()):
            for cv in U.PATH_CV_KINDS:
                for rep in ("identity", "log"):
                    for spot in (0, 1):
                        if n == 3 and not thorough and not (payoff in ("s", "b-di") and rep == "identity" and spot == 1 and cv != "2c"):
                            continue
                        if spot == 0 and not thorough and not (payoff == "s" and cv == "2b"):
                            continue
                        for lo, hi in _blocks(n, 9):
                            out.append(dict(base, sub="sweep", payoff=payoff, cv=cv, spot=spot, alphabet="B9", rep=rep, N=n, lo=lo, hi=hi))
    rag = dict(base, alphabet="R27", det=list(U.RAGGED_DET), spot=1)
    for n in (1, 2):  # ragged grids: all sequences over R27
        for payoff in ("s", "as", "b-uo"):
            for cv in ("1b", "2b"):
                for rep in ("identity", "log"):
                    if n == 2 and not thorough and not (rep == "identity" and cv == "2b" and payoff != "b-uo"):
                        continue
                    for lo, hi in _blocks(n, 27):
                        out.append(dict(rag, sub="sweep", payoff=payoff, cv=cv, rep=rep, N=n, lo=lo, hi=hi))
    for n in RAGGED_SCRIPT_NS:  # fixed ragged scripts, single process and the pool branch
        for payoff in ("s", "v2", "as", "b-uo"):
            for cv in (U.PATH_CV_KINDS if thorough else ("2b", "2c")):
                for procs, rep in ((1, "identity"), (1, "log"), (2, "identity")) + (((3, "log"), (0, "identity")) if thorough else ()):
                    c = dict(rag, sub="pool" if procs != 1 else "sweep", payoff=payoff, cv=cv, rep=rep, script="ragged", N=n, lo=0, hi=1)
                    out.append(dict(c, procs=procs) if procs != 1 else c)
    for n in (1, 2):  # the pool branch over B9
        for payoff in ("s", "b-di"):
            for procs in (POOL_PROCS if thorough else (2,)):
                out.append(dict(base, sub="pool", procs=procs, payoff=payoff, cv="2b", spot=1, alphabet="B9", rep="identity", N=n, lo=0, hi=9 ** n))
    return out


DEFAULT_SCRIPT_NS = (7, 13, 29)


def _default_time_cases(thorough):
    """Products on the default time (CDS payoff, puts on the default time), which reads the PURE-JUMP component of the path,
    on scripted paths whose diffusion AND jump components both move (alphabet D32 / fixed scripts, see mc/c07_util.py); the
    reference finds the default time from the scripted log-jump increments alone."""
    out = []
    base = {"notional": 2.5, "df": 0.9, "det": list(U.RAGGED_DET)}
    for n in (1, 2):  # all sequences over D32 (32^2 = 1024)
        for payoff in U.DEFAULT_KINDS:
            for cv in ("none",) + U.DEFAULT_CV_KINDS:
                for rep in ("log", "identity"):
                    for spot in (0, 1):
                        if not thorough and n == 2 and not ((payoff, cv) in (("cds", "none"), ("dput", "2d"), ("dpv2", "1d")) and spot == 1):
                            continue
                        if not thorough and spot == 0 and cv != "none":
                            continue
                        for lo, hi in _blocks(n, 32):
                            out.append(dict(base, sub="sweep", payoff=payoff, cv=cv, spot=spot, alphabet="D32", rep=rep, N=n, lo=lo, hi=hi))
    for n in DEFAULT_SCRIPT_NS:  # fixed scripts over grids of 2, 3 and 4 dates, single process and the pool branch
        for payoff in U.DEFAULT_KINDS:
            for cv in ("none", "2d"):
                for procs, rep in ((1, "log"), (1, "identity"), (2, "log")) + (((3, "identity"), (0, "log")) if thorough else ()):
                    c = dict(base, sub="pool" if procs != 1 else "sweep", payoff=payoff, cv=cv, spot=1, alphabet="D32", rep=rep, script="default", N=n, lo=0, hi=1)
                    out.append(dict(c, procs=procs) if procs != 1 else c)
    return out


SIGNED = ((2.5, 0.9), (-2.5, 0.9), (2.5, 1.0625), (-1.0, 1.0625))  # (notional, discount factor): short positions, negative rates


def _signed_and_narrow_cases(thorough):
    """Payoffs of both signs (a forward as the product, puts), negative notionals (of the product and of the controls) and
    discount factors above 1; and the narrow alphabet N3 (|mean| / standard deviation about 1e6)."""
    out = []
    for n in (1, 2, 3, 5):
        for payoff in ("f", "pv2", "s", "v2"):
            for cv in ("none", "1a", "2a"):
                for nt, df in SIGNED:
                    if (nt, df) == (2.5, 0.9) and payoff in ("s", "v2"):
                        continue  # in the main lattice
                    lo, hi = (0, 3 ** n) if (n < 5 or thorough) else (54, 81)
                    out.append({"sub": "sweep", "payoff": payoff, "cv": cv, "notional": nt, "df": df, "spot": 1, "alphabet": "A3",
                                "rep": "identity", "N": n, "lo": lo, "hi": hi, "signed": 1})
    for n in (2, 3, 5):
        for payoff in ("s", "v2"):
            for cv in ("none", "1a"):
                lo, hi = (0, 3 ** n) if (n < 5 or thorough) else (54, 81)
                out.append({"sub": "sweep", "payoff": payoff, "cv": cv, "notional": 2.5, "df": 0.9, "spot": 1, "alphabet": "N3",
                            "rep": "identity", "N": n, "lo": lo, "hi": hi})
    return out


POOL_PROCS = (2, 3, 0)  # nb_of_processes of the pool branch; 0 stands for None = one worker per cpu (U.SIM_CPUS = 4)
POOL_SCRIPT_NS = (8, 13, 17, 33)  # fixed scripts: multiples of 2 / 4 only, of none, beyond 4 x workers (chunks of 2 and 3 items)


def _pool_cases(thorough, confs, sub_lattice):
    """Sub 'pool': the multiprocessing branch of Engine.price (nb_of_processes 2, 3, None) closed by the simulated pool of
    mc/c07_util.py; numbers of paths smaller than / not a multiple of / a multiple of the number of workers."""
    out = []
    corner = lambda c: sub_lattice(c) or (c["notional"] == 1.0 and c["df"] == 1.0 and c["spot"] == 0)  # noqa: E731
    for n in (1, 2, 3):  # simplest first
        for procs in POOL_PROCS:
            for c in confs:
                out.append(dict(c, sub="pool", procs=procs, alphabet="A3", rep="identity", N=n, lo=0, hi=3 ** n))
    for procs in POOL_PROCS:
        for c in confs:
            if not thorough and not sub_lattice(c):
                continue
            if thorough:
                out.append(dict(c, sub="pool", procs=procs, alphabet="A3", rep="identity", N=5, lo=0, hi=3 ** 5))
            else:  # the 27 sequences of A3^5 starting with (0.5, 1.5)
                out.append(dict(c, sub="pool", procs=procs, alphabet="A3", rep="identity", N=5, lo=54, hi=81))
            for n in POOL_SCRIPT_NS:
                out.append(dict(c, sub="pool", procs=procs, alphabet="A4", script=1, rep="identity", N=n, lo=0, hi=1))
            for n in (1, 2, 3):
                out.append(dict(c, sub="pool", procs=procs, alphabet="A3", rep="log", N=n, lo=0, hi=3 ** n))
    # rarely used options and path-dependent payoffs in the pool branch
    for n in (1, 2, 3):
        for c in confs:
            if corner(c) and (thorough or (c["payoff"] in ("s", "v2") and c["cv"] in ("none", "1a", "2a"))):
                out.append(dict(c, sub="pool", procs=3, alphabet="A3", rep="identity", N=n, lo=0, hi=3 ** n, seed=7, vr=1, nodensity=1))
    for n in (1, 2):
        for payoff in U.BARRIER_KINDS:
            for spot in (0, 1):
                for procs in (POOL_PROCS if thorough else (2,)):
                    out.append({"sub": "pool", "procs": procs, "payoff": payoff, "cv": "1a", "notional": 2.5, "df": 0.9, "spot": spot,
                                "alphabet": "B9", "rep": "identity", "N": n, "lo": 0, "hi": 9 ** n})
    # the REAL pathos pool (slow: two cases), on a constant script - the worker processes do not share the call counter
    for procs, n in ((2, 5), (3, 2)):
        out.append({"sub": "pool", "procs": procs, "realpool": 1, "payoff": "v2", "cv": "none", "notional": 2.5, "df": 0.9, "spot": 1,
                    "alphabet": "A3", "constant": 2, "rep": "identity", "N": n, "lo": 0, "hi": 1})
    return out


def _forms_cases(thorough):
    """Sub 'sweep' with `forms`: the same values handed over in another legal Python / numpy form (mc/c07_util.py lists them),
    judged by the complete oracle; and two long scripts (257 and 1000 paths: accumulation) with one and with three processes."""
    out = []

    def add(payoff, cv, notional, forms, procs=1):
        c = {"sub": "pool" if procs != 1 else "sweep", "payoff": payoff, "cv": cv, "notional": notional, "df": 0.9, "spot": 1,
             "alphabet": "A3", "rep": "identity", "forms": list(forms)}
        if procs != 1:
            c["procs"] = procs
        for n in (1, 2, 3):
            out.append(dict(c, N=n, lo=0, hi=3 ** n))
        out.append(dict(c, N=5, lo=0 if thorough else 54, hi=243 if thorough else 81))

    for f in U.STRIKE_FORMS:
        scalar, vector = ("si", "vi2") if "int" in f else ("s", "v2")
        if f not in ("strike-tuple", "strike-array"):
            for cv in ("none", "2a", "2r"):
                add(scalar, cv, 2.5, [f])
        if f != "strike-list1":
            for cv in ("none", "2a"):
                add(vector, cv, 2.5, [f])
    for f, nt in (("notional-int", 2.0), ("notional-npfloat", 2.5)):
        for payoff in ("s", "v2"):
            for cv in ("none", "2a"):
                add(payoff, cv, nt, [f])
    for f, combos in (("prices-tuple", (("s", "2r"), ("v2", "2a"))), ("prices-lists", (("v2", "2a"), ("s", "2a"))),
                      ("prices-2d", (("v2", "2a"), ("v2", "1a"), ("s", "2a"), ("v3", "2a"))), ("prices-array", (("s", "2r"), ("s", "1r"))),
                      ("prices-npfloat", (("s", "2r"), ("s", "1r"))), ("products-tuple", (("v2", "2a"), ("s", "2r")))):
        for payoff, cv in combos:
            add(payoff, cv, 2.5, [f])
    for f in U.CALL_FORMS:
        for payoff, cv in (("v2", "2a"), ("s", "none")):
            add(payoff, cv, 2.5, [f])
    add("v2", "2a", 2.5, ["procs-npint"], procs=2)
    for procs in (1, 3):
        add("v2", "2a", 2.5, ["strike-array", "notional-npfloat", "prices-2d", "products-tuple", "paths-npint", "procs-npint", "price-keyword"], procs)
        add("s", "2r", 2.5, ["strike-npfloat", "notional-npfloat", "prices-array", "paths-npint", "price-keyword"], procs)
        add("vi2", "2a", 2.0, ["strike-intarray", "notional-int", "prices-lists", "prices-tuple"], procs)
    # accumulation over many paths: fixed scripts of 257 and 1000 paths
    for n in (257, 1000):
        for cv in ("none", "2a"):
            for procs in (1, 3):
                c = {"sub": "pool" if procs != 1 else "sweep", "payoff": "v2", "cv": cv, "notional": 2.5, "df": 0.9, "spot": 1,
                     "alphabet": "A4", "script": 1, "rep": "identity", "N": n, "lo": 0, "hi": 1}
                out.append(dict(c, procs=procs) if procs != 1 else c)
    # beyond the row-count thresholds visible in the statistics helpers (blocks of 65536 / 32768 rows): 65536 + k paths,
    # single process, cheap payoffs; one run each (the determinism re-run is skipped for these)
    for n in LONG_SCRIPT_NS + (LONG_SCRIPT_NS_THOROUGH if thorough else ()):
        for payoff, cv in (("v2", "2a"), ("s", "none")):
            out.append({"sub": "sweep", "payoff": payoff, "cv": cv, "notional": 2.5, "df": 0.9, "spot": 1, "alphabet": "A4", "script": 1,
                        "rep": "identity", "N": n, "lo": 0, "hi": 1})
    return out


HIST_NS = (1, 2, 3, 5)
HIST_OPS = ("plain", "other", "deepcopy", "fork")
# the history goes on with copy.copy(engine) / with a dill round trip of the engine / with the same engine and deep copies /
# dill round trips of the product and of the ControlVariates object
HIST_OPS_COPIES = ("copy", "dill", "deepcopy-objects", "dill-objects")


def _history_cases(thorough):
    """Sub 'history': ONE Engine object (one configuration, one scripted process) priced two or three times; see the module
    docstring. A case = one chain of per-pricing configurations and operations with ONE tuple of path numbers; its histories
    are the letter sequences of the last pricing."""
    import itertools

    out = []
    payoffs = ("s", "v2", "v3") if thorough else ("s", "v2")
    cvs = U.CV_KINDS if thorough else ("none", "1a", "2a")
    base = [{"payoff": p, "cv": c, "spot": sp, "notional": 2.5, "df": 0.9} for p in payoffs for c in cvs for sp in (0, 1)]
    sweep5 = "all" if thorough else "block"

    def case(kind, rep, cfgs, ops, ns_list, sweep_max, s5):
        steps = [dict(c, op=o) for c, o in zip(cfgs, ("first",) + tuple(ops))]
        return {"sub": "history", "kind": kind, "rep": rep, "steps": steps, "Ns": [list(ns) for ns in ns_list],
                "sweep_max": sweep_max, "sweep5": s5, "alphabet": "A3"}

    quick_base = [c for c in base if c["payoff"] in ("s", "v2") and c["cv"] in ("none", "1a", "2a")]
    # (a) same configuration re-priced with another number of paths, every operation of the menu in between
    for n1 in HIST_NS:  # simplest first
        for c in base:
            for rep, ops in (("identity", HIST_OPS), ("log", ("plain",))):
                for op in ops:
                    s5 = "all" if thorough and op == "plain" and rep == "identity" else "block"
                    out.append(case("paths", rep, (c, c), (op,), [(n1, n2) for n2 in HIST_NS], 3, s5))
    for n1 in HIST_NS:
        for c in (base if thorough else quick_base):
            for op in HIST_OPS_COPIES:
                out.append(case("paths", "identity", (c, c), (op,), [(n1, n2) for n2 in HIST_NS], 3 if thorough else 2, "block" if thorough else "none"))
    # (a') the pool branch on ONE engine: re-priced with another number of paths, and nb_of_processes re-assigned between
    #      the pricings (1 -> 2, 2 -> 1, 2 -> 3, 3 -> None, None -> 1)
    pool_base = [c for c in (base if thorough else quick_base) if thorough or c["cv"] in ("none", "2a")]
    chains = [((p, p), op) for p in POOL_PROCS for op in ("plain",)] + [((2, 2), "deepcopy"), ((3, 3), "dill"), ((0, 0), "fork"), ((2, 2), "other")]
    chains += [(pq, "plain") for pq in ((1, 2), (2, 1), (2, 3), (3, 0), (0, 1))] + [((1, 3), "deepcopy"), ((1, 2), "dill")]
    for n1 in HIST_NS:
        for c in pool_base:
            for (p1, p2), op in chains:
                out.append(case("pool", "identity", (dict(c, procs=p1), dict(c, procs=p2)), (op,), [(n1, n2) for n2 in HIST_NS], 2, "none"))
    # (b) three pricings of the same configuration (grow then shrink, shrink then grow, ...)
    for n1, n2 in itertools.product(HIST_NS, repeat=2):
        for c in base:
            ops3 = list(itertools.product(HIST_OPS, repeat=2)) if thorough and c in quick_base else [("plain", "plain")]
            for ops in ops3:
                out.append(case("paths3", "identity", (c, c, c), ops, [(n1, n2, n3) for n3 in HIST_NS], 2, "none"))
    # (c) the configuration changes between the two pricings: every ordered pair of different (payoff, controls, spot
    #     statistics) configurations, and notional / discount factor changes on every configuration
    chains = [(a, b) for a in base for b in base if a != b]
    alt = ({"notional": 2.5, "df": 0.9}, {"notional": 1.0, "df": 0.9}, {"notional": 2.5, "df": 1.0})
    for c in base:
        for a in alt:
            for b in alt:
                if a != b:
                    chains.append((dict(c, **a), dict(c, **b)))
    for a, b in chains:
        out.append(case("config", "identity", (a, b), ("plain",), list(itertools.product(HIST_NS, repeat=2)), 2 if thorough else 0, "none"))
    # ... and the TYPE of the product's underlying changes (Spot / LogSpot / Mean, scalar strike) while the same ControlVariates
    # object (forward, forward + call on Spot) stays in the configuration: its value functions are implied from the product's
    # underlying at every pricing; both representations
    for rep in ("identity", "log"):
        for cvk in ("1a", "2a"):
            for pa, pb in itertools.permutations(("s", "ls", "m"), 2):
                a, b = ({"payoff": q, "cv": cvk, "spot": 1, "notional": 2.5, "df": 0.9} for q in (pa, pb))
                out.append(case("config", rep, (a, b), ("plain",), list(itertools.product(HIST_NS, repeat=2)), 2 if thorough else 0, "none"))
    # (f) ragged time grids on ONE engine: every pricing runs a fixed ragged script (the k-th pricing starts the cycle of grids
    #     at position k, so path i of two successive pricings has different dates), path-dependent payoffs, deterministic part
    #     x0 + drift t; same configuration re-priced, and the payoff changed between the pricings
    rag = lambda p, cvk, sp: {"payoff": p, "cv": cvk, "spot": sp, "notional": 2.5, "df": 0.9, "det": list(U.RAGGED_DET), "paths": "ragged"}  # noqa: E731
    rag_payoffs = ("as", "av2", "b-uo", "b-di") + (("b-ui", "b-do", "s") if thorough else ())
    pairs = list(itertools.product(HIST_NS, repeat=2))
    for p in rag_payoffs:
        for cvk in ("none", "1a"):
            for sp in (0, 1):
                for rep, ops in (("identity", HIST_OPS + (HIST_OPS_COPIES if thorough else ("dill",))), ("log", ("plain",))):
                    for op in ops:
                        out.append(case("ragged", rep, (rag(p, cvk, sp),) * 2, (op,), pairs, 0, "none"))
    for pa, pb in itertools.permutations(("as", "b-uo", "s"), 2):
        out.append(case("ragged", "identity", (rag(pa, "1a", 1), rag(pb, "1a", 1)), ("plain",), pairs, 0, "none"))
    # ... with PATH-DEPENDENT controls (forward + down-and-in barrier call on Spot; up-and-in + down-and-out): same configuration
    # re-priced, and the product changed while the SAME ControlVariates object stays (its underlying is implied from a product on
    # Spot and computed from the path for the Asian product)
    for p in ("s", "b-uo") + (("as", "v2") if thorough else ()):
        for cvk in ("2b",) + (("1b", "2c") if thorough else ()):
            for rep, ops in (("identity", ("plain", "deepcopy", "dill", "deepcopy-objects") + (("other", "fork", "copy", "dill-objects") if thorough else ())), ("log", ("plain",))):
                for op in ops:
                    out.append(case("ragged", rep, (rag(p, cvk, 1),) * 2, (op,), pairs, 0, "none"))
    for pa, pb in itertools.permutations(("as", "b-uo", "s"), 2):
        for cvk in ("2b", "2c"):
            out.append(case("ragged", "identity", (rag(pa, cvk, 1), rag(pb, cvk, 1)), ("plain",), pairs, 0, "none"))
    # (g) products on the default time on ONE engine: fixed default-time scripts (diffusion and jump components both move)
    dft = lambda p, cvk: {"payoff": p, "cv": cvk, "spot": 1, "notional": 2.5, "df": 0.9, "det": list(U.RAGGED_DET), "paths": "default"}  # noqa: E731
    for p in U.DEFAULT_KINDS:
        for cvk in ("none", "2d"):
            for rep, ops in (("log", ("plain", "deepcopy", "dill") + (("other", "fork") if thorough else ())), ("identity", ("plain",))):
                for op in ops:
                    out.append(case("default", rep, (dft(p, cvk),) * 2, (op,), pairs, 0, "none"))
    for pa, pb in itertools.permutations(("cds", "dput"), 2):
        out.append(case("default", "log", (dft(pa, "2d"), dft(pb, "2d")), ("plain",), pairs, 0, "none"))
    return out


# ----------------------------------------------------------------------------------------------------------------------
# helpers
# ----------------------------------------------------------------------------------------------------------------------

def _vec(x):
    return [float(v) for v in np.atleast_1d(np.asarray(x, dtype=float)).ravel()]


def _stats_array(st, name):
    obj = getattr(st, name, None)
    arr = getattr(obj, "stats", None)
    return None if arr is None else np.array(arr, dtype=float)  # a copy: a later pricing must not change what was read


def _tl(a, cap=64):
    """rows of an array as lists, for the detail of a violation; only the first rows of a long sample"""
    a = np.asarray(a)
    return a.tolist() if a.ndim == 0 or a.shape[0] <= cap else a[:cap].tolist() + [f"... ({a.shape[0]} rows)"]


def _dimk(d):
    return f"dim{d}"


def _cls_letters(letters):
    k = len(set(letters))
    return "constant-sample" if k == 1 else f"{k}-letter-sample"


def _rows_label(n):
    """Input class of a long script: how the number of paths relates to the 65536-row blocks of the statistics helpers."""
    if n <= 65536:
        return "at-most-65536-paths"
    return "more-than-65536-paths:" + ("multiple-of-65536" if n % 65536 == 0 else "not-a-multiple-of-65536")


def _pool_label(procs, n):
    """Input class of a pricing in the pool branch: number of workers and how the number of paths relates to it."""
    w = U.nb_workers(procs)
    rel = "fewer-paths-than-workers" if n < w else ("paths-multiple-of-workers" if n % w == 0 else "paths-not-multiple-of-workers")
    return f"pool-{procs or 'cpu-count'}-workers:{rel}"


def _price_and_observe(eng, product, real_pool=False, keyword=False):
    """One Engine.price call on the given engine object and everything that is read from its result. When the
    configuration asks for more than one process the engine's module sees the simulated pool of mc/c07_util.py (unless
    `real_pool`: the real pathos pool, whose worker processes do not report their calls to this process)."""
    obs = {"exc": None, "st": None}
    pooled = getattr(eng.configuration, "nb_of_processes", 1) != 1

    cv0 = getattr(eng.configuration, "control_variates", None)
    before = U.snapshot_inputs(product, cv0)

    def go():
        try:
            with np.errstate(all="ignore"), warnings.catch_warnings():
                warnings.simplefilter("ignore")
                st = eng.price(product=product) if keyword else eng.price(product)
                obs["st"] = st
                obs.update(_read_result(st))
        except Exception as e:  # the library failing on an input of the alphabet is an observation, not a harness error
            obs["exc"] = e
        # the caller's argument arrays (strikes, given prices) must read as before the pricing
        obs["inputs_changed"] = U.changed_inputs(before, U.snapshot_inputs(product, cv0))

    if pooled and not real_pool:
        with U.pool_installed() as inst:
            if inst.ok:
                go()
                obs["pool_log"] = list(U.SimPool.log)
            else:
                obs["uninstallable"] = True
    else:
        go()
    proc = eng.process
    # the path objects handed to the engine (times, diffusion and jump components) must read as when they were handed out
    obs["paths_changed"] = [] if (pooled and real_pool) else proc.changed_paths()
    obs["calls"] = None if (pooled and real_pool) else proc.calls
    obs["log"] = list(proc.log)
    return obs


def _pool_order(sh, case, letters, obs):
    """Pool branch: which task index a worker's path is stored at is the pool's business (with the real pool the order of
    the calls is not even determined), so the stored rows are matched with the paths handed out: row i must hold the payoff,
    the controls and the spot of ONE path, every path used once. Returns the letters in the order of the stored rows (the
    order of the calls when no such matching exists: the row sub-checks of check_run then report it)."""
    n = len(letters)
    Yl, Xl, Sl = obs.get("Y"), obs.get("X"), obs.get("spot")
    if Yl is None or Yl.ndim != 2 or Yl.shape[0] != n:
        return letters
    S, Y, X = U.reference_rows(case, letters)
    d = Yl.shape[1]
    try:
        Yr = np.array(Y, dtype=float).reshape(n, d)
        Xr = np.array(X, dtype=float).reshape(n, -1) if (Xl is not None and len(X[0])) else None
        Xs = Xl.reshape(n, -1) if Xr is not None else None
        if Xr is not None and Xs.shape != Xr.shape:
            return letters
        Sr = np.array(S, dtype=float).reshape(n, 1) if (case["spot"] and Sl is not None and Sl.shape == (n, 1)) else None
    except ValueError:
        return letters

    def same(a, b):
        return bool(np.all(np.abs(a - b) <= 1e-12 * np.abs(b) + 1e-300))

    used, perm = [False] * n, []
    with np.errstate(all="ignore"):
        for i in range(n):
            for k in list(range(i, n)) + list(range(i)):  # the identity first
                if not used[k] and same(Yl[i], Yr[k]) and (Xr is None or same(Xs[i], Xr[k])) and (Sr is None or same(Sl[i], Sr[k])):
                    used[k] = True
                    perm.append(k)
                    break
            else:
                return letters
    sh.count("pool_rows_in_task_order" if perm == list(range(n)) else "pool_rows_in_another_order")
    return [letters[k] for k in perm]


def _read_result(st):
    out = {}
    with np.errstate(all="ignore"), warnings.catch_warnings():
        warnings.simplefilter("ignore")
        out["raw_price"] = _vec(st.price(no_control_variates=True))
        out["price"] = _vec(st.price())
        out["raw_se"] = _vec(st.mc_stddev(no_control_variates=True))
        out["se"] = _vec(st.mc_stddev())
        # second public routes to the same figures: get_mean(), and the flag given positionally; a route the tree does not
        # offer (no such method, flag keyword-only) is not read
        routes = {}
        gm = getattr(st, "get_mean", None)
        for name, call in (("price(True)", lambda: st.price(True)), ("mc_stddev(True)", lambda: st.mc_stddev(True)),
                           ("price(False)", lambda: st.price(False)), ("mc_stddev(False)", lambda: st.mc_stddev(False)),
                           ("get_mean()", (lambda: gm()) if callable(gm) else None),
                           ("get_mean(no_control_variates=True)", (lambda: gm(no_control_variates=True)) if callable(gm) else None)):
            if call is None:
                continue
            try:
                routes[name] = _vec(call())
            except TypeError:
                pass
        out["routes"] = routes
    out["Y"] = _stats_array(st, "_payoff_statistics")
    out["X"] = _stats_array(st, "_control_variates_statistics")
    out["A"] = _stats_array(st, "_payoff_statistics_with_cv")
    out["spot"] = _stats_array(st, "_spot_underlying_statistics")
    return out


def run_engine(case, letters, objects=None):
    """One complete run of the real engine (fresh engine, configuration and process; fresh product / controls unless
    `objects` are handed in). Returns a dict of observations (or the exception)."""
    try:
        eng, proc, product = U.build_engine(case, letters, objects)
    except Exception as e:  # noqa: BLE001 - a constructor of the library rejects an input of the alphabet: an observation
        return {"exc": e, "stage": "construction", "st": None, "calls": 0, "log": []}
    return _price_and_observe(eng, product, real_pool=bool(case.get("realpool")), keyword="price-keyword" in case.get("forms", ()))


def _obs_fingerprint(obs):
    def f(a):
        return None if a is None else np.asarray(a).tobytes()

    return (repr(obs["exc"]), repr(obs.get("raw_price")), repr(obs.get("price")), repr(obs.get("raw_se")), repr(obs.get("se")), f(obs.get("Y")),
            f(obs.get("X")), f(obs.get("A")) if obs.get("X") is not None else None, f(obs.get("spot")), obs["calls"], tuple(obs["log"]))


# ----------------------------------------------------------------------------------------------------------------------
# the oracle on one run
# ----------------------------------------------------------------------------------------------------------------------

def check_run(sh, case, letters, obs):
    n = len(letters)
    d = U.payoff_dim(case["payoff"])
    cvk = case["cv"]
    # labels used in the violation keys: the sub "mixed" appends payoff kind, representation and position of the pricing
    # to the dimension label (which ends every key)
    dimk = case.get("dimlab", _dimk(d))
    cvlab = case.get("cvlab", cvk)
    hlab = case.get("hlab", "")  # sub "history": position of the pricing, appended to the keys that carry no dimension label
    nt, df = case["notional"], case["df"]
    spec = U.control_spec(cvk, d, case["payoff"])
    ncv = len(spec)
    procs = case.get("procs", 1)
    if obs.get("uninstallable"):
        sh.cap("rpylib.montecarlo.standard.engine has no attribute `mp` to replace by the simulated pool: the pool branch is not judged")
        return False
    if procs != 1 and obs["exc"] is None:
        letters = _pool_order(sh, case, letters, obs)
        sh.cls(_pool_label(procs, n))
    S, Y, X = U.reference_rows(case, letters)
    detail0 = {"letters": list(letters) if n <= 64 else list(letters[:64]) + [f"... ({n} paths)"],
               "config": {k: case[k] for k in ("payoff", "cv", "notional", "df", "spot", "rep", "alphabet")}}
    if case.get("det"):
        detail0["config"]["deterministic_part_x0_drift"] = list(case["det"])
    if procs != 1:
        detail0["config"]["nb_of_processes"] = procs or None
        detail0["pool"] = obs.get("pool_log")
    sh.count("evaluations")
    sh.cls(f"N={n}")
    sh.cls(f"payoff:{case['payoff']}")
    sh.cls(f"controls:{cvk}")
    sh.cls(_cls_letters(letters))

    if obs["exc"] is not None:
        e = obs["exc"]
        stage = obs.get("stage", "price")
        sh.violation(f"C07:engine:{stage}-raises:{type(e).__name__}:{cvlab}:{dimk}",
                     f"{'Engine.price' if stage == 'price' else 'building product / controls / configuration / engine'} raised "
                     f"{type(e).__name__}: {e} for N={n}, payoff {case['payoff']}, controls {cvk}", detail0)
        sh.outcome(("raises", type(e).__name__, cvk, dimk))
        return False

    for name in obs.get("inputs_changed") or ():
        sh.violation(f"C07:inputs:argument-array-modified-by-pricing:{name}{hlab}",
                     f"the caller's {name} array(s) read differently after Engine.price than before", detail0)

    for name in obs.get("paths_changed") or ():
        sh.violation(f"C07:inputs:simulated-path-modified-by-pricing:{name}-component{hlab}",
                     f"the {name} array of a simulated path object reads differently after Engine.price than when the process handed it out", detail0)

    # ---- calls: each path simulated exactly once
    if obs["calls"] is None:
        sh.count("calls_unobservable_with_the_real_pool")
    elif obs["calls"] != n:
        sh.violation(f"C07:calls:simulate_one_path:count-differs-from-configured-paths{hlab}",
                     f"{obs['calls']} paths were simulated for mc_paths={n}", detail0)

    scale = max(abs(nt) * df, max((abs(v) for row in Y for v in row), default=0.0))

    def se_close(a, b):
        """standard errors: 1e-9 of the sample's scale, and 1e-7 of the standard error itself when that is smaller (a two-pass
        standard deviation is accurate to eps * |mean| / std relative, a one-pass one to eps * (mean / std)^2)"""
        return bool(abs(a - b) <= min(1e-9 * scale, 1e-7 * abs(b)) + 1e-12 * scale)

    # ---- rows
    Yl = obs["Y"]
    if Yl is None:
        sh.count("rows_unobservable")
    else:
        Yr = np.array(Y, dtype=float).reshape(n, d)
        if Yl.shape != Yr.shape:
            sh.violation(f"C07:rows:payoff:shape:{dimk}", f"stored payoff array has shape {Yl.shape}, expected {Yr.shape}", detail0)
            Yl = None
        elif not np.allclose(Yl, Yr, rtol=1e-12, atol=1e-14 * scale):
            bad = np.argwhere(~np.isclose(Yl, Yr, rtol=1e-12, atol=1e-14 * scale))[0]
            i, c = int(bad[0]), int(bad[1])
            kind = "value"
            # does the row hold another path's payoff (order / duplication), or a mis-scaled one?
            if any(np.allclose(Yl[i], Yr[k], rtol=1e-12, atol=1e-14 * scale) for k in range(n) if k != i):
                kind = "row-of-another-path"
            elif np.allclose(Yl[i] * df, Yr[i], rtol=1e-12, atol=1e-14 * scale) and df != 1.0:
                kind = "not-discounted"
            elif np.allclose(Yl[i], Yr[i] * df, rtol=1e-12, atol=1e-14 * scale) and df != 1.0:
                kind = "discounted-twice"
            elif np.allclose(Yl[i] * nt, Yr[i], rtol=1e-12, atol=1e-14 * scale) and nt != 1.0:
                kind = "notional-missing"
            sh.violation(f"C07:rows:payoff:row-differs-from-path-payoff:{kind}:{dimk}",
                         f"stored payoff row {i} component {c} = {Yl[i, c]!r}, but df*notional*payoff(path {i}) = {Yr[i, c]!r}",
                         dict(detail0, stored=_tl(Yl), reference=_tl(Yr)))
    Xl = obs["X"]
    if ncv and Xl is not None:
        Xr = np.array(X, dtype=float).reshape(n, ncv, d)
        if Xl.shape != Xr.shape:
            sh.violation(f"C07:rows:control:shape:{cvlab}:{dimk}", f"stored control array has shape {Xl.shape}, expected {Xr.shape}", detail0)
        elif not np.all(np.abs(Xl - Xr) <= 1e-12 * np.abs(Xr) + 1e-14 * np.max(np.abs(Xr), axis=(0, 2), keepdims=True)):
            # (absolute part relative to each control's own magnitude: a control may have a notional of 1e-7)
            bad = [int(v) for v in np.argwhere(~(np.abs(Xl - Xr) <= 1e-12 * np.abs(Xr) + 1e-14 * np.max(np.abs(Xr), axis=(0, 2), keepdims=True)))[0]]
            sh.violation(f"C07:rows:control:row-differs-from-path-payoff:{cvlab}:{dimk}",
                         f"stored control row {bad[0]} control {bad[1]} component {bad[2]} = {Xl[tuple(bad)]!r}, reference {Xr[tuple(bad)]!r}",
                         dict(detail0, stored=_tl(Xl), reference=_tl(Xr)))
    if case["spot"]:
        Sl = obs["spot"]
        if Sl is None:
            sh.violation(f"C07:rows:spot:no-spot-statistics-though-activated{hlab}", "activate_spot_statistics=True but no spot rows are stored", detail0)
        else:
            Sr = np.array(S, dtype=float).reshape(n, 1)
            if Sl.shape != Sr.shape:
                sh.violation(f"C07:rows:spot:shape{hlab}", f"spot array has shape {Sl.shape}, expected {Sr.shape}", detail0)
            elif not np.allclose(Sl, Sr, rtol=1e-12, atol=0.0):
                i = int(np.argwhere(~np.isclose(Sl, Sr, rtol=1e-12, atol=0.0))[0][0])
                sh.violation(f"C07:rows:spot:row-differs-from-terminal-spot:{case.get('rep', 'identity')}{hlab}",
                             f"spot row {i} = {Sl[i, 0]!r}, terminal spot of path {i} = {Sr[i, 0]!r}", dict(detail0, stored=_tl(Sl.ravel())))
    elif obs["spot"] is not None:
        sh.count("spot_rows_present_though_not_activated")

    # ---- second public routes to the same figures (same computation: equal up to an ulp)
    for route, vals in (obs.get("routes") or {}).items():
        usual = obs[("raw_" if "True" in route else "") + ("price" if "mc_stddev" not in route else "se")]
        sh.count("second_routes")
        if len(vals) != len(usual) or not all(core.close(a, b, rtol=1e-14, atol=0.0) or (a != a and b != b) for a, b in zip(vals, usual)):
            sh.violation(f"C07:routes:{route}:differs-from-the-keyword-form:{dimk}",
                         f"{route} = {vals} but the usual call gives {usual}", detail0)

    # ---- raw price and error, per component
    cols = [[Y[i][c] for i in range(n)] for c in range(d)]
    ok_shape = True
    for name in ("raw_price", "price", "raw_se", "se"):
        if len(obs[name]) != d and not (name in ("raw_se", "se") and n == 1):
            ok_shape = False
            sh.violation(f"C07:{'price' if 'price' in name else 'mc_stddev'}:shape:{'raw' if name.startswith('raw') else 'default'}:{dimk}",
                         f"{name} has {len(obs[name])} component(s) for a payoff of dimension {d}: {obs[name]}", detail0)
    if not ok_shape:
        return True
    mean_ref = [U.fmean(col) for col in cols]
    for c in range(d):
        if not core.close(obs["raw_price"][c], mean_ref[c], rtol=1e-9, atol=1e-12 * scale, scale=scale):
            sh.violation(f"C07:price:raw:not-the-arithmetic-mean-of-the-path-payoffs:{dimk}",
                         f"price(no_control_variates=True)[{c}] = {obs['raw_price'][c]!r}, mean of df*notional*payoff over the {n} paths = {mean_ref[c]!r}",
                         dict(detail0, library=obs["raw_price"], reference=mean_ref))
            break
    if n >= 2:
        se_ref = [U.fstd_err(col) for col in cols]
        lib = obs["raw_se"]
        if not all(se_close(lib[c], se_ref[c]) for c in range(d)):
            if d > 1 and all(se_close(lib[c] * math.sqrt(d), se_ref[c]) for c in range(d)):
                kind = "divided-by-sqrt-of-N-times-dimension"
            elif all(se_close(lib[c] * math.sqrt(n / (n - 1.0)), se_ref[c]) for c in range(d)):
                kind = "biased-standard-deviation"
            else:
                kind = "value"
            sh.violation(f"C07:mc_stddev:raw:{kind}:{dimk}",
                         f"mc_stddev(no_control_variates=True) = {lib}, unbiased sample standard deviation / sqrt({n}) per component = {se_ref}",
                         dict(detail0, library=lib, reference=se_ref))
    else:
        sh.count("n1_error_outside_statement")

    if ncv == 0:
        if obs["price"] != obs["raw_price"] or (n >= 2 and obs["se"] != obs["raw_se"]):
            sh.violation(f"C07:price:default:differs-from-raw-without-controls:{dimk}",
                         f"no controls, but price() = {obs['price']} / mc_stddev() = {obs['se']} differ from the no_control_variates values {obs['raw_price']} / {obs['raw_se']}",
                         detail0)
        sh.outcome(("nocv", dimk, _cls_letters(letters), n))
        return True

    # ---- control variates, per payoff component
    P = U.control_prices(cvk, d, nt, df, case["payoff"])
    Al = obs["A"]
    if Al is not None and Al.shape != (n, d):
        sh.violation(f"C07:cv:rows:shape:{cvlab}:{dimk}", f"adjusted payoff array has shape {Al.shape}, expected {(n, d)}", detail0)
        Al = None
    if Al is None:
        sh.count("adjusted_rows_unobservable")
    for c in range(d):
        y = np.array(cols[c])
        Xc = np.array([[X[i][j][c] for j in range(ncv)] for i in range(n)], dtype=float).reshape(n, ncv)
        p = np.array([P[j][c] for j in range(ncv)])
        xm = np.array([U.fmean(list(Xc[:, j])) for j in range(ncv)])
        Xcen = Xc - xm
        ycen = y - mean_ref[c]
        # scale-invariant classification and solve: every control column is divided by its own norm first, so that a
        # control product with a notional of 1e-7 is treated exactly like the same control with notional 1
        colscale = np.maximum(np.max(np.abs(Xc), axis=0), np.abs(p))
        colscale = np.where(colscale > 0, colscale, 1.0)
        colnorm = np.sqrt(np.sum(Xcen ** 2, axis=0))
        constant = colnorm <= 1e-13 * colscale * math.sqrt(n)
        unit = np.where(constant, 1.0, colnorm)
        Z = np.where(constant, 0.0, Xcen / unit)
        sv = np.linalg.svd(Z, compute_uv=False)
        sv = np.concatenate([sv, np.zeros(max(0, ncv - len(sv)))])
        smax, smin = float(sv[0]), float(sv[ncv - 1])
        if bool(np.any(constant)) or smin <= DEFICIENT * smax:
            cond = "rank-deficient"
        elif smin >= WELL * smax:
            cond = "well-conditioned"
        else:
            cond = "inconclusive"
        sh.cls(f"controls-sample:{cond}")
        mean_hit = bool(np.all(np.abs(xm - p) <= 1e-14 * colscale))
        var_raw = U.fvar(list(y)) if n >= 2 else 0.0
        a_lib = None if Al is None else Al[:, c]
        det = dict(detail0, component=c, conditioning=cond, singular_values=sv.tolist(), given_prices=p.tolist(),
                   control_means=xm.tolist())

        if cond == "inconclusive":
            sh.count("oracle_inconclusive")
            continue

        main_ok = True
        if cond == "well-conditioned":
            sh.count("cv_well_conditioned")
            b_ref = np.linalg.lstsq(Z, ycen, rcond=None)[0] / unit
            a_ref = y - (Xc - p) @ b_ref
            sc = max(scale, float(np.max(np.abs(a_ref))), float(np.sum(np.abs(b_ref) * np.max(np.abs(Xc - p), axis=0))))
            # forward error of any method that forms the controls' covariance matrix: eps * cond(Sigma_X) of the RAW samples
            # (1e8 for a pair of controls with notionals 1e-3 / 1e-6); never below the standard 1e-9
            sraw = np.linalg.svd(Xcen, compute_uv=False)
            rt = max(1e-9, 16 * 2.3e-16 * float(sraw[0] / sraw[ncv - 1]) ** 2)
            price_ref = U.fmean(list(a_ref))
            det.update(b_ref=b_ref.tolist(), price_reference=price_ref, price_library=obs["price"][c], raw_mean=mean_ref[c])
            price_ok = core.close(obs["price"][c], price_ref, rtol=rt, atol=1e-12 * sc, scale=sc)
            rows_ok = a_lib is None or bool(np.allclose(a_lib, a_ref, rtol=rt, atol=rt * sc))
            main_ok = price_ok and rows_ok
            if not main_ok:
                kind = "value"
                adjusted = not np.allclose(a_ref, y, rtol=rt, atol=rt * sc)  # the reference really moves the samples
                # (1) the given prices are looked up with the index of the payoff component instead of the control's
                if cvk.endswith("r") and c < ncv:
                    a_alt = y - (Xc - np.full(ncv, P[c][0])) @ b_ref
                    if core.close(obs["price"][c], U.fmean(list(a_alt)), rtol=rt, atol=1e-12 * sc, scale=sc) and (
                            a_lib is None or np.allclose(a_lib, a_alt, rtol=rt, atol=rt * sc)):
                        kind = "real-given-prices-indexed-by-payoff-component"
                # (2) controls dropped (b = 0) although the regression coefficient exists and is not zero
                if kind == "value" and adjusted and core.close(obs["price"][c], mean_ref[c], rtol=1e-12, atol=1e-14 * sc, scale=sc) and (
                        a_lib is None or np.allclose(a_lib, y, rtol=1e-12, atol=1e-14 * sc)):
                    sigma = np.cov(Xc.T, bias=True).reshape(ncv, ncv)
                    off = sigma[~np.eye(ncv, dtype=bool)]
                    if off.size and float(np.min(np.abs(off))) < 1e-12 <= float(np.min(np.diag(sigma))):
                        kind = "controls-dropped-because-two-controls-are-uncorrelated"
                    else:
                        kind = "controls-dropped"
                what = (f"price()[{c}] = {obs['price'][c]!r} but mean of Y - b*(X - price_X) = {price_ref!r}" if not price_ok else
                        f"adjusted rows of component {c} = {_tl(a_lib)} but Y - b*(X - price_X) = {_tl(a_ref)}")
                sh.violation(f"C07:cv:adjustment:not-the-regression-adjustment:{kind}:{cvlab}:{dimk}",
                             what + f" with b* = {b_ref.tolist()} (raw mean {mean_ref[c]!r}, given prices {p.tolist()}, control means {xm.tolist()})",
                             dict(det, adjusted_rows_library=None if a_lib is None else _tl(a_lib), adjusted_rows_reference=_tl(a_ref)))
            elif n >= 2:
                # the error only when price and rows agree (one key per defect)
                se_ref = U.fstd_err(list(a_ref))
                if not core.close(obs["se"][c], se_ref, rtol=rt, atol=rt * sc, scale=sc):
                    kind = "value"
                    if d > 1 and core.close(obs["se"][c] * math.sqrt(d), se_ref, rtol=rt, atol=rt * sc, scale=sc):
                        kind = "divided-by-sqrt-of-N-times-dimension"
                    elif core.close(obs["se"][c] * math.sqrt(n / (n - 1.0)), se_ref, rtol=rt, atol=rt * sc, scale=sc):
                        kind = "biased-standard-deviation"
                    sh.violation(f"C07:cv:mc_stddev:{kind}:{dimk}",
                                 f"mc_stddev()[{c}] = {obs['se'][c]!r}, unbiased standard deviation of the adjusted samples / sqrt({n}) = {se_ref!r}", det)
        else:
            sh.count("cv_rank_deficient")
            sc = scale
            if a_lib is not None:
                sc = max(scale, float(np.max(np.abs(a_lib))) if np.all(np.isfinite(a_lib)) else scale)
                # adjusted rows are Y - b(X - price_X) for some b
                M = Xc - p
                diff = y - a_lib
                ok_form = bool(np.all(np.isfinite(a_lib)))
                if ok_form:
                    b_any = np.linalg.lstsq(M / colscale, diff, rcond=None)[0] / colscale
                    res = diff - M @ b_any
                    ok_form = bool(np.max(np.abs(res)) <= 1e-9 * sc)
                if not ok_form:
                    sh.violation(f"C07:cv:rows:adjusted-rows-not-a-control-variate-adjustment:rank-deficient-controls:{cvlab}:{dimk}",
                                 f"adjusted rows of component {c} = {_tl(a_lib)} are not Y - b(X - price_X) for any b", det)
                # price and error are the mean / standard error of those rows
                if ok_form and not core.close(obs["price"][c], U.fmean(list(a_lib)), rtol=1e-9, atol=1e-12 * sc, scale=sc):
                    sh.violation(f"C07:cv:price:not-the-mean-of-the-adjusted-rows:rank-deficient-controls:{cvlab}:{dimk}",
                                 f"price()[{c}] = {obs['price'][c]!r}, mean of the adjusted rows = {U.fmean(list(a_lib))!r}", det)
                if ok_form and n >= 2:
                    se_rows = U.fstd_err(list(a_lib))
                    if not core.close(obs["se"][c], se_rows, rtol=1e-9, atol=1e-9 * sc, scale=sc):
                        kind = "value"
                        if d > 1 and core.close(obs["se"][c] * math.sqrt(d), se_rows, rtol=1e-9, atol=1e-9 * sc, scale=sc):
                            kind = "divided-by-sqrt-of-N-times-dimension"
                        elif core.close(obs["se"][c] * math.sqrt(n / (n - 1.0)), se_rows, rtol=1e-9, atol=1e-9 * sc, scale=sc):
                            kind = "biased-standard-deviation"
                        sh.violation(f"C07:cv:mc_stddev:{kind}:{dimk}",
                                     f"mc_stddev()[{c}] = {obs['se'][c]!r}, unbiased standard deviation of the adjusted rows / sqrt({n}) = {se_rows!r}", det)

        # ---- consequences asserted in both classes
        if n >= 2:
            if a_lib is not None and np.all(np.isfinite(a_lib)):
                var_adj = U.fvar(list(a_lib))
            else:
                var_adj = obs["se"][c] ** 2 * n
            slack = 1e-10 * max(sc, scale) ** 2
            sh.count("variance_inequalities")
            if not (var_adj <= var_raw + slack):
                sh.violation(f"C07:cv:variance:adjusted-sample-variance-exceeds-raw:{cond}:{cvlab}:{dimk}",
                             f"component {c}: sample variance of the adjusted payoff {var_adj!r} > raw {var_raw!r}",
                             dict(det, adjusted_rows=None if a_lib is None else _tl(a_lib)))
        if mean_hit and main_ok:
            sh.count("control_mean_equals_given_price")
            tol = 1e-9 * max(sc, scale)
            if not abs(obs["price"][c] - obs["raw_price"][c]) <= tol:
                sh.violation(f"C07:cv:price:differs-from-raw-mean-although-control-mean-equals-given-price:{cond}:{cvlab}:{dimk}",
                             f"component {c}: mean(X) = price_X = {p.tolist()} but price() = {obs['price'][c]!r} != raw mean {obs['raw_price'][c]!r}", det)
        sh.outcome((cvk, dimk, cond, _cls_letters(letters), mean_hit, n,
                    "reduced" if (n >= 2 and var_raw > 0 and abs(obs["price"][c] - obs["raw_price"][c]) > 1e-12 * scale) else "unchanged"))
    return True


# ----------------------------------------------------------------------------------------------------------------------

def _pricings(case):
    """The successive pricings of one sequence: list of per-pricing case dicts (representation + key labels)."""
    ragged = ":ragged-grids" if case.get("det") else ""  # every path on its own time grid, deterministic part x0 + drift t
    if case["sub"] == "pool":
        lab = _pool_label(case["procs"], case["N"]) + (":real-pool" if case.get("realpool") else "")
        dim = (f"{_dimk(U.payoff_dim(case['payoff']))}:{case['payoff']}" if (case["payoff"] in U.PATH_KINDS + U.DEFAULT_KINDS or case["cv"] in U.PATH_CV_KINDS) else _dimk(U.payoff_dim(case["payoff"]))) + ragged
        opts = [k for k in ("seed", "vr", "nodensity") if case.get(k)] + list(case.get("forms", ()))
        return [dict(case, dimlab=f"{dim}:{case['rep']}:{lab}" + (f":options-{'+'.join(opts)}" if opts else ""), hlab=f":{lab}")]
    if case["sub"] != "mixed":
        if case["payoff"] in U.PATH_KINDS + U.DEFAULT_KINDS or case["cv"] in U.PATH_CV_KINDS or ragged:  # narrower input class in the keys of the path-dependent payoffs
            return [dict(case, dimlab=f"{_dimk(U.payoff_dim(case['payoff']))}:{case['payoff']}:{case['rep']}{ragged}:spot-statistics-{'on' if case['spot'] else 'off'}")]
        opts = [k for k in ("seed", "vr", "nodensity") if case.get(k)]
        if opts:
            return [dict(case, dimlab=f"{_dimk(U.payoff_dim(case['payoff']))}:options-{'+'.join(opts)}")]
        if case.get("forms"):
            return [dict(case, dimlab=f"{_dimk(U.payoff_dim(case['payoff']))}:{case['payoff']}:forms-{'+'.join(case['forms'])}")]
        if case["N"] > 4096:
            return [dict(case, dimlab=f"{_dimk(U.payoff_dim(case['payoff']))}:{_rows_label(case['N'])}")]
        if case.get("signed"):
            sign = ("negative-notional" if case["notional"] < 0 else "positive-notional") + (":df-above-1" if case["df"] > 1 else "")
            return [dict(case, dimlab=f"{_dimk(U.payoff_dim(case['payoff']))}:{case['payoff']}:{sign}")]
        if case["alphabet"] == "N3":
            return [dict(case, dimlab=f"{_dimk(U.payoff_dim(case['payoff']))}:narrow-sample-around-a-large-mean")]
        return [case]
    out = []
    reps = case["reps"]
    for k, rep in enumerate(reps):
        pos = "first-pricing" if k == 0 else f"second-pricing-after-{reps[k - 1]}"
        lab = f"{case['payoff']}:{rep}:{pos}"
        out.append(dict(case, rep=rep, dimlab=f"{_dimk(U.payoff_dim(case['payoff']))}:{lab}"))
    return out


def run_sequence(case, letters):
    """All pricings of one sequence of terminal values. Sub 'mixed': the SAME product and ControlVariates objects are priced
    by successive fresh engines, each with a fresh scripted process in the stated representation."""
    pr = _pricings(case)
    objects = U.make_objects(case) if case["sub"] == "mixed" else None
    return [(c, run_engine(c, letters, objects)) for c in pr]


# ----------------------------------------------------------------------------------------------------------------------
# sub "history": ONE engine object priced several times
# ----------------------------------------------------------------------------------------------------------------------

HIST_FIELDS = ("payoff", "cv", "spot", "notional", "df", "procs")


def _hist_script(stp, k, n, reverse=False):
    """fixed script of the k-th pricing of a history: A4 cycled, or a ragged script when the step says so"""
    if stp.get("paths") == "default":
        return U.default_script(k, n, reverse)
    return U.ragged_script(k, n, reverse) if stp.get("paths") == "ragged" else U.script_letters(k, n, reverse)


def _result_fingerprint(r):
    def f(a):
        return None if a is None else np.asarray(a).tobytes()

    return (repr(r["raw_price"]), repr(r["price"]), repr(r["raw_se"]), repr(r["se"]), f(r["Y"]), f(r["X"]),
            f(r["A"]) if r["X"] is not None else None, f(r["spot"]))


def _hist_indices(case, ns):
    """Indices of the letter sequences of the LAST pricing (-1 = the fixed script)."""
    if "lo" in case:  # replay of one history
        return range(case["lo"], case["hi"])
    n = ns[-1]
    if n <= case["sweep_max"]:
        return range(3 ** n)
    if n == 5 and case["sweep5"] == "block":
        return range(54, 81)  # the sequences of A3^5 starting with (0.5, 1.5)
    if n == 5 and case["sweep5"] == "all":
        return range(3 ** 5)
    return (-1,)


def _hist_label(prev, cur, op):
    if prev is None:
        return "first-pricing"
    rel = "fewer" if cur["N"] < prev["N"] else ("more" if cur["N"] > prev["N"] else "same-number-of")
    chg = [f for f in HIST_FIELDS if cur.get(f, 1) != prev.get(f, 1)]
    return f"re-pricing-with-{rel}-paths:{'changed-' + '+'.join(chg) if chg else 'same-configuration'}:after-{op}"


def run_history(case, ns, idx):
    """One history on ONE Engine object. Returns (records, changed): records = [(per-pricing case, letters, observation)] in
    the order of the pricings (side engines included), changed = [(label of the earlier pricing, label of the pricing after
    which its result object read differently)]."""
    rep = case["rep"]
    steps = [dict(cfg, N=int(n)) for cfg, n in zip(case["steps"], ns)]
    objs = U.HistoryObjects()
    records, kept, changed = [], [], []
    eng = None
    last = len(steps) - 1

    def label_case(stp, pos):
        d = U.payoff_dim(stp["payoff"])
        opt = {"seed": 7, "vr": 1} if rep == "log" else {}  # the log histories also carry the rarely used options
        if stp.get("procs", 1) != 1:  # the pool branch: number of workers and how the number of paths relates to it
            pos = f"{pos}:{_pool_label(stp['procs'], stp['N'])}"
        if stp.get("paths") in ("ragged", "default"):  # narrower input class: payoff kind, ragged grids
            pos = f"{pos}:{stp['payoff']}:ragged-grids"
        return dict(stp, sub="history", rep=rep, alphabet="A3/A4-script", dimlab=f"{_dimk(d)}:history:{rep}:{pos}", hlab=f":history:{pos}", **opt)

    def after(sc, letters, obs):
        records.append((sc, letters, obs))
        # every result object handed out earlier in this history is read again: the figures of a pricing belong to that pricing
        for name, st, fp in kept:
            try:
                now = _result_fingerprint(_read_result(st))
            except Exception as e:  # noqa: BLE001 - reading an earlier result fails now
                now = ("raises", type(e).__name__)
            if now != fp and (name, sc["dimlab"]) not in changed:
                changed.append((name, sc["dimlab"]))
        if obs["exc"] is None and obs["st"] is not None:
            kept.append((sc["dimlab"], obs["st"], _result_fingerprint(obs)))

    for k, stp in enumerate(steps):
        op = stp["op"]
        letters = _hist_script(stp, k, stp["N"])
        if k == last and idx >= 0:
            letters = [U.ALPHABETS["A3"][j] for j in U.decode(idx, stp["N"], 3)]
        prev = steps[k - 1] if k else None
        sc = label_case(stp, _hist_label(prev, stp, op))
        product, cv = objs.product(stp), objs.controls(stp)
        if k == 0:
            eng, _, _ = U.build_engine(sc, letters, (product, cv))
        else:
            if op in ("other", "fork"):
                side_letters = _hist_script(stp if op == "other" else prev, k, U.SIDE_N, reverse=True)
                if op == "other":  # a second, completely separate engine of the same classes is priced in between
                    side = label_case(dict(stp, N=U.SIDE_N), "side-engine-other")
                    e2, _, prod2 = U.build_engine(side, side_letters, None)
                else:  # a deep copy of the engine is priced in between (same product object), the original goes on
                    side = label_case(dict(prev, N=U.SIDE_N), "side-engine-fork")
                    e2 = copy.deepcopy(eng)
                    e2.configuration.mc_paths = U.SIDE_N
                    e2.process.load(side_letters)
                    prod2 = objs.product(prev)
                after(side, side_letters, _price_and_observe(e2, prod2))
            elif op == "deepcopy":  # the history goes on with a deep copy of the engine
                eng = copy.deepcopy(eng)
            elif op == "copy":  # ... with a shallow copy (it shares configuration and process with the original)
                eng = copy.copy(eng)
            elif op == "dill":  # ... with a dill round trip of the engine (what is sent to another process)
                import dill

                eng = dill.loads(dill.dumps(eng))
            elif op in ("deepcopy-objects", "dill-objects"):  # same engine; copies of the product and of the controls
                import dill

                dup = copy.deepcopy if op == "deepcopy-objects" else (lambda o: dill.loads(dill.dumps(o)))
                product, cv = dup(product), dup(cv)
                eng.configuration.control_variates = cv
            conf = eng.configuration
            conf.mc_paths = stp["N"]
            if "procs" in stp:
                conf.nb_of_processes = stp["procs"] or None
            conf.activate_spot_statistics = bool(stp["spot"])
            if U.HistoryObjects.controls_key(stp) != U.HistoryObjects.controls_key(prev):
                conf.control_variates = cv
            eng.process.load(letters, df=stp["df"])
        after(sc, letters, _price_and_observe(eng, product))
    return records, changed


def check_history_case(sh, case):
    block = dict(case)
    nontrivial = False
    first = True
    for ns in case["Ns"]:
        for idx in _hist_indices(case, ns):
            sh.case = dict(block, Ns=[list(ns)], lo=idx, hi=idx + 1)  # minimal replay
            records, changed = run_history(case, ns, idx)
            sh.count("histories")
            for sc, letters, obs in records:
                check_run(sh, sc, letters, obs)
                if len(set(letters)) > 1:
                    nontrivial = True
            sh.cls(f"history:length-{len(ns)}:ops-{'-'.join(c['op'] for c in case['steps'][1:])}")
            for sc, _, _ in records[1:]:
                sh.cls("history:" + sc["dimlab"].split(":", 3)[3])
            sh.count("earlier_results_re_read", max(0, len(records) * (len(records) - 1) // 2))
            for name, when in changed:
                sh.violation(f"C07:history:result-of-earlier-pricing-changed-by-later-pricing:{name.split(':', 3)[3]}:then:{when.split(':', 3)[3]}",
                             f"the MCStatistics object returned by the pricing [{name}] reads differently after the pricing [{when}] "
                             f"(its price / error / stored rows are no longer those of its own paths)",
                             {"Ns": list(ns), "steps": case["steps"]})
            if first:
                first = False
                again, changed2 = run_history(case, ns, idx)
                if [_obs_fingerprint(o) for _, _, o in again] != [_obs_fingerprint(o) for _, _, o in records] or changed2 != changed:
                    sh.violation("NONDETERMINISM", f"two runs of {sh.case} differ", None)
                sh.count("determinism_rechecks")
    sh.case = block
    if nontrivial:
        sh.nontriv(block)


def check_case(sh, case):
    U.quiet()
    if case["sub"] == "history":
        return check_history_case(sh, case)
    block = dict(case)
    letters_all = U.ALPHABETS[case["alphabet"]]
    n = case["N"]
    nontrivial = False
    for idx in range(case["lo"], case["hi"]):
        seq = U.decode(idx, n, len(letters_all))
        letters = [letters_all[k] for k in seq]
        if case.get("script") == "ragged":  # a fixed ragged script: every path on its own time grid
            letters = U.ragged_script(0, n)
        elif case.get("script") == "default":  # a fixed default-time script (diffusion and jump components both move)
            letters = U.default_script(0, n)
        elif case.get("script") and n > 4096:  # long fixed script (beyond the row-count thresholds of the statistics helpers)
            letters = U.long_script(n)
        elif case.get("script"):  # a fixed script instead of an enumerated sequence (larger numbers of paths)
            letters = U.script_letters(0, n)
        elif "constant" in case:  # the same path n times (the real pool: the workers cannot share the script's position)
            letters = [letters_all[case["constant"]]] * n
        sh.case = dict(block, lo=idx, hi=idx + 1)  # a violation is recorded with its own sequence only (minimal replay)
        runs = run_sequence(case, letters)
        for c, obs in runs:
            check_run(sh, c, letters, obs)
            if case["sub"] == "mixed":
                sh.cls(f"mixed:{U.PAYOFF_UNDERLYING[case['payoff']]}-product:{c['rep']}:{'first' if c['dimlab'].endswith('first-pricing') else 'second'}-pricing")
        if len(set(letters)) > 1:
            nontrivial = True
        if idx == case["lo"] and n <= 4096:
            # determinism self-check: same case on fresh objects gives the same complete observation, bit for bit
            again = run_sequence(case, letters)
            if [_obs_fingerprint(o) for _, o in again] != [_obs_fingerprint(o) for _, o in runs]:
                sh.violation("NONDETERMINISM", f"two runs of {sh.case} differ", None)
            sh.count("determinism_rechecks")
        obs = runs[-1][1]
        if idx == 5 and n in (3, 5) and case["payoff"] in ("v2", "lv2") and case["notional"] == 2.5 and case["df"] == 0.9:
            # a written-out example for the evidence: the sequence (..., 0.5, 1, 1.5) of this configuration
            sh.sample({"case": sh.case, "letters": letters,
                       "observed": {"raw_price": obs.get("raw_price"), "price": obs.get("price"),
                                    "raw_mc_stddev": obs.get("raw_se"), "mc_stddev": obs.get("se"),
                                    "exception": repr(obs["exc"]) if obs["exc"] else None}})
    sh.case = block
    if nontrivial:
        sh.nontriv(block)
